"""C17 Syntax and tracebacks show the source line for line under the right numbers."""
from __future__ import annotations

import ast
from typing import List, Optional

from .. import cfg as cfgmod
from ..astutil import call_name, kwarg
from ..index import AnalysisError, AnchorVanished, norm, short, walk_local
from ..linear import eq as lin_eq, lin, show
from .common import memo_rule

LEVEL = "other"
UNDECIDED = [
    "Pygments' own token stream (trusted to concatenate to its input when stripnl/stripall are off)",
    "the rendered characters after wrapping / cropping to the code width",
    "blank lines at the very end of the source (the property itself sets them aside)",
]
TRUSTED = ["CPython ast parser", "Pygments documentation: lexers strip leading/trailing newlines unless stripnl=False; get_tokens() otherwise yields text that concatenates to the input", "str.partition / enumerate / slicing semantics"]


def r17_1(ctx):
    ctx.rule("R17.1", "the lexer must not drop lines: every Pygments lexer whose get_tokens() output flows into the displayed Text is created with stripnl=False (the default True removes leading/trailing blank lines and shifts every line number); lexers used only for their name are exempt")
    n = 0
    for ms in ("syntax", "traceback", "markdown"):
        m = ctx.repo.mod(ms)
        for f in m.functions.values():
            if m.in_main_guard(f.node) or f.parent is not None:
                continue
            for x in walk_local(f.node):
                if isinstance(x, ast.Assign) and isinstance(x.value, ast.Call) and call_name(x.value) in ("get_lexer_by_name", "get_lexer_for_filename", "guess_lexer_for_filename", "guess_lexer") and isinstance(x.targets[0], ast.Name):
                    var = x.targets[0].id
                    uses_tokens = any(isinstance(c, ast.Call) and isinstance(c.func, ast.Attribute) and c.func.attr in ("get_tokens", "get_tokens_unprocessed") and norm(c.func.value) == var for c in ast.walk(f.node))
                    uses_tokens = uses_tokens or any(isinstance(r_, ast.Return) and r_.value is not None and norm(r_.value) == var for r_ in walk_local(f.node))
                    if not uses_tokens:
                        continue
                    n += 1
                    kw = kwarg(x.value, "stripnl")
                    ok = kw is not None and isinstance(kw, ast.Constant) and kw.value is False
                    sa = kwarg(x.value, "stripall")
                    ok = ok and not (sa is not None and isinstance(sa, ast.Constant) and sa.value is True)
                    ctx.check(ok, f.fq, short(x), f"{m.relpath}:{x.lineno}", "lexer created with stripnl=False",
                              f"`{short(x.value)}` uses Pygments' default stripnl=True: leading blank lines of the source are dropped before tokenising, so every displayed line number (and the line a traceback frame points at) is shifted")
    # a lexer handed out by a helper (`return get_lexer_by_name(..)` / `return guess_lexer(code)`) is used by its caller for tokens
    for ms in ("syntax", "traceback", "markdown"):
        m = ctx.repo.mod(ms)
        for f in m.functions.values():
            if m.in_main_guard(f.node):
                continue
            for r_ in walk_local(f.node):
                if isinstance(r_, ast.Return) and isinstance(r_.value, ast.Call) and call_name(r_.value) in ("get_lexer_by_name", "get_lexer_for_filename", "guess_lexer_for_filename", "guess_lexer"):
                    n += 1
                    kw = kwarg(r_.value, "stripnl")
                    ok = kw is not None and isinstance(kw, ast.Constant) and kw.value is False
                    ctx.check(ok, f.fq, short(r_), f"{m.relpath}:{r_.lineno}", "returned lexer created with stripnl=False",
                              f"`{short(r_.value)}` hands out a lexer with Pygments' default stripnl=True: leading blank lines of the source are dropped before tokenising, so every displayed line number is shifted")
    ctx.floor(n, 1, "lexers whose tokens are displayed")


def _range_generators(ctx):
    """(tokens_to_spans, line_tokenize) by role, wherever they live and whatever they are called: the generator whose result is handed
    to text.append_tokens(..) on the ranged path of Syntax.highlight, and the generator it draws its tokens from"""
    f = ctx.repo.fn("syntax:Syntax.highlight")
    m = f.module

    def lookup(name):
        return m.functions.get(f"Syntax.highlight.<locals>.{name}") or m.functions.get(f"Syntax.{name}") or m.functions.get(name)

    def callee_name(c):
        if isinstance(c, ast.Call):
            if isinstance(c.func, ast.Name):
                return c.func.id
            if isinstance(c.func, ast.Attribute) and isinstance(c.func.value, ast.Name) and c.func.value.id in ("self", "cls", "Syntax"):
                return c.func.attr
        return None
    cands = []
    for c in ast.walk(f.node):
        if isinstance(c, ast.Call) and isinstance(c.func, ast.Attribute) and c.func.attr == "append_tokens" and len(c.args) == 1:
            cand = lookup(callee_name(c.args[0]) or "")
            if cand is not None and cand.is_generator and cand not in cands:
                cands.append(cand)
    if not cands:
        raise AnchorVanished("Syntax.highlight: no generator is handed to text.append_tokens on the ranged path (tokens_to_spans not found)")
    ts = lt = None
    for cand_ts in cands:
        for c in ast.walk(cand_ts.node):
            if isinstance(c, ast.Call):
                cand = lookup(callee_name(c) or "")
                if cand is not None and cand is not cand_ts and cand.is_generator:
                    ts, lt = cand_ts, cand
    if lt is None:
        raise AnchorVanished(f"{cands[-1].fq}: the generator that splits tokens per line (line_tokenize) was not found")
    return ts, lt


def r17_2(ctx):
    ctx.rule("R17.2", "range clipping: skipping to the first requested line cannot fail when the range starts beyond the code - no bare next() in the generator functions of syntax.py / traceback.py (PEP 479)")
    from .c14 import r14_2
    # reuse the PEP 479 scan, restricted report to syntax/traceback
    n = 0
    for ms in ("syntax", "traceback"):
        m = ctx.repo.mod(ms)
        for f in m.functions.values():
            if not f.is_generator:
                continue
            for x in walk_local(f.node):
                if isinstance(x, ast.Call) and isinstance(x.func, ast.Name) and x.func.id == "next" and len(x.args) == 1:
                    n += 1
                    ok = False
                    cur = m.parent_of.get(x)
                    prev = x
                    while cur is not None and cur is not f.node:
                        if isinstance(cur, ast.Try) and any(prev is s or prev in list(ast.walk(s)) for s in cur.body):
                            for h in cur.handlers:
                                t = norm(h.type) if h.type is not None else "BaseException"
                                if t in ("StopIteration", "Exception", "BaseException"):
                                    ok = True
                        if isinstance(cur, ast.With) and any("suppress" in norm(i.context_expr) and "StopIteration" in norm(i.context_expr) for i in cur.items):
                            ok = True
                        prev = cur
                        cur = m.parent_of.get(cur)
                    ctx.check(ok, f.fq, short(x), f"{m.relpath}:{x.lineno}", "next() protected against exhaustion",
                              f"bare `{short(x)}` in generator {f.qualname}: a line_range that starts beyond the last line exhausts the token iterator and the render fails with RuntimeError instead of showing the lines that exist")
    if n == 0:
        ctx.ok("rich/syntax.py", "no bare next() in generators of syntax.py / traceback.py")
    # skipped tokens are still emitted (so that line k of the Text is line k of the source)
    f, _lt = _range_generators(ctx)
    # every token taken from the `tokens` iterator - by `.. , T = next(tokens)` in a while loop or by `for .., T in tokens`
    # - is yielded exactly once, unconditionally, in the iteration that consumed it
    sites = []
    lt_name = _lt.qualname.split(".")[-1]

    def is_source_call(e):
        return isinstance(e, ast.Call) and (norm(e.func) == lt_name or norm(e.func).endswith("." + lt_name))
    # names bound to the token stream: tokens = iter(line_tokenize()) / tokens = line_tokenize()
    stream_names = set()
    for x in walk_local(f.node):
        if isinstance(x, ast.Assign) and len(x.targets) == 1 and isinstance(x.targets[0], ast.Name):
            v = x.value
            if isinstance(v, ast.Call) and norm(v.func) == "iter" and len(v.args) == 1:
                v = v.args[0]
            if is_source_call(v):
                stream_names.add(x.targets[0].id)

    def is_stream(e):
        return (isinstance(e, ast.Name) and e.id in stream_names) or is_source_call(e)
    for lp in walk_local(f.node):
        if isinstance(lp, ast.For) and is_stream(lp.iter) and isinstance(lp.target, ast.Tuple) and len(lp.target.elts) == 2:
            sites.append((lp, norm(lp.target.elts[1])))
        if isinstance(lp, ast.While):
            for x in ast.walk(lp):
                if isinstance(x, ast.Assign) and isinstance(x.targets[0], ast.Tuple) and len(x.targets[0].elts) == 2 and isinstance(x.value, ast.Call) and norm(x.value.func) == "next" and x.value.args and is_stream(x.value.args[0]):
                    sites.append((lp, norm(x.targets[0].elts[1])))
    # every place that draws from the stream is one of those sites (a next() outside a loop, a second consumer, would take tokens
    # that no yield accounts for)
    draws = [x for x in walk_local(f.node) if (isinstance(x, ast.For) and is_stream(x.iter)) or (isinstance(x, ast.Call) and norm(x.func) == "next" and x.args and is_stream(x.args[0]))]
    ok = len(sites) >= 1 and len(draws) == len(sites)
    for lp, tv in sites:
        top = [b for b in lp.body if isinstance(b, ast.Expr) and isinstance(b.value, ast.Yield) and isinstance(b.value.value, ast.Tuple) and norm(b.value.value.elts[0]) == tv]
        allys = [y for b in lp.body for y in ast.walk(b) if isinstance(y, ast.Yield)]
        if len(top) != 1 or len(allys) != 1:
            ok = False
        else:
            # nothing before the yield can leave the iteration without it
            k = lp.body.index(top[0])
            if any(isinstance(y, (ast.Continue, ast.Break, ast.Return)) for b in lp.body[:k] for y in ast.walk(b)) and not isinstance(lp, ast.While):
                ok = False
    ctx.check(ok, f.fq, "skip loop yields (token, None)", f.where, "tokens before the range are still appended (unstyled): Text line k stays source line k",
              "tokens before the requested range are no longer appended to the Text: the line slicing in __rich_console__ (lines[line_offset:end_line]) and the unknown-lexer fallback (whole code) then disagree about which source line is line k")


def r17_3(ctx):
    ctx.rule("R17.3", "numbering agrees with slicing: the first displayed number is start_line + line_offset where line_offset is the very value that slices `lines`; line_offset = max(0, range_start - 1); the slice end is the range end; the gutter width derives from start_line + number of newlines")
    from .common import splice_generator_helpers
    f = splice_generator_helpers(ctx.repo.fn("syntax:Syntax.__rich_console__"))
    m = f.module
    from ..astutil import inline as _inl173, single_defs as _sdf173
    sd173 = _sdf173(f.node)

    def full173(e):
        return norm(_inl173(e, sd173))
    # the range is unpacked into (first, last); names are read off the code
    unpacks = [x for x in walk_local(f.node) if isinstance(x, ast.Assign) and isinstance(x.targets[0], ast.Tuple) and len(x.targets[0].elts) == 2 and full173(x.value) == "self.line_range"]
    if not unpacks:
        raise AnalysisError("Syntax.__rich_console__: `first, last = self.line_range` not found; the range handling is written in a form this rule does not read")
    rs_name, re_name = (norm(e) for e in unpacks[0].targets[0].elts)
    ctx.ok(f.where, "range unpacked as (start, end)", f.fq)
    off_defs = [x for x in walk_local(f.node) if isinstance(x, ast.Assign) and norm(x.targets[0]) == "line_offset"]
    if not off_defs:
        raise AnalysisError("Syntax.__rich_console__: no `line_offset` variable; the numbering clause is not decided for this form")
    ok = any(norm(x.value) in (f"max(0, {rs_name} - 1)", f"max({rs_name} - 1, 0)") for x in off_defs) and any(norm(x.value) == "0" for x in off_defs)
    ctx.check(ok, f.fq, "line_offset = max(0, start_line - 1)", f.where, "offset of the first displayed line derived from the range start (1-based), 0 without a range", "line_offset is not `max(0, range_start - 1)` / 0")
    # the list that is numbered, and the one slice that selects the range from the split of the highlighted text
    enums = [x for x in walk_local(f.node) if isinstance(x, ast.For) and isinstance(x.iter, ast.Call) and call_name(x.iter) == "enumerate" and len(x.iter.args) == 2 and isinstance(x.iter.args[0], ast.Name)]
    first_override = None
    if not enums:
        # form B:  for i, line in enumerate(lines):  n = <first> + i   - the displayed number is <first> + index
        for x in walk_local(f.node):
            if isinstance(x, ast.For) and isinstance(x.iter, ast.Call) and call_name(x.iter) == "enumerate" and len(x.iter.args) == 1 and isinstance(x.iter.args[0], ast.Name) and isinstance(x.target, ast.Tuple) and len(x.target.elts) == 2 and isinstance(x.target.elts[0], ast.Name):
                idx_ = x.target.elts[0].id
                for b_ in x.body:
                    if isinstance(b_, ast.Assign) and len(b_.targets) == 1 and isinstance(b_.targets[0], ast.Name):
                        fm = lin(_inl173(b_.value, {k_: v_ for k_, v_ in sd173.items() if k_ not in ("line_offset", idx_)}))
                        if fm.get(idx_) == 1:
                            rest = {k_: v_ for k_, v_ in fm.items() if k_ != idx_ and v_}
                            first_override = rest
                            enums = [x]
                            break
    if len(enums) != 1:
        raise AnalysisError("Syntax.__rich_console__: the numbering loop `for n, line in enumerate(<lines>, <first>)` was not found")
    lines_v = enums[0].iter.args[0].id

    def _is_split(e):
        return isinstance(e, ast.Call) and isinstance(e.func, ast.Attribute) and e.func.attr == "split" and e.args and isinstance(e.args[0], ast.Constant) and e.args[0].value == "\n"
    slices = [x for x in walk_local(f.node) if isinstance(x, ast.Assign) and isinstance(x.value, ast.Subscript) and isinstance(x.value.slice, ast.Slice) and norm(x.targets[0]) == lines_v
              and (norm(x.value.value) == lines_v or _is_split(x.value.value))]
    if len(slices) != 1:
        raise AnalysisError(f"Syntax.__rich_console__: {len(slices)} range slices of `{lines_v}` found (expected exactly one); not decided")
    ctx.ok(f.where, "one range slice of the line list", f.fq)
    if slices and enums:
        sl = slices[0].value.slice
        start = enums[0].iter.args[1] if len(enums[0].iter.args) > 1 else ast.Constant(value=0)
        start = _inl173(start, {k_: v_ for k_, v_ in sd173.items() if k_ != "line_offset"})
        lo = norm(sl.lower) if sl.lower is not None else "0"
        form = lin(start) if first_override is None else first_override
        if first_override is not None:
            start = ast.parse(" + ".join(f"{k_}" for k_ in first_override) or "0", mode="eval").body
        ok = form.get("self.start_line") == 1 and form.get(lo) == 1 and len([k for k in form if form[k]]) == 2 if lo != "0" else False
        ctx.check(ok, f.fq, f"lines[{lo}:...] / enumerate(lines, {norm(start)})", f"{m.relpath}:{enums[0].lineno}", f"first number = self.start_line + {lo}, the slice's own lower bound",
                  f"the lines are sliced from `{lo}` but numbered from `{norm(start)}`: the number shown next to a line is not that line's number in the source")
        ctx.check(sl.upper is not None and norm(sl.upper) == re_name, f.fq, f"lines[{lo}:{norm(sl.upper) if sl.upper is not None else ''}]", f"{m.relpath}:{slices[0].lineno}", "slice ends at the range end (clipped by list slicing)", "the range slice does not end at end_line")
        par = m.parent_of.get(slices[0])
        ctx.check(isinstance(par, ast.If) and full173(par.test) == "self.line_range", f.fq, "if self.line_range", f"{m.relpath}:{slices[0].lineno}", "slicing only when a range was requested", "line slicing is not guarded by `if self.line_range`")
    # highlight marker compares the displayed number
    ctx.shape("highlight_line(line_no)" in norm(f.node) and "highlight_line = self.highlight_lines.__contains__" in norm(f.node), f.fq, "highlight_line(line_no)", f.where, "the failing-line marker is chosen by the displayed line number", "the highlight marker is not selected by the displayed line number")
    # the gutter text is built from the displayed number: str(<number variable>) occurs in the loop (the number variable is the
    # enumerate target, or the `first + index` local of form B)
    numvar = None
    if enums:
        lp173 = enums[0]
        if len(lp173.iter.args) == 2 and isinstance(lp173.target, ast.Tuple) and isinstance(lp173.target.elts[0], ast.Name):
            numvar = lp173.target.elts[0].id
        elif first_override is not None:
            idx173 = lp173.target.elts[0].id
            for b_ in lp173.body:
                if isinstance(b_, ast.Assign) and len(b_.targets) == 1 and isinstance(b_.targets[0], ast.Name) and any(isinstance(y, ast.Name) and y.id == idx173 for y in ast.walk(b_.value)):
                    numvar = b_.targets[0].id
                    break
    shown = numvar is not None and any(isinstance(c, ast.Call) and norm(c.func) == "str" and len(c.args) == 1 and norm(c.args[0]) == numvar for c in ast.walk(enums[0]))
    ctx.shape(shown, f.fq, f"str({numvar})", f.where, "the gutter shows the displayed line number", "the gutter text is not built from str(<line number>)")
    w = ctx.repo.cls("syntax:Syntax").method("_numbers_column_width")
    from ..yieldpaths import Unsupported, paths_of, resolve
    try:
        WP = [resolve(p_) for p_ in paths_of(w.node)]
    except Unsupported as u:
        raise AnalysisError(f"Syntax._numbers_column_width: statement outside the path normal form ({u})")
    okw = bool(WP)
    for p_ in WP:
        rets = [e for e in p_ if e[0] == "return"]
        facts = {e[1]: e[2] for e in p_ if e[0] == "cond"}
        if len(rets) != 1:
            okw = False
        elif facts.get("self.line_numbers") is True:
            okw = okw and rets[0][1] == "len(str(self.start_line + self.code.count('\\n'))) + 2"
        elif facts.get("self.line_numbers") is False:
            okw = okw and rets[0][1] == "0"
        else:
            okw = False
    ctx.check(okw, w.fq, "gutter width", w.where, "gutter wide enough for the largest line number", "gutter width is no longer derived from start_line + number of newlines")
    # text -> lines: split on newline of the highlighted text, after removing one trailing newline
    hl_vars = {norm(x.targets[0]) for x in walk_local(f.node) if isinstance(x, ast.Assign) and isinstance(x.value, ast.Call) and norm(x.value.func) == "self.highlight" and len(x.value.args) == 2 and full173(x.value.args[1]) == "self.line_range"}
    split_ok = any(isinstance(x, ast.Call) and isinstance(x.func, ast.Attribute) and x.func.attr == "split" and norm(x.func.value) in hl_vars
                   and len(x.args) == 1 and isinstance(x.args[0], ast.Constant) and x.args[0].value == "\n" and all(k.arg == "allow_blank" for k in x.keywords)
                   for x in walk_local(f.node))
    ctx.check(bool(hl_vars) and split_ok, f.fq, "lines = text.split('\\n')", f.where, "display lines are the newline-split of the highlighted code", "display lines are not the newline split of the highlighted text")


def r17_4(ctx):
    ctx.rule("R17.4", "tokens verbatim (highlighting never changes characters): token text flows unmodified from lexer.get_tokens(code) into Text.append_tokens on both paths; the per-line splitter re-concatenates partition pieces in order; the unknown-lexer fallback appends the code itself")
    f = ctx.repo.fn("syntax:Syntax.highlight")
    m = f.module
    src = norm(f.node)
    # non-ranged path
    ok = False
    for x in ast.walk(f.node):
        if isinstance(x, ast.GeneratorExp) and isinstance(x.elt, ast.Tuple) and "lexer.get_tokens(code)" in norm(x.generators[0].iter):
            tv = [norm(t) for t in x.generators[0].target.elts]
            ok = norm(x.elt.elts[0]) == tv[1] and not x.generators[0].ifs
    if not ok:
        # nested generator form:  def g(): for token_type, token in lexer.get_tokens(code): yield (token, style)
        for x in ast.walk(f.node):
            if isinstance(x, ast.For) and "lexer.get_tokens(code)" in norm(x.iter) and isinstance(x.target, ast.Tuple) and len(x.target.elts) == 2 and len(x.body) == 1 and isinstance(x.body[0], ast.Expr) and isinstance(x.body[0].value, ast.Yield) and isinstance(x.body[0].value.value, ast.Tuple):
                enc = f.module.parent_of.get(x)
                if isinstance(enc, ast.FunctionDef) and enc.name not in ("line_tokenize", "_line_tokenize") and norm(x.body[0].value.value.elts[0]) == norm(x.target.elts[1]):
                    ok = True
    ctx.check(ok, f.fq, "(token, style) for token_type, token in lexer.get_tokens(code)", f.where, "whole-code path appends every token text unchanged", "the whole-code path does not append each token's text unchanged (tokens filtered or transformed)")
    ts, lt = _range_generators(ctx)
    s2 = norm(lt.node)
    ok = "line_token, new_line, token = token.partition('\\n')" in s2 and "yield (token_type, line_token + new_line)" in s2 and "lexer.get_tokens(code)" in s2 and "while token:" in s2
    if not ok and "lexer.get_tokens(code)" in s2:
        # split form: *pieces, last = token.split("\n"); every piece + "\n" in order, then the non-empty remainder
        for x in walk_local(lt.node):
            if isinstance(x, ast.Assign) and isinstance(x.targets[0], (ast.Tuple, ast.List)) and len(x.targets[0].elts) == 2 and isinstance(x.targets[0].elts[0], ast.Starred) and norm(x.value) == "token.split('\\n')":
                pieces, last = norm(x.targets[0].elts[0].value), norm(x.targets[0].elts[1])
                blk = f.module.parent_of.get(x)
                body = getattr(blk, "body", [])
                i = body.index(x) if x in body else -1
                rest = body[i + 1:] if i >= 0 else []
                ok = (len(rest) == 2 and isinstance(rest[0], ast.For) and norm(rest[0].iter) == pieces and len(rest[0].body) == 1 and norm(rest[0].body[0]) == f"yield (token_type, {norm(rest[0].target)} + '\\n')"
                      and isinstance(rest[1], ast.If) and norm(rest[1].test) == last and len(rest[1].body) == 1 and norm(rest[1].body[0]) == f"yield (token_type, {last})" and not rest[1].orelse)
    ctx.check(ok, lt.fq, "partition pieces", lt.where, "per-line splitter yields line_token + new_line until the token is consumed", "line_tokenize no longer re-emits every partition piece (line + newline) in order")
    ys = [y for y in walk_local(ts.node) if isinstance(y, ast.Yield)]
    ok = bool(ys) and all(isinstance(y.value, ast.Tuple) and norm(y.value.elts[0]) == "token" for y in ys)
    ctx.check(ok, ts.fq, "yield (token, ...)", ts.where, "ranged path yields token text unchanged", "tokens_to_spans yields something other than the token text")
    ctx.ok(f.where, f"ranged tokens go from {ts.qualname} straight into text.append_tokens", f.fq)
    # fallback
    ok = False
    for x in walk_local(f.node):
        if isinstance(x, ast.Try):
            for h in x.handlers:
                if h.type is not None and "ClassNotFound" in norm(h.type):
                    ok = any(norm(b) == "text.append(code)" for b in h.body)
    ctx.check(ok, f.fq, "except ClassNotFound: text.append(code)", f.where, "unknown lexer falls back to the plain code", "the unknown-lexer fallback does not append the code itself")
    # __rich_console__ feeds highlight with the (dedented, tab-expanded) code only
    rc = ctx.repo.fn("syntax:Syntax.__rich_console__")
    # decided on the path normal form: on every path the argument of self.highlight(..) is  <code>.expandtabs(self.tab_size)  with
    # <code> = self.code or textwrap.dedent(self.code)
    from ..yieldpaths import Enumerator, Unsupported, resolve
    try:
        rpaths = [resolve(pp) for pp in Enumerator(rc.node).run()]
    except Unsupported as u:
        raise AnalysisError(f"Syntax.__rich_console__: {u}")
    seen_args = {}
    for path in rpaths:
        for ev in path:
            for txt in ev[1:]:
                if not isinstance(txt, str) or "self.highlight(" not in txt:
                    continue
                try:
                    e = ast.parse(txt, mode="eval").body
                except SyntaxError:
                    continue
                for c in ast.walk(e):
                    if isinstance(c, ast.Call) and norm(c.func) == "self.highlight" and c.args:
                        seen_args.setdefault(norm(c.args[0]), c.args[0])
    if not seen_args:
        raise AnalysisError("Syntax.__rich_console__: no call of self.highlight(..) found on any path")
    raw = ("self.code", "textwrap.dedent(self.code)", "dedent(self.code)")
    for txt, a in sorted(seen_args.items()):
        if isinstance(a, ast.Call) and isinstance(a.func, ast.Attribute) and a.func.attr == "expandtabs" and norm(a.func.value) in raw:
            if len(a.args) == 1 and norm(a.args[0]) == "self.tab_size":
                ctx.ok(rc.where, f"highlight() receives `{txt}`", rc.fq)
            else:
                ctx.violation(rc.fq, f"self.highlight({txt}, ..)", rc.where, f"tabs are expanded with `{norm(a)[-40:]}` instead of the Syntax's tab_size: the rendered lines do not show the source with tabs expanded to tab_size")
        elif txt in raw:
            ctx.violation(rc.fq, f"self.highlight({txt}, ..)", rc.where, f"on some path the code reaches highlight() as `{txt}`, without expandtabs(self.tab_size): raw tab characters are rendered (with line numbers) or expanded to the console's tab size of 8 - in every Traceback, which uses dedent=False")
        else:
            raise AnalysisError(f"Syntax.__rich_console__: highlight() receives `{txt}`; cannot tell whether that is the code with only dedent and tab expansion applied")


def r17_5(ctx):
    ctx.rule("R17.5", "traceback frames: each frame's Syntax gets the whole file text with default start_line, line_range = lineno +/- extra_lines and highlight_lines = {lineno} built from the same frame.lineno, dedent off; source text is not cached across renders")
    f = ctx.repo.fn("traceback:Traceback._render_stack")
    m = f.module
    calls = [c for c in walk_local(f.node) if isinstance(c, ast.Call) and call_name(c) == "Syntax"]
    ctx.check(len(calls) == 1, f.fq, "Syntax(...)", f.where, "one Syntax per frame", f"{len(calls)} Syntax constructions in _render_stack")
    if calls:
        c = calls[0]
        where = f"{m.relpath}:{c.lineno}"
        from ..astutil import inline as _inl, single_defs as _sdf
        _sd = {k: v for k, v in _sdf(f.node).items() if not isinstance(v, ast.Call)}  # temporaries (frame.lineno, bounds), not calls
        lr = kwarg(c, "line_range")
        hl = kwarg(c, "highlight_lines")
        lr = _inl(lr, _sd) if lr is not None else None
        hl = _inl(hl, _sd) if hl is not None else None
        ok = isinstance(lr, ast.Tuple) and len(lr.elts) == 2 and norm(lr.elts[0]) == "frame.lineno - self.extra_lines" and norm(lr.elts[1]) == "frame.lineno + self.extra_lines"
        ctx.check(ok, f.fq, f"line_range={norm(lr) if lr is not None else None}", where, "range centred on the frame's line", "line_range is not (frame.lineno - extra_lines, frame.lineno + extra_lines)")
        ok = isinstance(hl, ast.Set) and len(hl.elts) == 1 and norm(hl.elts[0]) == "frame.lineno"
        ctx.check(ok, f.fq, f"highlight_lines={norm(hl) if hl is not None else None}", where, "the failing line marked is frame.lineno", "highlight_lines is not {frame.lineno}: the marker points at a different line than the frame's")
        ctx.check(kwarg(c, "start_line") is None, f.fq, "start_line default", where, "whole file numbered from 1", "a start_line is passed although the whole file text is given: numbers no longer match the file")
        ln = kwarg(c, "line_numbers")
        ctx.check(ln is not None and norm(ln) == "True", f.fq, "line_numbers=True", where, "line numbers on (range selection applies)", "line_numbers is not True: the line_range is ignored")
        dd = kwarg(c, "dedent")
        ctx.check(dd is not None and norm(dd) == "False", f.fq, "dedent=False", where, "code passed as in the file", "dedent is not disabled for traceback code")
        code_arg = c.args[0] if c.args else kwarg(c, "code")
        okc = code_arg is not None and isinstance(code_arg, ast.Name)
        if okc:
            okc = any(isinstance(x, ast.Assign) and norm(x.targets[0]) == code_arg.id and "read_code(frame.filename)" in norm(_inl(x.value, _sd)) for x in walk_local(f.node))
        ctx.check(okc, f.fq, "code = read_code(frame.filename)", where, "Syntax receives the text of the frame's own file", "the code given to Syntax is not read from frame.filename")
    memo_rule(ctx, "R17.6", ["traceback", "syntax"], 1)


def r17_7(ctx):
    ctx.rule("R17.7", "indent guides never change the code's characters: with_indent_guides recognises indentation with a regex whose indent group matches ASCII spaces only, and overwrites exactly len(new_indent) == len(indent) leading characters")
    from .. import regexast
    f = ctx.repo.fn("text:Text.with_indent_guides")
    m = f.module
    rx = None
    for x in walk_local(f.node):
        if isinstance(x, ast.Assign) and norm(x.targets[0]) == "re_indent":
            rx = regexast.compile_call(x.value)
    if rx is None:
        # the pattern compiled once at module level and matched here:  _RE = re.compile(..);  _RE.match(line.plain)
        for c in walk_local(f.node):
            if isinstance(c, ast.Call) and isinstance(c.func, ast.Attribute) and c.func.attr in ("match", "fullmatch") and isinstance(c.func.value, ast.Name):
                try:
                    gv = m.global_assign(c.func.value.id)
                except Exception:
                    gv = None
                if gv is not None and regexast.compile_call(gv) is not None:
                    rx = regexast.compile_call(gv)
    strips = [c for c in walk_local(f.node) if isinstance(c, ast.Call) and isinstance(c.func, ast.Attribute) and c.func.attr in ("lstrip", "strip") and not c.args]
    for c in strips:
        ctx.violation(f.fq, short(c), f"{m.relpath}:{c.lineno}", f"`{short(c)}` treats every Unicode whitespace character as indentation: leading U+3000 / U+00A0 etc. are overwritten by guide characters and ASCII spaces, i.e. the displayed code differs from the source")
    if rx is None:
        if not strips:
            raise AnchorVanished("with_indent_guides: indentation regex not found")
        return
    sp = regexast.parse_call(rx)
    g1 = regexast.group_subpattern(sp, 1)
    cs = regexast.chars_of(g1) if g1 is not None else None
    ctx.check(cs == {("lit", " ")}, f.fq, rx.args[0].value, f"{m.relpath}:{rx.lineno}", "indentation = ASCII spaces only", f"the indentation group of `{rx.args[0].value}` matches {cs}: characters other than ASCII spaces would be replaced by guides")
    src = norm(f.node)
    ok = "full_indents, remaining_space = divmod(len(indent), _indent_size)" in src and "new_indent = f\"{indent_line * full_indents}{' ' * remaining_space}\"" in src.replace("'", "'") or "line.plain = new_indent + line.plain[len(new_indent):]" in src
    from ..astutil import inline as _inl177, single_defs as _sdf177
    sd177 = _sdf177(f.node)
    stores = [x for x in walk_local(f.node) if isinstance(x, ast.Assign) and len(x.targets) == 1 and isinstance(x.targets[0], ast.Attribute) and x.targets[0].attr == "plain"]
    okst = False
    for x in stores:
        v = x.value
        old_ = norm(x.targets[0])
        # a temporary holding the old text (`plain = line.plain`, read before the store) stands for it
        v = _inl177(v, {k_: v_ for k_, v_ in sd177.items() if norm(v_) == old_})
        if isinstance(v, ast.BinOp) and isinstance(v.op, ast.Add) and isinstance(v.right, ast.Subscript) and norm(v.right.value) == old_ and isinstance(v.right.slice, ast.Slice) and v.right.slice.upper is None and v.right.slice.lower is not None:
            lo_ = norm(_inl177(v.right.slice.lower, {k_: v_ for k_, v_ in sd177.items() if k_ != norm(v.left)}))
            if lo_ == f"len({norm(v.left)})":
                okst = True
            else:
                ctx.violation(f.fq, short(x), f"{m.relpath}:{x.lineno}", f"`{short(x)}` replaces `{lo_}` leading characters by a prefix of another length: characters of the code are dropped or duplicated")
                okst = None
    if okst is False:
        raise AnalysisError("Text.with_indent_guides: the store `line.plain = <guides> + line.plain[len(<guides>):]` was not found; written differently, this clause is not decided")
    if okst:
        ctx.ok(f.where, "exactly the leading len(new_indent) characters are replaced", f.fq)
    # the guide prefix is as long as the indentation: quotient and remainder of len(<indentation group>) by the indent size
    dm_ok = False
    for c in walk_local(f.node):
        if isinstance(c, ast.Call) and norm(c.func) == "divmod" and len(c.args) == 2 and isinstance(c.args[0], ast.Call) and norm(c.args[0].func) == "len" and len(c.args[0].args) == 1:
            what = norm(_inl177(c.args[0].args[0], sd177))
            if what.endswith(".group(1)") or what.endswith("[1]"):
                dm_ok = True
    ctx.shape(dm_ok, f.fq, "divmod(len(indent), _indent_size)", f.where, "the guide prefix is as long as the indentation", "the guide prefix is not built from divmod(len(indent), indent_size)")
    ctx.shape("indent_line = f\"{character}{' ' * (_indent_size - 1)}\"" in src or "indent_line" in src, f.fq, "indent_line", f.where, "one guide character plus spaces per indent level", "indent_line is no longer one guide character plus spaces")


def r17_8(ctx):
    ctx.rule("R17.8", "the line reported for a traceback frame is the line that was executing when the exception passed through it: in Traceback.extract the Frame's lineno is the line number yielded by traceback.walk_tb (tb_lineno) for that frame - not the frame object's current f_lineno (which has moved on to a finally / except clause) - and the filename comes from that same frame's code object")
    f = ctx.repo.fn("traceback:Traceback.extract")
    m = f.module
    loops = [x for x in walk_local(f.node) if isinstance(x, ast.For) and isinstance(x.iter, ast.Call) and norm(x.iter.func).endswith("walk_tb") and isinstance(x.target, ast.Tuple) and len(x.target.elts) == 2]
    if len(loops) != 1:
        raise AnchorVanished("Traceback.extract: loop `for frame, line_no in walk_tb(traceback)` not found")
    lp = loops[0]
    fr, ln = (norm(e) for e in lp.target.elts)
    frames = [c for c in ast.walk(lp) if isinstance(c, ast.Call) and norm(c.func) == "Frame"]
    ctx.floor(len(frames), 1, "Frame(...) constructions in the walk_tb loop")
    from ..astutil import inline as _inl, single_defs as _sdf
    sd = {k: v for k, v in _sdf(f.node).items() if k not in (fr, ln)}
    for c in frames:
        lv = kwarg(c, "lineno")
        ok = lv is not None and norm(_inl(lv, sd)) == ln
        ctx.check(ok, f.fq, short(c), f"{m.relpath}:{c.lineno}", f"Frame.lineno is `{ln}`, the line walk_tb reports for this frame",
                  f"Frame(lineno={norm(lv) if lv is not None else None}): not the line number yielded by walk_tb for this frame - for a frame that has moved on (finally block, re-raise in an except clause) the header, the code window and the marker point at the wrong line")
        fn_ = kwarg(c, "filename")
        # the names the filename is computed from, closed over the assignments in the loop body, lead back to this frame's code object
        seen, work, roots = set(), [fn_] if fn_ is not None else [], []
        while work:
            e = work.pop()
            for nd in ast.walk(e):
                if isinstance(nd, ast.Attribute) and norm(nd) == f"{fr}.f_code.co_filename":
                    roots.append(nd)
                if isinstance(nd, ast.Attribute) and nd.attr == "co_filename" and isinstance(nd.value, ast.Name):
                    # code = frame.f_code; code.co_filename
                    cdefs = [a.value for a in ast.walk(lp) if isinstance(a, ast.Assign) and any(isinstance(t, ast.Name) and t.id == nd.value.id for t in a.targets)]
                    if len(cdefs) == 1 and norm(cdefs[0]) == f"{fr}.f_code":
                        roots.append(nd)
                if isinstance(nd, ast.Name) and nd.id not in seen:
                    seen.add(nd.id)
                    for a in ast.walk(lp):
                        if isinstance(a, ast.Assign) and any(isinstance(t, ast.Name) and t.id == nd.id for t in a.targets):
                            work.append(a.value)
        ok = bool(roots)
        ctx.check(ok, f.fq, f"filename={norm(fn_) if fn_ is not None else None}", f"{m.relpath}:{c.lineno}", "the file is that of the same frame's code object", "Frame.filename is not taken from the walked frame's code object")
    # a relative file name means "relative to the directory the program was started in" (where the import happened and the code
    # object got its name): it is anchored at rich._IMPORT_CWD, never at the working directory at report time
    cwd_calls = [c for c in ast.walk(lp) if isinstance(c, ast.Call) and norm(c.func) in ("os.path.abspath", "os.path.realpath", "os.getcwd", "Path.cwd", "os.path.relpath", "abspath", "realpath", "getcwd")
                 or (isinstance(c, ast.Call) and isinstance(c.func, ast.Attribute) and c.func.attr in ("resolve", "absolute"))]
    for c in cwd_calls:
        ctx.violation(f.fq, short(c), f"{m.relpath}:{c.lineno}", f"`{short(c)}` resolves the frame's file name against the CURRENT working directory: after an os.chdir() between start-up and the report a relative co_filename points at a file that is not there (or at another one) and the frame shows an error instead of its source line")
    joins = [c for c in ast.walk(lp) if isinstance(c, ast.Call) and norm(c.func) in ("os.path.join", "join") and c.args and norm(c.args[0]).endswith("_IMPORT_CWD")]
    if not cwd_calls:
        ctx.check(bool(joins), f.fq, "os.path.join(_IMPORT_CWD, filename)", f"{m.relpath}:{lp.lineno}", "relative file names are anchored at the start directory",
                  "a relative co_filename is no longer joined with rich._IMPORT_CWD: it is read relative to whatever the working directory is when the traceback is rendered")


def r17_9(ctx):
    ctx.rule("R17.9", "a line range that ends on a blank line keeps that line: Syntax.highlight stops after the newline of the last selected line, so after remove_suffix('\\n') the text of a range whose last line is blank still ends with a separator; the split whose result is sliced by the range in Syntax.__rich_console__ must therefore keep a trailing blank line (allow_blank) whenever a range is in force - Text.split drops it by default and the range (1, 3) of 'a\\nb\\n\\nc' would show two lines")
    f = ctx.repo.fn("syntax:Syntax.__rich_console__")
    m = f.module
    from ..astutil import inline as _inl, single_defs as _sdf
    # the slice by the range:  lines = lines[<offset>:<end>]  and the split that defines `lines`
    slices = [x for x in walk_local(f.node) if isinstance(x, ast.Assign) and isinstance(x.value, ast.Subscript) and isinstance(x.value.slice, ast.Slice) and x.value.slice.upper is not None and "end" in norm(x.value.slice.upper)]
    if len(slices) != 1:
        raise AnalysisError("Syntax.__rich_console__: the slice of the lines by the range (`lines[offset:end_line]`) was not found")
    base_ = slices[0].value.value
    if isinstance(base_, ast.Call) and isinstance(base_.func, ast.Attribute) and base_.func.attr == "split":
        # split and slice in one expression
        class _S:
            pass
        sp = _S()
        sp.value, sp.lineno = base_, slices[0].lineno
        sp_short = short(slices[0])
    elif isinstance(base_, ast.Name):
        var = base_.id
        splits = [x for x in walk_local(f.node) if isinstance(x, ast.Assign) and norm(x.targets[0]) == var and isinstance(x.value, ast.Call) and isinstance(x.value.func, ast.Attribute) and x.value.func.attr == "split" and x.lineno <= slices[0].lineno]
        if len(splits) != 1:
            raise AnalysisError(f"Syntax.__rich_console__: expected one `{var} = <text>.split(...)` before the range slice")
        sp = splits[0]
        sp_short = short(sp)
    else:
        raise AnalysisError("Syntax.__rich_console__: the range slice is taken of something this rule does not read")
    # premise: the text is stripped of exactly one trailing newline before the split
    # exactly ONE: highlight() ends the ranged text right after its last selected line, so further new lines at its end are blank
    # lines of the range; a strip of every trailing new line (str.rstrip / Text.rstrip on the highlighted text) removes them
    hl_names = {x.targets[0].id for x in walk_local(f.node) if isinstance(x, ast.Assign) and len(x.targets) == 1 and isinstance(x.targets[0], ast.Name) and isinstance(x.value, ast.Call) and norm(x.value.func).endswith(".highlight")}
    greedy = []
    for c in walk_local(f.node):
        if isinstance(c, ast.Call) and isinstance(c.func, ast.Attribute) and c.func.attr in ("rstrip", "strip"):
            recv = c.func.value
            base = recv.value if isinstance(recv, ast.Attribute) and recv.attr == "plain" else recv
            if isinstance(base, ast.Name) and base.id in hl_names:
                greedy.append(c)
    for c in greedy:
        ctx.violation(f.fq, short(c), f"{m.relpath}:{c.lineno}", f"`{short(c)}` strips EVERY trailing new line of the highlighted text: the text of a line range ends right after its last selected line, so when the range ends on blank lines those lines are removed before the split - Syntax('a = 1\\n\\n\\nb = 2', 'python', line_numbers=True, line_range=(1, 2)) shows line 1 only")
    stripped = any(isinstance(c, ast.Call) and isinstance(c.func, ast.Attribute) and c.func.attr in ("remove_suffix", "rstrip") for c in walk_local(f.node))
    if not stripped:
        raise AnalysisError("Syntax.__rich_console__: the trailing newline is no longer removed with remove_suffix; the premise of this rule changed")
    ab = kwarg(sp.value, "allow_blank")
    where = f"{m.relpath}:{sp.lineno}"
    if ab is None:
        ctx.violation(f.fq, sp_short, where, f"`{sp_short}` drops a trailing blank line (Text.split's default) although the lines are then selected by the range: a range whose last line is blank loses that line - Syntax('a\\nb\\n\\nc', 'python', line_numbers=True, line_range=(1, 3)) shows lines 1-2 only")
        return
    v = norm(_inl(ab, _sdf(f.node)))
    ok = v in ("True", "bool(self.line_range)", "self.line_range is not None", "bool(line_range)") or "line_range" in v
    if isinstance(ab, ast.Constant) and ab.value is False:
        ctx.violation(f.fq, sp_short, where, "allow_blank=False: a range whose last line is blank loses that line")
        return
    if not ok:
        raise AnalysisError(f"Syntax.__rich_console__: allow_blank=`{v}` - cannot tell whether it is on when a range is in force")
    ctx.ok(where, "the split that feeds the range slice keeps a trailing blank line when a range is in force", f.fq)


def _blank_keeping(ab, fnode):
    """'yes' / 'no' / text of an allow_blank argument that is neither"""
    from ..astutil import inline as _inl, single_defs as _sdf
    if ab is None:
        return "no"
    if isinstance(ab, ast.Constant):
        return "yes" if ab.value is True else "no" if ab.value in (False, None, 0) else norm(ab)
    v = norm(_inl(ab, _sdf(fnode)))
    return "yes" if "line_range" in v else v


def _rebuild_effect(ctx, name):
    """what a Text method does to a trailing blank line: 'keep', 'drop' (re-splits with Text.split's default and joins), or None"""
    try:
        callee = ctx.repo.fn(f"text:Text.{name}")
    except Exception:
        return None, None
    inner = []
    for c in walk_local(callee.node):
        if isinstance(c, ast.Call) and isinstance(c.func, ast.Attribute) and c.func.attr == "split":
            recv = c.func.value
            if (isinstance(recv, ast.Attribute) and recv.attr == "plain") or (isinstance(recv, ast.Name) and recv.id == "plain"):
                continue
            sep = c.args[0] if c.args else kwarg(c, "separator")
            if sep is not None and not (isinstance(sep, ast.Constant) and sep.value == "\n"):
                continue
            inner.append(c)
    joins = [c for c in walk_local(callee.node) if isinstance(c, ast.Call) and isinstance(c.func, ast.Attribute) and c.func.attr == "join"]
    if not inner and not joins:
        return "keep", callee
    if len(inner) != 1 or not joins:
        return None, callee
    k = _blank_keeping(kwarg(inner[0], "allow_blank") if len(inner[0].args) < 3 else inner[0].args[2], callee.node)
    return ("keep" if k == "yes" else "drop" if k == "no" else None), callee


def r17_10(ctx):
    ctx.rule("R17.10", "the lines selected by the range reach the numbering loop one for one. Whatever joins and re-splits them after the range slice in Syntax.__rich_console__ (the indent-guide pass) is decided by counting trailing lines: a join of n lines has n; appending a new line adds an empty last one; a Text method that rebuilds its text with Text.split's default and a join (with_indent_guides) and a final split without allow_blank each drop an empty last line. The count must come out at n when a range is in force, never above n, and an empty selection must not be re-split at all ('' splits into one line): otherwise line_range=(1, 4) of 'a\\n\\nb\\n\\nc' with indent guides shows three lines and a range beyond the code one phantom number")
    from ..astutil import single_defs as _sdf
    f = ctx.repo.fn("syntax:Syntax.__rich_console__")
    m = f.module
    slices = [x for x in walk_local(f.node) if isinstance(x, ast.Assign) and isinstance(x.value, ast.Subscript) and isinstance(x.value.slice, ast.Slice) and x.value.slice.upper is not None and "end" in norm(x.value.slice.upper)]
    if len(slices) != 1:
        raise AnalysisError("Syntax.__rich_console__: the slice of the lines by the range was not found")
    var = norm(slices[0].targets[0])
    g = cfgmod.build(f.node)
    after = g.reach(set(g.nodes_of(slices[0])))
    resplits = []
    for x in walk_local(f.node):
        if not (isinstance(x, ast.Assign) and norm(x.targets[0]) == var) or x is slices[0]:
            continue
        if not (set(g.nodes_of(x)) & after):
            continue
        if any(isinstance(c, ast.Call) and isinstance(c.func, ast.Attribute) and c.func.attr in ("split", "splitlines", "join") for c in ast.walk(x.value)):
            resplits.append(x)
        elif isinstance(x.value, ast.Subscript) or (isinstance(x.value, ast.Call) and call_name(x.value) in ("list", "tuple", "reversed", "sorted", "filter")):
            raise AnalysisError(f"Syntax.__rich_console__: `{short(x)}` reshapes the selected lines in a way this rule does not read")
    if not resplits:
        ctx.ok(f.where, "the selected lines are not re-split before they are numbered", f.fq)
        return
    sd = _sdf(f.node)
    parents = {}
    for p_ in ast.walk(f.node):
        for c_ in ast.iter_child_nodes(p_):
            parents[id(c_)] = p_

    def ops_of(node, depth=0):
        """trailing-line operations of the expression, in execution order"""
        if depth > 8:
            raise AnalysisError("Syntax.__rich_console__: the indent-guide chain is too deep to read")
        if isinstance(node, ast.Name):
            if node.id == var:
                raise AnalysisError("Syntax.__rich_console__: the selected lines are split as if they were a text")
            d = sd.get(node.id)
            if d is None:
                raise AnalysisError(f"Syntax.__rich_console__: `{node.id}` in the indent-guide chain has no single definition")
            extra = []
            for c in walk_local(f.node):
                if isinstance(c, ast.Expr) and isinstance(c.value, ast.Call) and isinstance(c.value.func, ast.Attribute) and norm(c.value.func.value) == node.id:
                    meth = c.value.func.attr
                    if meth == "append" and c.value.args and isinstance(c.value.args[0], ast.Constant) and c.value.args[0].value == "\n":
                        extra.append(("add", c))
                    elif meth in ("append", "append_text", "append_tokens", "remove_suffix", "rstrip", "right_crop", "truncate", "set_length", "pad", "pad_right"):
                        raise AnalysisError(f"Syntax.__rich_console__: `{short(c)}` changes the end of the joined text in a way this rule does not count")
            return ops_of(d, depth + 1) + extra
        if isinstance(node, ast.BinOp) and isinstance(node.op, ast.Add):
            r = node.right
            if (isinstance(r, ast.Constant) and r.value == "\n") or (isinstance(r, ast.Call) and call_name(r) == "Text" and r.args and isinstance(r.args[0], ast.Constant) and r.args[0].value == "\n"):
                return ops_of(node.left, depth + 1) + [("add", node)]
            raise AnalysisError(f"Syntax.__rich_console__: `{short(node)}` in the indent-guide chain is not read")
        if isinstance(node, ast.Call) and isinstance(node.func, ast.Attribute):
            name = node.func.attr
            if name == "join":
                sepn = node.func.value
                sep_ok = (isinstance(sepn, ast.Call) and call_name(sepn) == "Text" and sepn.args and isinstance(sepn.args[0], ast.Constant) and sepn.args[0].value == "\n") or (isinstance(sepn, ast.Name) and norm(sd.get(sepn.id) or sepn) in ("Text('\\n')",))
                if not sep_ok or len(node.args) != 1:
                    raise AnalysisError(f"Syntax.__rich_console__: `{short(node)}` does not join the lines with a new line")
                a0 = node.args[0]
                if isinstance(a0, ast.Name) and a0.id == var:
                    return [("join", node)]
                txt = norm(a0)
                if txt in (f"{var} + [Text()]", f"{var} + [Text('')]", f"[*{var}, Text()]", f"[*{var}, Text('')]"):
                    return [("join", node), ("add", node)]
                raise AnalysisError(f"Syntax.__rich_console__: `{short(node)}` joins something other than the selected lines")
            if name in ("copy",):
                return ops_of(node.func.value, depth + 1)
            eff, callee = _rebuild_effect(ctx, name)
            if eff is None:
                raise AnalysisError(f"Syntax.__rich_console__: cannot tell what Text.{name} does to a trailing blank line")
            return ops_of(node.func.value, depth + 1) + [(eff, node, callee, name)]
        raise AnalysisError(f"Syntax.__rich_console__: `{short(node)}` in the indent-guide chain is not read")

    for x in resplits:
        where = f"{m.relpath}:{x.lineno}"
        v = x.value
        if not (isinstance(v, ast.Call) and isinstance(v.func, ast.Attribute) and v.func.attr == "split"):
            raise AnalysisError(f"Syntax.__rich_console__: `{short(x)}` rebuilds the selected lines in a shape this rule does not read")
        sep = v.args[0] if v.args else kwarg(v, "separator")
        if sep is not None and not (isinstance(sep, ast.Constant) and sep.value == "\n"):
            raise AnalysisError(f"Syntax.__rich_console__: `{short(x)}` does not split on the new line")
        ops = ops_of(v.func.value)
        final = _blank_keeping(kwarg(v, "allow_blank") if len(v.args) < 3 else v.args[2], f.node)
        abn = kwarg(v, "allow_blank")
        conditional = final == "yes" and abn is not None and not (isinstance(abn, ast.Constant))
        if final not in ("yes", "no"):
            raise AnalysisError(f"Syntax.__rich_console__: allow_blank=`{final}` on the re-split - cannot tell whether it is on when a range is in force")
        for scenario in ("range", "whole"):
            k, lost, story = 0, False, []
            for op in ops:
                kind = op[0]
                if kind == "join":
                    story.append("join: n lines")
                elif kind == "add":
                    k += 1
                    story.append("new line appended: +1 empty last line")
                elif kind == "drop":
                    story.append(f"Text.{op[3]} re-splits with Text.split's default: drops an empty last line")
                    if k:
                        k -= 1
                    else:
                        lost = True
                elif kind == "keep":
                    story.append(f"Text.{op[3]}: line for line" if len(op) > 3 else "kept")
            keeps = final == "yes" and (scenario == "range" or not conditional)
            if not keeps:
                story.append("final split without allow_blank: drops an empty last line")
                if k:
                    k -= 1
                else:
                    lost = True
            else:
                story.append("final split keeps blank lines")
            if k > 0:
                ctx.violation(f.fq, short(x), where, f"the indent-guide pass returns more lines than it was given ({'; '.join(story)}): an extra numbered line appears after the selected ones")
                break
            if lost and scenario == "range":
                ctx.violation(f.fq, short(x), where, f"the indent-guide pass can drop the last selected line when it is blank ({'; '.join(story)}): Syntax('a\\n\\nb\\n\\nc', 'python', line_numbers=True, line_range=(1, 4), indent_guides=True) shows lines 1-3")
                break
        else:
            ctx.ok(where, "join / indent guides / split returns exactly the selected lines (" + "; ".join(story) + ")", f.fq)
        # the empty selection: ''.split gives one line
        guarded = False
        p_ = parents.get(id(x))
        node_ = x
        while p_ is not None and p_ is not f.node:
            if isinstance(p_, ast.If) and node_ in p_.body:
                tests = p_.test.values if isinstance(p_.test, ast.BoolOp) and isinstance(p_.test.op, ast.And) else [p_.test]
                if any(norm(t) in (var, f"len({var})", f"len({var}) > 0", f"{var} != []", f"bool({var})") for t in tests):
                    guarded = True
            node_, p_ = p_, parents.get(id(p_))
        if not guarded:
            # an earlier `if not lines: return`
            for n in walk_local(f.node):
                if isinstance(n, ast.If) and norm(n.test) in (f"not {var}", f"len({var}) == 0") and n.body and isinstance(n.body[-1], ast.Return) and set(g.nodes_of(n)) & after:
                    guarded = True
        if guarded:
            ctx.ok(where, "an empty selection is not re-split", f.fq)
        else:
            ctx.violation(f.fq, short(x), where, "the re-split also runs when the range selects no line: joining nothing gives '' and ''.split gives one line, so a range beyond the end of the code shows one numbered blank line - Syntax('a\\n', 'python', line_numbers=True, line_range=(7, 9), indent_guides=True) prints line 7")


_PYGMENTS_LOOKUPS = ("guess_lexer_for_filename", "get_lexer_by_name", "get_lexer_for_filename", "guess_lexer", "find_lexer_class_by_name")
_CATCHES_CNF = ("ClassNotFound", "ValueError", "Exception", "BaseException")


def r17_11(ctx):
    ctx.rule("R17.11", "a frame whose file was read shows its source: the pygments lexer look-ups (guess_lexer_for_filename, get_lexer_by_name ..) raise ClassNotFound for a file name / lexer name nobody claims; in traceback.py and syntax.py each such call is answered where it is made - a handler for ClassNotFound that supplies a fall-back lexer or the plain code - and does not escape into the handler of Traceback._render_stack that also covers unreadable files and prints the error text in place of the source lines")
    n = 0
    for ms in ("traceback", "syntax"):
        m = ctx.repo.mod(ms)
        for f in m.functions.values():
            for c in walk_local(f.node):
                if not (isinstance(c, ast.Call) and isinstance(c.func, ast.Name) and c.func.id in _PYGMENTS_LOOKUPS):
                    continue
                n += 1
                where = f"{m.relpath}:{c.lineno}"
                # enclosing handlers inside the same function
                cur, prev = m.parent_of.get(c), c
                local = None
                while cur is not None and cur is not f.node:
                    if isinstance(cur, ast.Try) and any(prev is b or prev in list(ast.walk(b)) for b in cur.body):
                        for h in cur.handlers:
                            names = [norm(h.type)] if h.type is not None and not isinstance(h.type, ast.Tuple) else ([norm(e) for e in h.type.elts] if h.type is not None else ["BaseException"])
                            if any(nm.split(".")[-1] in _CATCHES_CNF for nm in names):
                                local = (cur, h)
                                break
                        if local:
                            break
                    prev = cur
                    cur = m.parent_of.get(cur)
                if local is not None:
                    tr, h = local
                    # the handler must not re-raise and must not be the frame-level handler that prints the error instead of the code
                    reraises = any(isinstance(x, ast.Raise) for b in h.body for x in ast.walk(b))
                    prints_error = h.name is not None and any(isinstance(x, ast.FormattedValue) and isinstance(x.value, ast.Name) and x.value.id == h.name for b in h.body for x in ast.walk(b))
                    if reraises or prints_error:
                        ctx.violation(f.fq, short(c), where, f"`{short(c)}` can raise ClassNotFound and the handler around it {'re-raises' if reraises else 'prints the error text in place of the code'}: a readable source file with an unknown extension is not shown")
                    else:
                        ctx.ok(where, f"`{c.func.id}` is answered by a local handler with a fall-back", f.fq)
                    continue
                # unprotected in f: look at the call sites of f in the module
                sites = []
                for g in m.functions.values():
                    for c2 in walk_local(g.node):
                        if isinstance(c2, ast.Call) and ((isinstance(c2.func, ast.Attribute) and c2.func.attr == f.node.name and isinstance(c2.func.value, ast.Name) and c2.func.value.id in ("self", "cls", f.cls.name if f.cls else "")) or (isinstance(c2.func, ast.Name) and c2.func.id == f.node.name and f.cls is None)):
                            sites.append((g, c2))
                if not sites:
                    ctx.violation(f.fq, short(c), where, f"`{short(c)}` can raise ClassNotFound (no lexer for the name) and nothing in {f.qualname} answers it")
                    continue
                for g, c2 in sites:
                    cur, prev = m.parent_of.get(c2), c2
                    verdict = None
                    while cur is not None and cur is not g.node:
                        if isinstance(cur, ast.Try) and any(prev is b or prev in list(ast.walk(b)) for b in cur.body):
                            for h in cur.handlers:
                                names = [norm(h.type)] if h.type is not None and not isinstance(h.type, ast.Tuple) else ([norm(e) for e in h.type.elts] if h.type is not None else ["BaseException"])
                                if any(nm.split(".")[-1] in _CATCHES_CNF for nm in names):
                                    prints_error = h.name is not None and any(isinstance(x, ast.FormattedValue) and isinstance(x.value, ast.Name) and x.value.id == h.name for b in h.body for x in ast.walk(b))
                                    shares_read = any(isinstance(x, ast.Call) and call_name(x) in ("read_code", "open", "read") for b in cur.body for x in ast.walk(b))
                                    verdict = "bad" if (prints_error or shares_read) else "ok"
                                    break
                            if verdict:
                                break
                        prev = cur
                        cur = m.parent_of.get(cur)
                    w2 = f"{m.relpath}:{c2.lineno}"
                    if verdict == "ok":
                        ctx.ok(w2, f"the caller answers the lexer failure of {f.qualname} on its own", g.fq)
                    else:
                        ctx.violation(f.fq, short(c), where, f"`{short(c)}` raises ClassNotFound for a file name no lexer claims and {f.qualname} lets it escape; {g.qualname} (line {c2.lineno}) handles it together with unreadable files and shows the error text instead of the frame's source: a traceback through a readable file 'gen.foo' prints \"no lexer for filename 'gen.foo' found\" where its source lines belong")
    ctx.floor(n, 3, "pygments lexer look-ups in traceback.py / syntax.py")


RULES = [r17_1, r17_2, r17_3, r17_4, r17_5, r17_7, r17_8, r17_9, r17_10, r17_11]
