"""CLI:  python -m sa.check <Cxx> [--tier quick|thorough] [--replay file] | --self | --all

Exit protocol: 0 = every rule instance holds (or is a listed known finding);
1 = VIOLATION line(s); 2 = ANALYSIS-ERROR (vanished anchor, floor not met, internal error).
"""
from __future__ import annotations

import argparse
import importlib
import json
import os
import sys
import traceback

from .index import AnalysisError, AnchorVanished, Repo
from .report import Ctx

CLAIMED = ["C01", "C02", "C03", "C04", "C05", "C06", "C07", "C08", "C09", "C10", "C11", "C12", "C13",
           "C14", "C15", "C16", "C17", "C18", "C19", "C20"]


def load_rules(prop: str):
    try:
        return importlib.import_module(f"sa.rules.{prop.lower()}")
    except ModuleNotFoundError as e:
        if e.name == f"sa.rules.{prop.lower()}":
            return None
        raise


def run_property(prop: str, tier: str, repo=None, quiet: bool = False, write_evidence: bool = True):
    """Run all rules of one property; returns the finished Ctx (ctx.exit_code set)."""
    mod = load_rules(prop)
    level = getattr(mod, "LEVEL", "other") if mod else "other"
    ctx = Ctx(prop, tier, repo, level=level, quiet=quiet)
    try:
        if mod is None:
            ctx.rule("R0", "no rules implemented")
            ctx.error("no rule module for this property (fail-closed)")
        else:
            if repo is None:
                repo = Repo()
                ctx.repo = repo
            ctx.undecided = list(getattr(mod, "UNDECIDED", []))
            for a in getattr(mod, "ASSUMPTIONS", []):
                ctx.assume(a)
            for t in getattr(mod, "TRUSTED", []):
                ctx.trust(t)
            def run_one(rule_fn):
                try:
                    rule_fn(ctx)
                except AnchorVanished as e:
                    ctx.error(f"anchor vanished: {e}")
                except AnalysisError as e:
                    ctx.error(f"analysis error: {e}")
                except Exception as e:  # internal error of the checker: never a verdict
                    tb = traceback.format_exc().strip().splitlines()
                    ctx.error(f"internal error in {rule_fn.__name__}: {e!r} @ {tb[-3].strip() if len(tb) >= 3 else ''}")

            def snapshot():
                return (len(ctx.obligations), len(ctx.violations), len(ctx.errors), len(ctx.notes), dict(ctx.rules_applied), dict(ctx.rule_counts), set(ctx.functions_analysed))

            def rollback(sn):
                del ctx.obligations[sn[0]:]
                del ctx.violations[sn[1]:]
                del ctx.errors[sn[2]:]
                del ctx.notes[sn[3]:]
                ctx.rules_applied.clear(); ctx.rules_applied.update(sn[4])
                ctx.rule_counts.clear(); ctx.rule_counts.update(sn[5])
                ctx.functions_analysed.clear(); ctx.functions_analysed.update(sn[6])

            def take(sn):
                return (ctx.obligations[sn[0]:], ctx.violations[sn[1]:], ctx.errors[sn[2]:], ctx.notes[sn[3]:], dict(ctx.rules_applied), dict(ctx.rule_counts), set(ctx.functions_analysed))

            def put(part):
                ctx.obligations.extend(part[0]); ctx.violations.extend(part[1]); ctx.errors.extend(part[2]); ctx.notes.extend(part[3])
                ctx.rules_applied.update(part[4]); ctx.rule_counts.update(part[5]); ctx.functions_analysed.update(part[6])

            # Two views of the same program: with helpers that the pinned source does not know expanded at their call sites
            # (sa/inliner.py), and as written.  They are behaviour-equivalent; a rule is satisfied when it is satisfied on either
            # view; when neither view discharges it, what it reports on the source as written stands.
            dual = repo.inlined_any
            for rule_fn in mod.RULES:
                sn = snapshot()
                ctx.repo = repo
                run_one(rule_fn)
                if dual and (len(ctx.violations) > sn[1] or len(ctx.errors) > sn[2]):
                    first = take(sn)
                    rollback(sn)
                    ctx.repo = repo.plain_view()
                    run_one(rule_fn)
                    second_clean = not (len(ctx.violations) > sn[1] or len(ctx.errors) > sn[2])
                    if second_clean:
                        ctx.note(f"{rule_fn.__name__}: decided on the source as written (the view with helpers expanded was not recognised)")
                    # neither view is clean: the verdict of the source as written stands (the expanded view is used to
                    # discharge a rule, never to accuse - its shapes are machine-made and less familiar to the rules)
                    ctx.repo = repo
            if tier == "thorough":
                try:
                    from .sweep import corpus_property, sweep_property
                    sweep_property(ctx)
                    corpus_property(ctx)
                except Exception as e:
                    ctx.error(f"sensitivity sweep failed: {e!r}")
            if tier == "thorough" and hasattr(mod, "THOROUGH"):
                for rule_fn in mod.THOROUGH:
                    try:
                        rule_fn(ctx)
                    except AnchorVanished as e:
                        ctx.error(f"anchor vanished: {e}")
                    except AnalysisError as e:
                        ctx.error(f"analysis error: {e}")
                    except Exception as e:
                        tb = traceback.format_exc().strip().splitlines()
                        ctx.error(f"internal error in {rule_fn.__name__}: {e!r} @ {tb[-3].strip() if len(tb) >= 3 else ''}")
    except AnchorVanished as e:
        ctx.error(f"anchor vanished: {e}")
    except AnalysisError as e:
        ctx.error(f"analysis error: {e}")
    except Exception as e:
        ctx.error(f"internal error: {e!r}")
    ctx.finish(write_evidence=write_evidence)
    return ctx


def replay(prop: str, path: str) -> int:
    with open(path) as f:
        want = json.load(f)
    ctx = run_property(prop, "quick", quiet=True, write_evidence=False)
    key = (want["property"], want["rule"], want["function"], want["construct"])
    for v in ctx.violations:
        if v.key == key:
            print(f"REPRODUCED {v.rule} {v.where} in {v.function}")
            print(f"  {v.message}")
            print(f"  construct: {v.construct}")
            for p in v.path:
                print(f"  path: {p}")
            print(f"VIOLATION property={prop} replay={path}")
            return 1
    if ctx.errors:
        for e in ctx.errors:
            print(f"ANALYSIS-ERROR property={prop} {e}")
        return 2
    print(f"not reproduced on the current tree: {key}")
    return 0


def main(argv=None) -> int:
    ap = argparse.ArgumentParser()
    ap.add_argument("prop", nargs="?")
    ap.add_argument("--tier", default=os.environ.get("VERIF_TIER", "quick") or "quick", choices=["quick", "thorough"])
    ap.add_argument("--replay")
    ap.add_argument("--self", dest="self_", action="store_true")
    ap.add_argument("--all", action="store_true")
    args = ap.parse_args(argv)
    try:
        if args.self_:
            repo = Repo()
            nf = sum(1 for _ in repo.all_functions())
            print(f"sa: parsed {len(repo.modules)} modules, {nf} functions from {repo.pkgdir}")
            for p in CLAIMED:
                m = load_rules(p)
                print(f"  {p}: {'%d rules' % len(m.RULES) if m else 'NO RULE MODULE'}")
            return 0
        if args.all:
            repo = Repo()
            worst = 0
            for p in CLAIMED:
                ctx = run_property(p, args.tier, repo)
                worst = max(worst, ctx.exit_code)
            return worst
        if not args.prop:
            ap.error("property id required")
        if args.replay:
            return replay(args.prop, args.replay)
        ctx = run_property(args.prop, args.tier)
        return ctx.exit_code
    except SystemExit:
        raise
    except Exception as e:  # never let a traceback masquerade as a verdict
        print(f"ANALYSIS-ERROR property={args.prop} internal error: {e!r}")
        traceback.print_exc()
        return 2


if __name__ == "__main__":
    try:
        code = main()
        sys.stdout.flush()
    except BrokenPipeError:
        # the reader closed the pipe (e.g. `| head`): the verdict is still the exit code
        import os as _os
        try:
            _os.dup2(_os.open(_os.devnull, _os.O_WRONLY), sys.stdout.fileno())
        except Exception:
            pass
        code = 2
    sys.exit(code)
