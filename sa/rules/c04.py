"""C04 Markup styles exactly the tagged regions, and escape() neutralises any text."""
from __future__ import annotations

import ast
from typing import List, Optional

from .. import cfg as cfgmod
from .. import regexast
from ..astutil import alias_map, call_name, const_int, default_args, expand_alias, fstring_parts
from ..index import AnalysisError, AnchorVanished, norm, short, walk_local

LEVEL = "other"
UNDECIDED = [
    "the regex's matching behaviour on all strings (which '[' starts a tag, backslash runs that are not directly before a tag)",
    "per-character equality of the rendered text with the input minus tags; emoji replacement interaction",
    "escape(s) for s ending in a backslash / unbalanced '[' (excluded by the property itself)",
]
TRUSTED = ["CPython ast parser and re._parser (regex ASTs)", "list.pop / divmod / str.partition semantics", "Text.render applies spans in list order, later spans winning (C05 mechanism)"]


def _resolve_regex(m, e, fn=None, depth=0):
    """re.compile(...) call that expression e denotes: inline, a module global, or a default argument / local of fn"""
    c = regexast.compile_call(e)
    if c is not None:
        return c
    if depth > 3:
        return None
    if isinstance(e, ast.Name):
        if fn is not None:
            d = default_args(fn.node)
            if e.id in d:
                return _resolve_regex(m, d[e.id], None, depth + 1)
        if m.global_assign_count(e.id) == 1:
            return _resolve_regex(m, m.global_assign(e.id), None, depth + 1)
    return None


def _regexes(ctx):
    """(module, RE_TAGS compile call, escape function, (callback expr, escape regex compile call))"""
    m = ctx.repo.mod("markup")
    tags = regexast.compile_call(m.global_assign("RE_TAGS"))
    esc_fn = m.fn("escape")
    aliases = dict(default_args(esc_fn.node))
    aliases.update(alias_map(esc_fn.node))
    esc = None
    for c in walk_local(esc_fn.node):
        if isinstance(c, ast.Call) and len(c.args) == 2:
            f = expand_alias(c.func, aliases)
            if isinstance(f, ast.Attribute) and f.attr == "sub":
                rx = _resolve_regex(m, f.value, esc_fn)
                if rx is not None:
                    esc = (c.args[0], rx, c)
    if tags is None or esc is None:
        raise AnchorVanished("RE_TAGS / the <regex>.sub(callback, markup) call of escape() not found in markup.py")
    return m, tags, esc_fn, esc


def r4_1(ctx):
    ctx.rule("R4.1", "escape() and the tokenizer agree on what a tag is: the regex bound to escape's default argument and RE_TAGS have the same normal form once capture groups are flattened; group arities match their unpack sites; the replacement doubles the backslashes and adds exactly one; the tokenizer halves them (divmod by 2) and treats an odd count as an escape")
    m, tags, esc_fn, (esc_cb, esc, _sub_call) = _regexes(ctx)
    sp_t, sp_e = regexast.parse_call(tags), regexast.parse_call(esc)
    nf_t, nf_e = regexast.normal_form(sp_t), regexast.normal_form(sp_e)
    ctx.check(nf_t == nf_e, "markup:RE_TAGS", f"RE_TAGS={tags.args[0].value.strip()!r} vs escape={esc.args[0].value!r}", f"{m.relpath}:{tags.lineno}",
              f"both regexes reduce to the same token sequence ({len(nf_t)} tokens)",
              f"the tokenizer regex and escape()'s regex differ ({nf_t} vs {nf_e}): some text that render() treats as a tag is not escaped by escape() (or vice versa), so render(escape(s)) != s")
    # arities
    parse = m.fn("_parse")
    for n in walk_local(parse.node):
        if isinstance(n, ast.Assign) and isinstance(n.targets[0], ast.Tuple) and norm(n.value) == "match.groups()":
            k = len(n.targets[0].elts)
            ctx.check(k == regexast.group_count(sp_t), parse.fq, norm(n), f"{m.relpath}:{n.lineno}", f"_parse unpacks {k} groups of RE_TAGS", f"_parse unpacks {k} names from match.groups() but RE_TAGS has {regexast.group_count(sp_t)} groups (ValueError on every tag)")
    from ..astutil import concat_parts, helper_closed_return
    cb = esc_cb
    inner = None
    if isinstance(cb, ast.Name):
        inner = m.functions.get(f"escape.<locals>.{cb.id}") or m.functions.get(cb.id)
    if inner is None:
        # a replacement *template* (string) instead of a callback:  r"\1\1\\\2"
        tmpl = cb if isinstance(cb, ast.Constant) else (m.module_const(cb.id) if isinstance(cb, ast.Name) else None)
        if isinstance(tmpl, ast.Constant) and isinstance(tmpl.value, str):
            t = tmpl.value
            parts = []
            i = 0
            while i < len(t):
                if t[i] == "\\" and i + 1 < len(t):
                    nx = t[i + 1]
                    parts.append(("g", int(nx)) if nx.isdigit() else ("lit", "\\" if nx == "\\" else "\\" + nx))
                    i += 2
                else:
                    parts.append(("lit", t[i]))
                    i += 1
            okt = parts == [("g", 1), ("g", 1), ("lit", "\\"), ("g", 2)] and regexast.group_count(sp_e) == 2
            ctx.check(okt, esc_fn.fq, repr(t), esc_fn.where, "replacement template = backslashes*2 + one backslash + tag text",
                      "escape()'s replacement is not `2 x existing backslashes + '\\' + tag`: the tokenizer's parity rule no longer sees an odd count")
            inner = False
        else:
            raise AnchorVanished("escape(): the replacement callback passed to <regex>.sub was not found")
    for n in (walk_local(inner.node) if inner else []):
        if isinstance(n, ast.Assign) and isinstance(n.targets[0], ast.Tuple) and norm(n.value).endswith(".groups()"):
            k = len(n.targets[0].elts)
            ctx.check(k == regexast.group_count(sp_e), inner.fq, norm(n), f"{m.relpath}:{n.lineno}", f"escape unpacks {k} groups", f"the escape callback unpacks {k} names but its regex has {regexast.group_count(sp_e)} groups")
    closed = helper_closed_return(inner.node) if inner else None
    ok = False
    detail = "?"
    if inner is False:
        pass
    elif closed is not None and inner.params:
        mp = inner.params[0]
        parts = concat_parts(closed)
        detail = norm(closed)
        g1, g2 = ("expr", f"{mp}.group(1)"), ("expr", f"{mp}.group(2)")
        ok = parts == [g1, g1, "\\", g2] and regexast.group_count(sp_e) == 2
    if inner is not False:
        ctx.check(ok, inner.fq, detail, inner.where, "replacement = backslashes*2 + one backslash + tag text",
                  "escape()'s replacement is not `2 x existing backslashes + '\\' + tag`: the tokenizer's parity rule no longer sees an odd count")
    # tokenizer parity - decided on the path normal form of _parse's loop body (insensitive to divmod vs // and %,
    # nested vs flat tests, temporaries, span() vs start()/end())
    from ..yieldpaths import Unsupported, emissions, paths_of, select, show
    try:
        P = paths_of(parse.node)
    except Unsupported as u:
        raise AnalysisError(f"markup._parse uses a statement the path normal form does not cover ({u})")
    loops = {e for p_ in P for e in p_ if e[0] == "loop" and "finditer" in e[2]}
    mv = None
    if not loops:
        # the same walk over the matches written as  m = search(text); while m is not None: ...; m = search(text, <end of m>)
        for e in {e for p_ in P for e in p_ if e[0] == "loop" and e[1] == "" and e[2].startswith("while ")}:
            t_ = e[2][len("while "):]
            if t_.endswith(" is not None") and t_[: -len(" is not None")].isidentifier():
                cand = t_[: -len(" is not None")]
                defs_ = [x.value for x in walk_local(parse.node) if isinstance(x, ast.Assign) and len(x.targets) == 1 and norm(x.targets[0]) == cand]
                from ..astutil import alias_map as _am41, expand_alias as _ea41
                al41 = _am41(parse.node)
                if defs_ and all(isinstance(d_, ast.Call) and norm(_ea41(d_.func, al41)) in ("RE_TAGS.search", "RE_TAGS.match") for d_ in defs_):
                    loops = {e}
                    mv = cand
    if len(loops) != 1:
        raise AnchorVanished("_parse: the loop over RE_TAGS.finditer(markup) was not found")
    lp = next(iter(loops))
    mv = mv or lp[1]
    ESC = f"{mv}.group(2)"
    Q, R = f"len({ESC}) // 2", f"len({ESC}) % 2"
    y_bs = ("yield", f"(start, '\\\\' * ({Q}), None)")
    y_lit = ("yield", f"(start, {mv}.group(1)[len({ESC}):], None)")
    from ..yieldpaths import resolve as _resolve
    from ..yieldpaths import feasible as _feasible41
    # a flag set on one branch and tested later (`is_tag = False ... if is_tag:`) resolves to a constant test: such paths are infeasible
    bodies = [q_ for q_ in (_resolve(b, keep=("start", "position")) for b in lp[3]) if _feasible41(q_)]
    # the parity clauses below are phrased over the offset variable `start`; a tokenizer that carries the offset in another
    # variable (e.g. an extracted helper working on its own copy) is outside what they can decide
    for b_ in bodies:
        for e_ in b_:
            if e_[0] == "set" and e_[1] not in ("start", "position") and "start" in (e_[2] or "").replace("(", " ").replace(")", " ").replace(",", " ").split() and e_[1].isidentifier():
                raise AnalysisError(f"markup._parse: the offset is also carried in `{e_[1]}` (a copy of `start`); the backslash-parity clauses are phrased over `start` alone and are not decided for this form")
            if e_[0] == "yield":
                try:
                    y_ = ast.parse(e_[1], mode="eval").body
                except SyntaxError:
                    continue
                if isinstance(y_, ast.Tuple) and y_.elts and not (isinstance(y_.elts[0], ast.Name) and y_.elts[0].id in ("start", "position")) and not (isinstance(y_.elts[0], ast.BinOp) and "start" in norm(y_.elts[0]).split()):
                    raise AnalysisError(f"markup._parse: a token is emitted at offset `{norm(y_.elts[0])}`, not at the loop's own `start` / `position`; the backslash-parity clauses are not decided for this form")
    # equal texts under premises read off the regex itself: group 2 is a run of backslashes only, so any prefix of it of length
    # k is k backslashes; group 1 is group 2 + '[' + group 3 + ']' and the whole match, so the match without its backslashes is
    # the source text from one character before group 3 to the end of the match
    nf = regexast.normal_form(sp_t, keep_groups=True)
    g2_bs = regexast.chars_of(regexast.group_subpattern(sp_t, 2)) == {("lit", "\\")}
    shape = (len(nf) == 1 and nf[0][0] == "GROUP" and nf[0][1] == 1 and len(nf[0][2]) == 4 and nf[0][2][0][:2] == ("GROUP", 2) and nf[0][2][1] == ("LITERAL", 91)
             and nf[0][2][2][:2] == ("GROUP", 3) and nf[0][2][3] == ("LITERAL", 93))
    alt_bs = {("yield", f"(start, {ESC}[:{Q}], None)")} if g2_bs else set()
    alt_lit = {("yield", f"(start, markup[{mv}.start(3) - 1:{mv}.end()], None)")} if shape else set()

    def canon_em(em):
        return [y_bs if e in alt_bs else (y_lit if e in alt_lit else e) for e in em]

    def tag_yields(b):
        return [e for e in b if e[0] == "yield" and "Tag(" in e[1]]
    ok, bad = True, None
    sel = select(bodies, {ESC: True, Q: True})
    okq = bool(sel)
    for b in sel:
        em = canon_em(emissions(b))
        if y_bs not in em:
            okq, bad = False, b
            continue
        i = em.index(y_bs)
        adv = [j for j, e in enumerate(em) if e[0] == "set" and e[1] == "start" and e[2].replace(" ", "") in (f"start+{Q}*2".replace(" ", ""), f"start+2*({Q})".replace(" ", ""), f"start+({Q})*2".replace(" ", ""))]
        later_yields = [j for j, e in enumerate(em) if j > i and e[0] == "yield"]
        if not adv or (later_yields and adv[0] > later_yields[0]) or adv[0] < i:
            okq, bad = False, b
    for b in select(bodies, {ESC: True, Q: False}) + select(bodies, {ESC: False, Q: False, R: False}):
        if y_bs in canon_em(emissions(b)):
            okq, bad = False, b
    ctx.check(okq, parse.fq, show(bad)[:300] if bad else "backslash pairs", parse.where, "every pair of backslashes before a tag is emitted as one literal backslash and the position advanced by two per pair",
              "the tokenizer no longer emits exactly one backslash per pair of backslashes before a tag (halving by 2) and advances past them")
    okr, bad = True, None
    sel = select(bodies, {ESC: True, R: True})
    okr = bool(sel)
    for b in sel:
        if y_lit not in canon_em(emissions(b)) or tag_yields(b):
            okr, bad = False, b
    sel2 = select(bodies, {ESC: True, R: False}) + select(bodies, {ESC: False, Q: False, R: False})
    okr = okr and bool(sel2)
    for b in sel2:
        if y_lit in canon_em(emissions(b)) or len(tag_yields(b)) != 1:
            okr, bad = False, b
    ctx.check(okr, parse.fq, show(bad)[:300] if bad else "odd backslash escapes the tag", parse.where, "an odd backslash makes the tag literal text (the match minus its backslashes); otherwise exactly one Tag is emitted",
              "the tokenizer no longer treats exactly an odd number of backslashes as an escaped tag emitted verbatim without its backslashes")
    okp = all(any(e[0] == "set" and e[1] == "position" and e[2] == f"{mv}.end()" for e in b) for b in bodies)
    ctx.check(okp, parse.fq, "position = end", parse.where, "the cursor moves to the end of every match", "_parse does not advance `position` to the end of the match on every path: text is emitted twice or skipped")


def r4_2(ctx):
    ctx.rule("R4.2", "MarkupError exactly when a closing tag has nothing to close: its only raise sites are the handlers converting the failed pop (KeyError from the by-name pop, IndexError from the top pop); both pops sit inside those try bodies; the by-name pop scans from the top of the stack and removes that entry")
    m = ctx.repo.mod("markup")
    render = m.fn("render")
    raises = []
    for f in m.functions.values():
        for n in walk_local(f.node):
            if isinstance(n, ast.Raise) and n.exc is not None and "MarkupError" in norm(n.exc):
                raises.append((f, n))
    ctx.floor(len(raises), 1, "raise MarkupError sites")
    aliases = alias_map(render.node)
    # the by-name pop: the (nested or module-level) function called in render that raises KeyError
    ps = None
    by_name = None
    for c in walk_local(render.node):
        if isinstance(c, ast.Call) and isinstance(c.func, ast.Name):
            cand = m.functions.get(f"render.<locals>.{c.func.id}") or m.functions.get(c.func.id)
            if cand is not None and any(isinstance(x, ast.Raise) and x.exc is not None and "KeyError" in norm(x.exc) for x in walk_local(cand.node)):
                ps, by_name = cand, c.func.id
    if ps is None:
        raise AnchorVanished("render(): the by-name pop helper (a function raising KeyError when no open tag matches) was not found")
    for f, r in raises:
        h = None
        cur = m.parent_of.get(r)
        while cur is not None:
            if isinstance(cur, ast.ExceptHandler):
                h = cur
                break
            cur = m.parent_of.get(cur)
        where = f"{m.relpath}:{r.lineno}"
        if h is None:
            ctx.violation(f.fq, short(r), where, "MarkupError raised outside the handlers that convert a failed pop: it is raised for something other than a closing tag with nothing to close")
            continue
        tr = m.parent_of.get(h)
        body_calls = [norm(expand_alias(c.func, aliases)) for s in tr.body for c in ast.walk(s) if isinstance(c, ast.Call)]
        ht = norm(h.type) if h.type is not None else "BaseException"
        if ht == "KeyError":
            ok = any(c == by_name for c in body_calls)
        elif ht == "IndexError":
            ok = any(c == "style_stack.pop" for c in body_calls)
        else:
            ok = False
        ctx.check(ok, f.fq, f"except {ht}: {short(r, 50)}", where, f"{ht} from the pop in this try is converted to MarkupError",
                  f"handler `except {ht}` does not wrap the pop that raises it ({body_calls}): a failed close escapes as {ht} or MarkupError is raised spuriously")
    # every pop of the style stack inside render's tag loop is inside a try with the right handler
    for n in walk_local(render.node):
        if isinstance(n, ast.Call):
            cn = norm(expand_alias(n.func, aliases))
            if cn not in (by_name, "style_stack.pop"):
                continue
            # skip the drain loop after the token loop (guarded by `while style_stack`)
            anc = list(_ancestors(m, n, render.node))
            if any(isinstance(a, ast.While) and norm(a.test) == "style_stack" for a in anc):
                continue
            tr = next((a for a in anc if isinstance(a, ast.Try)), None)
            want = "KeyError" if cn == by_name else "IndexError"
            ok = tr is not None and any(h.type is not None and norm(h.type) == want for h in tr.handlers) and any(n in list(ast.walk(s)) for s in tr.body)
            ctx.check(ok, render.fq, short(n), f"{m.relpath}:{n.lineno}", f"pop inside try/except {want}", f"`{short(n)}` is not inside a try that converts {want}: a closing tag with nothing to close raises {want} instead of MarkupError")
    # the by-name pop scans from the top
    stack = "style_stack"
    if ps.parent is None and ps.params:
        # module-level helper: the stack is the parameter that receives render's style_stack
        for c in walk_local(render.node):
            if isinstance(c, ast.Call) and isinstance(c.func, ast.Name) and c.func.id == by_name:
                for i, a in enumerate(c.args):
                    if norm(a) == "style_stack" and i < len(ps.params):
                        stack = ps.params[i]
    ps_aliases = dict(aliases) if ps.parent is not None else {}
    ps_aliases.update(alias_map(ps.node))
    loops = [n for n in walk_local(ps.node) if isinstance(n, ast.For)]
    ok = False
    detail = "no loop"
    for lp in loops:
        it = lp.iter
        detail = norm(it)
        rets = [r for r in ast.walk(lp) if isinstance(r, ast.Return)]
        if isinstance(it, ast.Call) and call_name(it) == "enumerate" and it.args and isinstance(it.args[0], ast.Call) and call_name(it.args[0]) == "reversed" and norm(it.args[0].args[0]) == stack:
            start = const_int(it.args[1]) if len(it.args) > 1 else 0
            idx = norm(lp.target.elts[0]) if isinstance(lp.target, ast.Tuple) else None
            for r in rets:
                v = r.value
                if isinstance(v, ast.Call) and norm(expand_alias(v.func, ps_aliases)) == f"{stack}.pop" and v.args:
                    a = v.args[0]
                    if start == 1 and norm(a) == f"-{idx}":
                        ok = True
                    if start == 0 and norm(a) in (f"-{idx} - 1", f"-({idx} + 1)", f"~{idx}"):
                        ok = True
        # for i in range(len(S) - 1, -1, -1): if S[i]...: return S.pop(i)
        if isinstance(it, ast.Call) and call_name(it) == "range" and len(it.args) == 3 and norm(it.args[0]) == f"len({stack}) - 1" and norm(it.args[1]) == "-1" and norm(it.args[2]) == "-1" and isinstance(lp.target, ast.Name):
            for r in rets:
                v = r.value
                if isinstance(v, ast.Call) and norm(expand_alias(v.func, ps_aliases)) == f"{stack}.pop" and len(v.args) == 1 and norm(v.args[0]) == lp.target.id:
                    ok = True
    verdict = "ok" if ok else None
    if not ok and not loops:
        # search through a list of the open names:  names = [t.name for _, t in reversed(stack)];  pop(-1 - names.index(name))
        from ..astutil import single_defs as _sdf42
        sd42 = _sdf42(ps.node)
        for r in [r for r in walk_local(ps.node) if isinstance(r, ast.Return) and isinstance(r.value, ast.Call)]:
            v = r.value
            if norm(expand_alias(v.func, ps_aliases)) != f"{stack}.pop" or len(v.args) != 1:
                continue
            a = v.args[0]
            idxc = [c for c in ast.walk(a) if isinstance(c, ast.Call) and isinstance(c.func, ast.Attribute) and c.func.attr == "index" and isinstance(c.func.value, ast.Name)]
            if len(idxc) != 1:
                continue
            lst = sd42.get(idxc[0].func.value.id)
            ix = norm(idxc[0])
            detail = norm(a)
            if isinstance(lst, ast.ListComp) and len(lst.generators) == 1:
                src_ = lst.generators[0].iter
                rev = isinstance(src_, ast.Call) and call_name(src_) == "reversed" and norm(src_.args[0]) == stack
                fwd = norm(src_) == stack
                if rev and norm(a).replace(" ", "") in (f"-1-{ix}".replace(" ", ""), f"-({ix}+1)".replace(" ", ""), f"~{ix}".replace(" ", ""), f"-{ix}-1".replace(" ", "")):
                    verdict = "ok"
                elif fwd and norm(a) == ix:
                    verdict = "oldest"
    if verdict is None and loops:
        fwd_loop = any(isinstance(lp.iter, ast.Call) and call_name(lp.iter) == "enumerate" and lp.iter.args and norm(lp.iter.args[0]) == stack for lp in loops) or any(norm(lp.iter) == stack for lp in loops)
        verdict = "oldest" if fwd_loop else None
    if verdict is None:
        raise AnalysisError(f"{ps.fq}: the by-name close (`{detail}`) is written in a form this rule does not read; whether it closes the most recent open tag of that name is not decided")
    ctx.check(verdict == "ok", ps.fq, f"for ... in {detail}", ps.where, "by-name close searches from the top of the stack and pops that entry",
              f"{ps.name} iterates `{detail}`: an explicit closing tag must close the MOST RECENT open tag of that name (scan from the top of the stack and pop that entry)")
    last = ps.node.body[-1]
    raises_key = any(isinstance(x, ast.Raise) and x.exc is not None and "KeyError" in norm(x.exc) for x in walk_local(ps.node))
    if isinstance(last, ast.Raise) and "KeyError" in norm(last):
        ctx.ok(ps.where, "no match -> KeyError (converted by the caller)", ps.fq)
    elif raises_key:
        # raised by a guard in front of the pop (`if name not in names: raise KeyError(name)`): the pop that follows must be reached
        # only when a match exists - the guard tests membership in the very list that is searched
        guard_ok = any(isinstance(x, ast.If) and isinstance(x.test, ast.Compare) and len(x.test.ops) == 1 and isinstance(x.test.ops[0], ast.NotIn) and x.body and isinstance(x.body[-1], ast.Raise) and "KeyError" in norm(x.body[-1]) for x in walk_local(ps.node))
        if guard_ok:
            ctx.ok(ps.where, "no match -> KeyError raised by the membership guard in front of the pop", ps.fq)
        else:
            raise AnalysisError(f"{ps.fq}: KeyError is raised, but not as the last statement nor by a `not in` guard; not decided")
    else:
        ctx.violation(ps.fq, norm(last), ps.where, "pop_style does not raise KeyError when no open tag matches")
    # name comparison uses the normalised name on both sides
    ctx.check("style_name = normalize(style_name)" in norm(render.node) and "_Tag(normalize(tag.name), tag.parameters)" in norm(render.node), render.fq, "normalize on open and close", render.where,
              "open and close names are normalised the same way", "opening and closing tag names are not normalised the same way: [b]..[/bold] would not match")


def _ancestors(m, node, stop):
    cur = m.parent_of.get(node)
    while cur is not None and cur is not stop:
        yield cur
        cur = m.parent_of.get(cur)


def r4_3(ctx):
    ctx.rule("R4.3", "unclosed tags run to the end: after the token loop every remaining stack entry is turned into a span ending at len(text), and `return text` is only reached after that drain loop")
    m = ctx.repo.mod("markup")
    render = m.fn("render")
    g = cfgmod.build(render.node)
    drains = [n for n in g.stmt_nodes() if n.kind == "test" and isinstance(n.stmt, ast.While) and norm(n.stmt.test) == "style_stack"]
    # equivalent form: `for index, tag in reversed(style_stack)` / `in style_stack` after the token loop (every entry visited once)
    drains += [n for n in g.stmt_nodes() if n.kind == "for" and norm(n.stmt.iter) in ("reversed(style_stack)", "style_stack") and _after_token_loop(render, g, n.id)]
    ctx.check(len(drains) == 1, render.fq, "while style_stack:", render.where, "drain loop present", "render() no longer drains the open-tag stack at the end: unclosed tags lose their styling")
    if not drains:
        return
    w = drains[0].stmt
    body = " ; ".join(norm(b) for b in w.body)
    # end offset is len(text) evaluated after the token loop
    end_ok = False
    for b in ast.walk(w):
        if isinstance(b, ast.Call) and norm(b.func) in ("_Span", "Span") and len(b.args) >= 2:
            e = b.args[1]
            if norm(e) == "len(text)":
                end_ok = True
            elif isinstance(e, ast.Name):
                rd = g.reaching_defs(weak=False)
                for nid in g.nodes_of(_stmt_of(m, b)):
                    defs = rd.get(nid, {}).get(e.id, set())
                    if defs and all(norm(getattr(g.nodes[d].stmt, "value", None) or ast.Constant(value=0)) == "len(text)" and _after_token_loop(render, g, d) for d in defs):
                        end_ok = True
    visits_all = isinstance(w, ast.For) or "style_stack.pop()" in body
    ctx.check(visits_all and end_ok, render.fq, short(w), f"{m.relpath}:{w.lineno}", "each leftover tag becomes a span ending at the final text length",
              "the drain loop does not pop every leftover tag into a span that ends at len(text)")
    # return text dominated by the loop's exit
    for n in g.stmt_nodes():
        if n.kind == "stmt" and isinstance(n.stmt, ast.Return) and n.stmt.value is not None and norm(n.stmt.value) == "text":
            ctx.check(g.dominated_by(n.id, {drains[0].id}), render.fq, "return text", f"{m.relpath}:{n.lineno}", "the Text is returned only after the drain loop", "a `return text` bypasses the drain loop")


def _after_token_loop(render, g, node_id: int) -> bool:
    """CFG node `node_id` executes after the token loop: it is not part of the loop and every path to it passes the loop header
    (positions are not used: inlined helper bodies share the line of their call)"""
    lp = None
    for n in walk_local(render.node):
        if isinstance(n, ast.For) and "_parse(" in norm(n.iter):
            lp = n
    if lp is None:
        return False
    inside = set()
    for st in ast.walk(lp):
        if isinstance(st, ast.stmt) and st is not lp:
            inside |= set(g.nodes_of(st))
    headers = set(g.nodes_of(lp)) - inside
    if node_id in inside or not headers:
        return False
    return node_id not in g.reach([g.entry], avoid=headers)


def _token_loop_line(render) -> int:
    for n in walk_local(render.node):
        if isinstance(n, ast.For) and "_parse(" in norm(n.iter):
            return n.lineno
    return 0


def _stmt_of(m, node):
    cur = node
    while not isinstance(cur, ast.stmt):
        cur = m.parent_of[cur]
    return cur


def r4_4(ctx):
    ctx.rule("R4.4", "span precedence is opening order (a tag opened later wins): the span list handed to Text is in the order the tags were opened - either spans are reserved at open time and filled in place on close, or sorted by an opening counter; ordering by (start, end, style) or by closing order is refuted")
    m = ctx.repo.mod("markup")
    render = m.fn("render")
    assign = None
    for n in walk_local(render.node):
        if isinstance(n, ast.Assign) and norm(n.targets[0]) == "text.spans":
            assign = n
    if assign is None:
        raise AnchorVanished("render(): assignment to text.spans not found")
    where = f"{m.relpath}:{assign.lineno}"
    v = assign.value
    aliases = alias_map(render.node)
    # where are spans appended?
    appends = []
    for n in walk_local(render.node):
        if isinstance(n, ast.Call) and norm(expand_alias(n.func, aliases)) == "spans.append":
            appends.append(n)
    # classify every append by the branch facts that hold where it executes (CFG, canonical tests): opening-tag code runs
    # under `tag.name.startswith('/')` false, closing-tag code under it true - however the branches are nested or guarded
    from ..yieldpaths import canon_test
    g = cfgmod.build(render.node)
    open_branch_appends = []
    close_appends = []
    unknown = []
    for a in appends:
        st = _stmt_of(m, a)
        verdict = None
        for nid in g.nodes_of(st):
            for t, tv in g.branch_facts(nid):
                for atom, val in canon_test(t, tv):
                    if "startswith('/')" in atom:
                        verdict = "close" if val else "open"
        if verdict == "open":
            open_branch_appends.append(a)
        elif verdict == "close":
            close_appends.append(a)
        else:
            unknown.append(a)
    if isinstance(v, ast.Name) and v.id == "spans":
        # by-construction order: every append must happen at open time, closes must store in place
        ok = bool(open_branch_appends) and not close_appends and not unknown
        stores = [n for n in walk_local(render.node) if isinstance(n, ast.Subscript) and isinstance(n.ctx, ast.Store) and norm(n.value) == "spans"]
        # the index stored into must come from the stack entry pushed at open time: the push records len(spans) (alone or as the
        # first component) right where the span is reserved
        def records_index(n):
            if not (isinstance(n, ast.Call) and norm(expand_alias(n.func, aliases)) == "style_stack.append" and n.args):
                return False
            a0 = n.args[0]
            return norm(a0) == "len(spans)" or (isinstance(a0, ast.Tuple) and a0.elts and norm(a0.elts[0]) == "len(spans)")
        pushes = [n for n in walk_local(render.node) if records_index(n)]
        push_ok = bool(pushes) and all(any(_stmt_of(m, pu).lineno <= _stmt_of(m, a).lineno and m.parent_of.get(_stmt_of(m, pu)) is m.parent_of.get(_stmt_of(m, a)) for pu in pushes) for a in open_branch_appends)
        if unknown and not close_appends:
            raise AnalysisError(f"render(): cannot tell whether `{short(unknown[0])}` runs for opening or for closing tags; span order cannot be decided")
        ctx.check(ok and stores and push_ok, render.fq, short(assign), where, "spans are reserved when a tag opens (stack entry carries len(spans)) and filled in place when it closes: list order = opening order",
                  "text.spans is the raw span list but spans are appended when tags CLOSE: list order is closing order, so an outer tag closed later overrides the inner tag opened after it")
        return
    if isinstance(v, ast.Call) and call_name(v) == "sorted":
        key = None
        for k in v.keywords:
            if k.arg == "key":
                key = k.value
        if key is None:
            ctx.violation(render.fq, short(assign), where,
                          "spans are sorted as tuples (start, end, style): of two tags opened at the same offset the one that closes later (the OUTER, earlier-opened tag) sorts last and wins - e.g. '[red][blue]x[/blue]y[/red]' shows x in red; the tag opened later must win")
            return
        ktxt = norm(key)
        if "start" in ktxt and "index" not in ktxt and "order" not in ktxt:
            ctx.violation(render.fq, short(assign), where,
                          f"spans are sorted by `{ktxt}` only: ties between tags opened at the same offset fall back to closing order (or its reverse), which is not opening order for overlapping tags")
            return
        raise AnalysisError(f"render(): cannot establish that sort key `{ktxt}` is the opening order")
    raise AnalysisError(f"render(): text.spans assigned from `{norm(v)}` - ordering not understood")


def r4_5(ctx):
    ctx.rule("R4.5", "tag names are matched modulo whitespace on both sides: the closing branch strips the name itself and then calls Style.normalize, the opening branch relies on Style.normalize alone - so every value Style.normalize returns must be whitespace-insensitive (str(parse(..)) or a .strip()ped form)")
    f = ctx.repo.fn("style:Style.normalize")
    from ..astutil import inline as _inl45, single_defs as _sdf45
    sd45 = _sdf45(f.node)
    n = 0
    values = []
    for r in walk_local(f.node):
        if isinstance(r, ast.Return) and r.value is not None:
            if isinstance(r.value, ast.Name) and r.value.id not in sd45:
                # single exit through a local: every value assigned to it is a returned value
                vs = [x.value for x in walk_local(f.node) if isinstance(x, ast.Assign) and any(isinstance(t, ast.Name) and t.id == r.value.id for t in x.targets)]
                values += [(v, r) for v in vs] if vs else [(r.value, r)]
            else:
                values.append((r.value, r))
    for v, r in values:
        n += 1
        e = _inl45(v, sd45)
        txt = norm(e)
        is_parse = isinstance(e, ast.Call) and norm(e.func) == "str" and len(e.args) == 1 and isinstance(e.args[0], ast.Call) and norm(e.args[0].func) in ("cls.parse", "Style.parse")
        is_strip = any(isinstance(c, ast.Call) and isinstance(c.func, ast.Attribute) and c.func.attr == "strip" and not c.args for c in ast.walk(e))
        if not (is_parse or is_strip) and not any(isinstance(nd, ast.Name) and nd.id == f.params[1] for nd in ast.walk(e)):
            raise AnalysisError(f"Style.normalize: returned value `{txt}` is not derived from the argument in a way this rule reads")
        ctx.check(is_parse or is_strip, f.fq, short(v), f"{f.module.relpath}:{getattr(v, 'lineno', r.lineno)}", "normal form does not depend on surrounding whitespace",
                  f"Style.normalize returns `{txt}`, which keeps leading/trailing whitespace: an opening tag written `[name ]` is stacked under a different name than the `[/name]` that should close it (MarkupError, and the theme style is not found)")
    ctx.floor(n, 2, "returned values of Style.normalize")
    # what is parsed is the definition itself: case folding belongs to the words parse() recognises, not to the whole string
    # (a link URL is part of the definition and is case sensitive)
    par45 = f.params[1]
    for c in walk_local(f.node):
        if isinstance(c, ast.Call) and norm(c.func) in ("cls.parse", "Style.parse") and c.args:
            seen45, work45, folded = set(), [c.args[0]], None
            while work45:
                e = work45.pop()
                for nd in ast.walk(e):
                    if isinstance(nd, ast.Call) and isinstance(nd.func, ast.Attribute) and nd.func.attr in ("lower", "upper", "casefold", "title", "swapcase", "capitalize"):
                        folded = nd
                    if isinstance(nd, ast.Name) and nd.id not in seen45:
                        seen45.add(nd.id)
                        for x in walk_local(f.node):
                            if isinstance(x, ast.Assign) and any(isinstance(t, ast.Name) and t.id == nd.id for t in x.targets) and x.lineno <= c.lineno:
                                work45.append(x.value)
            ctx.check(folded is None, f.fq, short(c), f"{f.module.relpath}:{c.lineno}", "the definition is parsed as written",
                      f"Style.normalize case-folds the whole definition (`{short(folded) if folded is not None else ''}`) before parsing it: parse(normalize(d)) is no longer parse(d) for a definition with a link - `bold link https://Example.org/Path` gets a lower-cased URL")
    m = ctx.repo.mod("markup")
    render = m.fn("render")
    stripped_close = any(isinstance(c, ast.Call) and isinstance(c.func, ast.Attribute) and c.func.attr == "strip" and isinstance(c.func.value, ast.Subscript) and isinstance(c.func.value.slice, ast.Slice)
                         and const_int(c.func.value.slice.lower) == 1 and c.func.value.slice.upper is None and isinstance(c.func.value.value, ast.Attribute) and c.func.value.value.attr == "name"
                         for c in ast.walk(render.node))
    ctx.check(stripped_close, render.fq, "closing name stripped", render.where, "closing tag name is stripped before normalisation", "the closing tag name is no longer stripped")


def r4_6(ctx):
    from .c06 import r6_4
    from .common import borrow
    borrow(ctx, r6_4, "R6.4", "R4.6", " [a tag opened later takes precedence: span styles are combined with Style.__add__, which must be right-biased including for attributes a later tag switches off]")


def r4_7(ctx):
    from .common import return_forms
    ctx.rule("R4.7", "reserved span slots are stable and escape() only escapes: (a) in render() the span list is only appended to and stored into in place - never shrunk or reordered (the open-tag stack holds indices into it, so removing a slot makes every later index point at the wrong span); (b) every path of escape() returns exactly the result of <regex>.sub(callback, markup) - nothing is appended to or cut from the text outside the tag matches")
    m = ctx.repo.mod("markup")
    render = m.fn("render")
    aliases = alias_map(render.node)
    bad = []
    for x in walk_local(render.node):
        if isinstance(x, ast.Delete) and any(isinstance(t, ast.Subscript) and norm(t.value) == "spans" for t in x.targets):
            bad.append(x)
        if isinstance(x, ast.Call) and isinstance(x.func, ast.Attribute) and norm(expand_alias(x.func.value, aliases)) == "spans" and x.func.attr in ("pop", "remove", "clear", "insert", "sort", "reverse"):
            bad.append(x)
        if isinstance(x, ast.Assign) and any(isinstance(t, ast.Subscript) and isinstance(t.slice, ast.Slice) and norm(t.value) == "spans" for t in x.targets):
            bad.append(x)
    for b in bad:
        ctx.violation(render.fq, short(b), f"{m.relpath}:{b.lineno}", f"`{short(b)}` removes or moves an entry of the reserved span list while the open-tag stack still holds indices into it: tags opened later now close the wrong span (lost or misplaced styles, or IndexError)")
    ctx.check(not bad, render.fq, "spans only grow", render.where, "the span list is only appended to / stored into in place", "the span list is shrunk or reordered in render()")
    esc = m.fn("escape")
    _m, _tags, _fn, (cb, rx, sub_call) = _regexes(ctx)
    forms = return_forms(esc, depth=0)
    ok = bool(forms)
    detail = ""
    from ..astutil import inline as _inl, single_defs as _sdf
    sd = _sdf(esc.node)
    sub_txt = norm(sub_call)
    # the parameter may be re-bound to the substitution result before being returned
    for facts, v in forms:
        txt = norm(_inl(v, sd))
        if txt != sub_txt:
            # `markup = _escape(..., markup); return markup` - resolved by return_forms already; anything else is extra processing
            ok = False
            detail = txt
    ctx.check(ok, esc.fq, detail[:160] or sub_txt[:160], esc.where, "escape() returns the substitution result unchanged on every path",
              f"escape() returns `{detail[:120]}` on some path, not just the result of the tag-escaping substitution: text without tags is changed too (e.g. a backslash is appended), so render(escape(s)) != s")


def r4_8(ctx):
    ctx.rule("R4.8", "a tag's parameter reaches the style verbatim: in markup._parse the expression stored as the Tag's parameters is derived from the text the regex matched by splitting only (partition / find + slices / group access, through temporaries) - no case folding, stripping or replacing is applied on the way (Style.normalize folds the NAME later; a link URL or any other parameter is case sensitive)")
    from ..astutil import single_defs as _sdf
    f = ctx.repo.fn("markup:_parse")
    m = f.module
    sd = dict(_sdf(f.node))
    part = {}
    for x in walk_local(f.node):
        if isinstance(x, ast.Assign) and isinstance(x.targets[0], ast.Tuple) and isinstance(x.value, ast.Call) and isinstance(x.value.func, ast.Attribute) and x.value.func.attr in ("partition", "rpartition", "split", "groups"):
            for e in x.targets[0].elts:
                if isinstance(e, ast.Name):
                    part[e.id] = x.value
    FOLD = {"lower", "upper", "casefold", "title", "swapcase", "capitalize", "strip", "lstrip", "rstrip", "replace", "translate", "expandtabs"}
    SPLIT = {"partition", "rpartition", "split", "find", "index", "rfind", "group", "groups", "start", "end", "span"}
    tags = [c for c in walk_local(f.node) if isinstance(c, ast.Call) and norm(c.func) in ("_Tag", "Tag") and len(c.args) >= 2]
    ctx.floor(len(tags), 1, "Tag constructions in _parse")
    for c in tags:
        seen, work, bad, unknown, cut = set(), [c.args[1]], [], [], []
        # a starred unpack target (`name, *rest = ..`) binds pieces of its right-hand side too
        for x in walk_local(f.node):
            if isinstance(x, ast.Assign) and isinstance(x.targets[0], ast.Tuple):
                for e_ in x.targets[0].elts:
                    if isinstance(e_, ast.Starred) and isinstance(e_.value, ast.Name):
                        part.setdefault(e_.value.id, x.value)
                    elif isinstance(e_, ast.Name):
                        part.setdefault(e_.id, x.value)
        while work:
            e = work.pop()
            for n_ in ast.walk(e):
                if isinstance(n_, ast.Name) and n_.id not in seen:
                    seen.add(n_.id)
                    if n_.id in part:
                        work.append(part[n_.id])
                    elif n_.id in sd:
                        work.append(sd[n_.id])
                if isinstance(n_, ast.Call):
                    if isinstance(n_.func, ast.Attribute):
                        if n_.func.attr in FOLD:
                            bad.append(n_)
                        elif n_.func.attr in ("split", "rsplit") and n_.args and len(n_.args) < 2 and not n_.keywords:
                            cut.append(n_)  # every separator splits: a piece ends at the NEXT separator, the rest is lost
                        elif n_.func.attr not in SPLIT:
                            unknown.append(n_)
                    elif norm(n_.func) not in ("len", "_Tag", "Tag"):
                        unknown.append(n_)
        where = f"{m.relpath}:{c.lineno}"
        if cut:
            ctx.violation(f.fq, short(c), where, f"the tag's parameter is a piece of `{short(cut[0])}`, which splits at EVERY separator: a parameter that contains the separator itself ([link=https://example.org/?q=rich]) is cut at its second occurrence - use partition() or split(sep, 1)")
        elif bad:
            ctx.violation(f.fq, short(c), where, f"the tag's parameter is derived through `{short(bad[0])}`: the parameter text is altered before it is stored - [link=https://Example.org/Page?Q=1] becomes a link to https://example.org/page?q=1")
        elif unknown:
            raise AnalysisError(f"markup._parse: the tag's parameter passes through `{short(unknown[0])}`; not decided")
        else:
            ctx.ok(where, "the parameter part is split off the matched text and stored unchanged", f.fq)


def r4_9(ctx):
    from .c06 import r6_5
    from .common import borrow
    borrow(ctx, r6_5, "R6.5", "R4.9", " [a tag styles its region through the definition str(style) that markup stores in the span: __str__ must name every attribute the tag set]")


def r4_10(ctx):
    from .c05 import r5_13
    from .common import borrow
    borrow(ctx, r5_13, "R5.13", "R4.10", " [a tag opened later takes precedence also when the same tag was open before: render must combine every open span, repeated ones included]")


def r4_11(ctx):
    ctx.rule("R4.11", "the open-tag stack is the only record of what is open: a set of tag NAMES kept next to it in markup.render (added on open, discarded on close) forgets that a name can be open twice - after [bold]a[bold]b[/bold] the set says bold is closed and the next [/bold] is rejected with a MarkupError although a bold tag is still open")
    m = ctx.repo.mod("markup")
    f = m.fn("render")
    sets = set()
    for x in walk_local(f.node):
        tgt = val = None
        if isinstance(x, ast.Assign) and len(x.targets) == 1:
            tgt, val = x.targets[0], x.value
        elif isinstance(x, ast.AnnAssign) and x.value is not None:
            tgt, val = x.target, x.value
        if isinstance(tgt, ast.Name) and ((isinstance(val, ast.Call) and norm(val.func) in ("set", "frozenset") and not val.args) or isinstance(val, ast.Set)):
            sets.add(tgt.id)
    n = 0
    for sname in sorted(sets):
        adds = [c for c in walk_local(f.node) if isinstance(c, ast.Call) and isinstance(c.func, ast.Attribute) and norm(c.func.value) == sname and c.func.attr == "add"]
        rems = [c for c in walk_local(f.node) if isinstance(c, ast.Call) and isinstance(c.func, ast.Attribute) and norm(c.func.value) == sname and c.func.attr in ("discard", "remove", "pop")]
        tests = [c for c in walk_local(f.node) if isinstance(c, ast.Compare) and any(isinstance(o, (ast.In, ast.NotIn)) for o in c.ops) and norm(c.comparators[0]) == sname]
        if adds and rems and tests and any("name" in norm(a.args[0]) for a in adds if a.args):
            n += 1
            ctx.violation(f.fq, short(rems[0]), f"{m.relpath}:{rems[0].lineno}", f"`{sname}` mirrors the open-tag stack as a SET of names (`{short(adds[0])}` on open, `{short(rems[0])}` on close) and is consulted by `{short(tests[0])}`: when the same name is open twice, closing one removes the name although the other is still open - a valid closing tag is then rejected")
    if not n:
        ctx.ok(f.where, "no set of tag names shadows the open-tag stack", f.fq)


def r4_13(ctx):
    ctx.rule("R4.13", "text that is not an emoji code stays verbatim: render() passes plain text through _emoji_replace; for a `:name:` that is not in the emoji table the replacement callback must hand back exactly what the regex matched - the fall-back of the table look-up is the whole match (group 0, or a group that spans the whole pattern), not a string rebuilt from a case-folded name (`at 10:AM: sharp` would come back as `at 10:am: sharp`). Known finding: escape() does not neutralise emoji codes at all, so render(escape(':a:')) is an emoji")
    import re as _re
    m = ctx.repo.mod("_emoji_replace")
    f = m.functions.get("_emoji_replace")
    if f is None:
        raise AnchorVanished("_emoji_replace:_emoji_replace not found")
    # the regex and its callback
    pats = [c for c in ast.walk(f.node) if isinstance(c, ast.Call) and norm(c.func) in ("re.compile", "compile") and c.args and isinstance(c.args[0], ast.Constant) and isinstance(c.args[0].value, str)]
    for g_ in m.tree.body:
        if isinstance(g_, ast.Assign) and isinstance(g_.value, ast.Call) and norm(g_.value.func) in ("re.compile", "compile") and g_.value.args and isinstance(g_.value.args[0], ast.Constant):
            pats.append(g_.value)
    if len(pats) != 1:
        raise AnalysisError(f"_emoji_replace: expected exactly one emoji regex, found {len(pats)}")
    pattern = pats[0].args[0].value
    import re._parser as _sp  # regex AST only, nothing is matched
    parsed = _sp.parse(pattern)
    whole_groups = {0}
    if len(parsed) == 1 and parsed[0][0] == _sp.SUBPATTERN and parsed[0][1][0]:
        whole_groups.add(parsed[0][1][0])  # one capture group around the whole pattern
    cbs = [x for x in ast.walk(f.node) if isinstance(x, ast.FunctionDef) and x is not f.node and len(x.args.args) == 1]
    lambdas = [x for x in ast.walk(f.node) if isinstance(x, ast.Lambda) and len(x.args.args) == 1]
    if len(cbs) + len(lambdas) != 1:
        raise AnalysisError("_emoji_replace: the replacement callback (one function of the match object) was not found")
    cb = (cbs + lambdas)[0]
    mp = cb.args.args[0].arg
    # names bound to groups
    group_of = {}
    body = cb.body if isinstance(cb.body, list) else []
    for x in [y for st in body for y in ast.walk(st)]:
        if isinstance(x, ast.Assign) and len(x.targets) == 1:
            t, v = x.targets[0], x.value
            if isinstance(t, ast.Tuple) and isinstance(v, ast.Call) and norm(v.func) == f"{mp}.groups":
                for i, e in enumerate(t.elts):
                    if isinstance(e, ast.Name):
                        group_of[e.id] = i + 1
            elif isinstance(t, ast.Name):
                gi = _group_index(v, mp)
                if gi is not None:
                    group_of[t.id] = gi
    # the table look-up(s) with a fall-back
    aliases = alias_map(f.node)
    aliases.update(alias_map(cb) if isinstance(cb, ast.FunctionDef) else {})
    looks = []
    for x in ast.walk(cb):
        if isinstance(x, ast.Call):
            fn_ = expand_alias(x.func, aliases) if isinstance(x.func, ast.Name) else x.func
            if isinstance(fn_, ast.Attribute) and fn_.attr == "get" and norm(fn_.value).endswith("EMOJI") and len(x.args) == 2:
                looks.append(x)
    if not looks:
        raise AnalysisError("_emoji_replace: no EMOJI.get(name, fall-back) look-up in the callback; the verbatim clause is written differently and not decided")
    FOLD = {"lower", "upper", "casefold", "title", "swapcase", "capitalize", "strip", "lstrip", "rstrip", "replace"}
    for lk in looks:
        d = lk.args[1]
        where = f"{m.relpath}:{lk.lineno}"
        gi = group_of.get(d.id) if isinstance(d, ast.Name) else _group_index(d, mp)
        if gi is not None:
            ctx.check(gi in whole_groups, f.fq, short(lk), where, f"the fall-back is group {gi}, the whole match", f"the fall-back of `{short(lk)}` is group {gi} of `{pattern}`, which is not the whole match: text around an unknown `:name:` is dropped or duplicated")
            continue
        # a rebuilt string: which names does it use, and were they folded?
        used = {y.id for y in ast.walk(d) if isinstance(y, ast.Name)}
        folded = any(isinstance(y, ast.Call) and isinstance(y.func, ast.Attribute) and y.func.attr in FOLD for y in ast.walk(d))
        for nm in used:
            for st in [y for st_ in body for y in ast.walk(st_)]:
                if isinstance(st, ast.Assign) and any(isinstance(t_, ast.Name) and t_.id == nm for t_ in st.targets) and any(isinstance(y, ast.Call) and isinstance(y.func, ast.Attribute) and y.func.attr in FOLD for y in ast.walk(st.value)):
                    folded = True
        if folded:
            ctx.violation(f.fq, short(lk), where, f"the fall-back of `{short(lk)}` is rebuilt from a case-folded / stripped name (`{norm(d)}`): a `:Name:` that is not an emoji is not handed back as it was written")
        else:
            raise AnalysisError(f"_emoji_replace: the fall-back `{norm(d)}` is neither a match group nor a visibly folded string; not decided")
    # escape() and emoji codes: render() replaces emoji in text by default, escape() only protects tags
    r = ctx.repo.fn("markup:render")
    e = ctx.repo.fn("markup:escape")
    ep = [a.arg for a in r.node.args.args]
    defaults = default_args(r.node)
    emoji_default = defaults.get("emoji")
    applies = any(isinstance(c, ast.Call) and norm(expand_alias(c.func, alias_map(r.node)) if isinstance(c.func, ast.Name) else c.func).endswith("_emoji_replace") for c in walk_local(r.node))
    docs = {id(x.body[0].value) for x in ast.walk(e.node) if isinstance(x, (ast.FunctionDef, ast.AsyncFunctionDef)) and x.body and isinstance(x.body[0], ast.Expr) and isinstance(x.body[0].value, ast.Constant)}
    esc_touches_colon = any(isinstance(c, ast.Constant) and isinstance(c.value, str) and ":" in c.value and id(c) not in docs for c in ast.walk(e.node))
    if "emoji" in ep and applies:
        on_by_default = isinstance(emoji_default, ast.Constant) and emoji_default.value is True
        ctx.check(not on_by_default or esc_touches_colon, r.fq, "render(escape(s)) with emoji codes", r.where,
                  "emoji replacement is off by default or escape() handles `:`",
                  "render() replaces `:name:` emoji codes in text by default (emoji=True) and escape() leaves them alone: render(escape(':a:')) is an emoji character, not ':a:' - escaped text with a colon-delimited emoji name does not come back verbatim")


def _group_index(v, mp):
    """k for match.group(k) / match[k] / match.group() on the match parameter mp, else None"""
    if isinstance(v, ast.Call) and norm(v.func) == f"{mp}.group" and not v.keywords:
        if not v.args:
            return 0
        if len(v.args) == 1 and isinstance(v.args[0], ast.Constant) and type(v.args[0].value) is int:
            return v.args[0].value
    if isinstance(v, ast.Subscript) and norm(v.value) == mp and isinstance(v.slice, ast.Constant) and type(v.slice.value) is int:
        return v.slice.value
    return None


def r4_12(ctx):
    from .common import memo_rule
    memo_rule(ctx, "R4.12", ["markup", "_emoji_replace"], 0)
    ctx.rules_applied["R4.12"] += " [a tag styles its region with ITS parameters: a cache of normalised tags or of replacements in the markup renderer must be keyed by everything the cached value is built from - the tag's name AND its parameters - or the second [link=B] of a document gets the first one's URL]"


RULES = [r4_1, r4_2, r4_3, r4_4, r4_5, r4_6, r4_7, r4_8, r4_9, r4_10, r4_11, r4_12, r4_13]
