"""Regenerate /verif/MANIFEST.json from the per-property table below:  python -m sa.manifest_gen"""
from __future__ import annotations

import json
import os

from .check import load_rules

VERIF = os.path.dirname(os.path.dirname(os.path.abspath(__file__)))

BASELINE = "cd /repo && /venv/bin/python -m pytest -ra -q -p no:cacheprovider --timeout=900 --continue-on-collection-errors"

COMMON_NOTE = (
    "Trusted base: CPython's ast parser and the Python semantics of the constructs the rules interpret; "
    "rich is never imported or executed. Dynamic dispatch to user classes, monkey-patching and subclass overrides outside rich/ are not seen. "
)

# property -> dict(category, text, note, technique, design_ref)
CLAIMS = {
    "C02": dict(
        category="other",
        text="Necessary structural conditions only (the break positions themselves are cell-width arithmetic over all strings and are NOT decided): (R2.1) Text.divide cuts the plain text into the consecutive slices between [0, *offsets, len], so division itself cannot drop, duplicate or reorder a character, and re-bases clipped spans to their line; (R2.2) Text.wrap computes the offsets on the very line it divides, with the requested width, folding exactly for overflow='fold', after tab expansion, and returns every produced line; "
             "(R2.3) per-line span lists are restored to source order (so each character keeps its effective style); (R2.4) units: divide_line compares cells with cells and records character offsets, never mixing them, and chops a word only when it alone exceeds the width under fold, continuing at the current line position; (R2.5) chop_cells places every character exactly once and breaks exactly on overflow; (R2.6) only trailing whitespace is removed at line ends. "
             "Breaking any of these breaks the property for some input; passing them does not establish it.",
        note=COMMON_NOTE + "Earlier rounds listed C02 as not applicable; it is now claimed only at the necessary-condition level (DESIGN.md section 8 / 11).",
        technique="structural partition check, identity dataflow of offsets, units (cells vs characters) analysis, borrowed order-preservation and chop rules",
        design_ref="8 / 11",
    ),
    "C06": dict(
        category="other",
        text="Static rules over rich/style.py decide, for every input, the structural clauses of the property: (R6.1) __eq__ and the hash use the same fields; "
             "(R6.2) on every __new__ construction route each derived slot (_hash, _style_definition, _ansi) is recomputed from the new object's own fields, reset for lazy refill, or copied only when all fields it depends on are copied unchanged - this is 'equal styles hash equal however constructed' and 'str() reflects a link update'; "
             "(R6.3) every route fills every slot; (R6.4) per-bit truth tables of the extracted & | ~ expressions prove right-bias, the attr-subset-of-set invariant and associativity of __add__, the colour/link picks are right-biased and null operands return the other operand; "
             "(R6.5) the attribute<->bit mapping agrees across _Bit descriptors, __init__ weights, __str__ words, parse() vocabulary and SGR emission; (R6.7) the _null flag can only be True on an empty style. "
             "Not decided: lru_cache interactions, URLs with whitespace, Color.parse accepting every Color.name value.",
        note=COMMON_NOTE + "Assumes tuple hashing is a function of element equality and Color is hashable by value (NamedTuple).",
        technique="field-dependency dataflow over construction routes + per-bit truth tables of extracted bitwise expressions + table agreement",
        design_ref="5/C06",
    ),
    "C13": dict(
        category="other",
        text="Static rules decide the structural clauses: (R13.1) the width table is well-formed for binary search (sorted, disjoint, widths in {-1,0,1,2}), agrees with the ASCII shortcut and has no writer - exhaustive over all entries; "
             "(R13.2) the search moves only the correct bound strictly past the probe on each comparison outcome, returns the table width on a hit and 1 on a miss; "
             "(R13.3/R13.6) every cache in cells.py/_lru_cache.py/segment.py is transparent: same key for lookup and store, stored value = returned value, value depends only on the key (def-use closure incl. control dependence) and never-written constants - this is 'regardless of what was measured before'; "
             "(R13.4) the style of every padding segment/helper has the `style` parameter as its only reaching definition; (R13.5) pad counts and crop targets are exactly requested length minus measured cells (linear forms + reaching definitions). "
             "Not decided: the table equals Unicode, chop_cells for all strings, character/style preservation of cropped lines.",
        note=COMMON_NOTE + "functools.lru_cache and OrderedDict behave as documented.",
        technique="literal-table validation + role-based check of the binary search + memoisation soundness by def-use/control-dependence closure + reaching definitions + linear forms",
        design_ref="5/C13",
    ),
    "C18": dict(
        category="proof",
        text="Abstract interpretation (intervals x enum constants x records, path-forking with refinement; sa/absint.py) of Color.downgrade for all 5 colour types x 4 target systems and of Color.get_ansi_codes for all types x fg/bg, "
             "over ALL component/number values at once: proves every result is in gamut ([0,15] for standard/windows, [0,255] else), default and already-representable colours return self, re-conversion returns the result unchanged, greys land on {16,231} U [232,255], the cube index is 16+36r+6g+b, no path raises or indexes a palette out of range, "
             "and the SGR parameter forms are exactly 39/49, 30-37/90-97, 40-47/100-107, 38;5;n, 38;2;r;g;b. (R18.5) match() is builtin min over every palette index keyed by a distance that pairs like components; (R18.6) caches in color/palette are sound; (R18.7) all construction sites classify numbers 0..255 identically. "
             "Obligations = (case, path) pairs; all must be discharged. Not decided: palette contents are the colours terminals use; the metric's weights.",
        note=COMMON_NOTE + "colorsys.rgb_to_hls maps [0,1]^3 to [0,1]^3; round is monotone; builtin min(key=) is an argmin; colours satisfy the constructor invariants (number/component ranges).",
        technique="abstract interpretation (interval/enum/record domains) of the conversion code over all colour types x systems",
        design_ref="5/C18",
    ),
    "C10": dict(
        category="other",
        text="Decides the fault clause and the structural necessary conditions of the screen clause. (R10.1) In the CFG of Live.stop / Progress.stop with exceptional edges out of every may-raise statement, every path from the `_started = False` store to ANY exit (normal or raising) passes through each release matching an acquisition made by start() (show_cursor(True), _disable_redirect_io, pop_render_hook); __exit__ of Live/Progress/Status reaches stop() on every path and returns falsy; the redirect slots are restored pairwise. "
             "(R10.2) the stored frame shape is get_shape of exactly the lines emitted (reaching definitions incl. slicing/append; or set_shape to the stored shape). (R10.3) cursor-ups/erases in position_cursor/restore_cursor are h-1/h and h/h as linear forms of the stored height and the writers emit len(lines)-1 newlines. (R10.4) both hooks wrap prints as [eraser, *output, frame] and print/log apply hooks before rendering. "
             "Not decided: the terminal-model replay over histories, tall frames, faults inside the release calls.",
        note=COMMON_NOTE + "Fault model: any statement of stop() other than the three release calls may raise.",
        technique="CFG must-pass-through with exceptional edges (typestate pairing) + reaching definitions + linear forms of control strings",
        design_ref="5/C10",
    ),
    "C11": dict(
        category="other",
        text="Decides the lock discipline the property rests on, for all schedules, from the code: (R11.1) every write/flush on a Console's file holds Console._lock (lexically or on entry from every caller; Console.input's prompt echo is the one named exception); (R11.2) in _check_buffer the snapshot, its rendering/recording, the buffer clear and the single write of that string are in ONE Console._lock region guarded by _buffer_index == 0; "
             "(R11.3) the buffer and nesting counter live in a threading.local subclass with per-thread default_factory and are never replaced; (R11.4) _record_buffer is only touched under _record_buffer_lock, the live renderer's state only under Live._lock; (R11.5) the lock-order graph over the four RLocks (may-held x acquires-transitively over a class-hierarchy call graph) is acyclic; (R11.6) no Thread.join while a lock the thread's run() needs may be held. "
             "These are necessary conditions: failing one admits an interleaving that breaks the property. Not decided: actual interleavings, the composed screen invariant.",
        note=COMMON_NOTE + "RLock/threading.local semantics; user file objects and user renderables take no rich locks; call resolution as listed in evidence (unresolved calls are to builtins/stdlib/user objects).",
        technique="lock-region (guarded-by) analysis, held-on-entry fixpoint over a resolved call graph, lock-order graph acyclicity, join-under-lock check",
        design_ref="5/C11",
    ),
    "C12": dict(
        category="other",
        text="Decides atomicity and the structural clauses: (R12.1) every access to a Task's counters and to Progress._tasks/_task_index in Progress methods and their helpers holds Progress._lock (no lost update under any interleaving); (R12.2) every speed sample's timestamp is read inside the lock region that appends it (samples are time-ordered, so speed cannot go negative with non-negative advances); "
             "(R12.3) every store to completed/total is followed on every path by the finish test (>=, finished_time is None) or a reset, finished_time has no other writer, total changes reset it; (R12.4) percentage is proved 0 for a zero total and within [0,100] otherwise by abstract interpretation, every division in Task properties is dominated by a non-zero test; (R12.5) track() iterates the sequence itself, yields each element once and counts exactly one unit after the yield; the helper thread flushes its final count. "
             "Not decided: arithmetic identities over whole histories, estimate values.",
        note=COMMON_NOTE + "RLock semantics; ProgressColumn subclasses supplied by users read tasks only through Progress (under its lock).",
        technique="guarded-by analysis with held-on-entry, reaching definitions of timestamps vs lock regions, CFG must-pass-through, abstract interpretation of clamps, dominance of zero tests",
        design_ref="5/C12",
    ),
    "C03": dict(
        category="other",
        text="Decides the structural clauses of the stream property for every input: (R3.1) each escape template of Style.render pairs SGR-open with ESC[0m and OSC-8 open with its close after the text (no leak); (R3.2) escape-carrying returns are dominated by the `color_system is None` exit and the buffer renderer passes the console's own colour system (colour disabled => no escapes); "
             "(R3.3) under NO_COLOR the emit loop iterates Segment.remove_color(buffer), which maps every style through without_color, which clears both colours, and colour codes are only emitted under `is not None`; (R3.4) every append in the emit loop is dominated by `not (not_terminal and is_control)` (no control codes on a non-terminal); "
             "(R3.5/R3.7) memoisation soundness of every cache in style/console/segment/color and of the derived _ansi slot on every construction route (history independence); (R3.6) control codes enter only as control segments. Down-conversion/parameter forms are proved under C18. Not decided: full decoder-model equivalence, colorama.",
        note=COMMON_NOTE + "ECMA-48 / OSC-8 meanings of the literal sequences.",
        technique="f-string template analysis, CFG dominance/branch facts, reaching definitions, memoisation-soundness dataflow",
        design_ref="5/C03",
    ),
    "C04": dict(
        category="other",
        text="(R4.1) escape()'s regex and the tokenizer's RE_TAGS have equal normal forms (re._parser ASTs, capture groups flattened), arities match their unpack sites, the replacement doubles backslashes and adds one, the tokenizer halves them; (R4.2) MarkupError is raised only in the handlers converting the failed pops, both pops are inside those trys, the by-name close scans from the top; "
             "(R4.3) `return text` is dominated by the loop draining unclosed tags to len(text); (R4.4) the span list handed to Text is in tag OPENING order by construction (spans reserved at open time), so a tag opened later wins. Necessary conditions of the property; not decided: the regex's behaviour on all strings, per-character equality.",
        note=COMMON_NOTE + "Text.render applies spans in list order (C05).",
        technique="regex-AST normal-form comparison, handler/raise-site structure, CFG dominance, ordering-by-construction check",
        design_ref="5/C04",
    ),
    "C05": dict(
        category="other",
        text="(R5.0) only rich/text.py writes Text's _text/_length/_spans; (R5.1) symbolic length algebra (linear forms over len() atoms with reaching definitions) proves for every method that stores fragments that `_length == len(''.join(_text))` is preserved - same expression stored and measured, re-measure after store, append x with += len(x) for the same x, accumulators in step; shortening slices need a discharged side condition; "
             "(R5.2) span offsets shift by exactly the inserted length, read before _length is updated; (R5.3) stylize/highlight*/copy_styles/highlighters reach no store to characters in their call-graph closure; (R5.4) every span-list rewrite is order preserving, divide() re-sorts by source index, render combines in list order; (R5.5) strings entering through __init__/append(str) pass strip_control_codes. "
             "Decides `len() equals the length of the string` and `style-only operations never change characters` for all inputs; the rest are necessary conditions. Not decided: equality with a reference string model, cell-width dependent operations, tab-stop arithmetic of expand_tabs.",
        note=COMMON_NOTE + "String length identities (concatenation, repetition of a 1-char string, join).",
        technique="symbolic linear length algebra over reaching definitions, who-may-write scan, call-graph closure, order-preservation check",
        design_ref="5/C05",
    ),
    "C14": dict(
        category="other",
        text="Exception-escape (effect) analysis from each parser entry point (Color.parse, Style.parse/normalize, markup render / Text.from_markup, Console.get_style, AnsiDecoder.decode*, Text.__init__, strip_control_codes, escape): only the documented exception type can escape, over precise raise sources - explicit raises, int()/float() on strings not proven digit-only by regex-group provenance or a sound predicate (isdigit() alone is unsound), bare next(), unguarded unpacking of split() results, unguarded dict-table lookups - propagated through resolved callees and subtracted by enclosing handlers along the exception class hierarchy; "
             "(R14.2) no bare next() in any generator of the package (PEP 479); (R14.3) get_style converts StyleSyntaxError; (R14.4) premises of the accepted call edges are themselves checked. Decides the parser clause for all strings w.r.t. the enumerated sources. Not decided: 'printing/rendering any tree never raises' as a whole-library effect.",
        note=COMMON_NOTE + "int() accepts any non-empty string of Unicode decimal digits; callee summaries listed in evidence assumptions.",
        technique="interprocedural exception-escape analysis with regex-provenance of int() arguments",
        design_ref="5/C14",
    ),
    "C15": dict(
        category="other",
        text="(R15.1) the record is extended at exactly one point, unfiltered, with the very snapshot that is rendered and written, in the same Console._lock region and under the same _buffer_index == 0 guard as the write (so captured output is never recorded and record order = file order); (R15.2) exports mutate the record only by `del record[:]` under `if clear`; "
             "(R15.3) begin_capture opens a buffer context, end_capture renders and clears the thread buffer before leaving it, Capture.__exit__ ends the capture on every path; (R15.4) every HTML fragment passes escape() whose chain handles & first, control segments are filtered; (R15.5) plain export is exactly the non-control segments; (R15.6) simplify merges only when both operands are non-control. Not decided: equality of the four outputs over histories.",
        note=COMMON_NOTE,
        technique="def-use / same-region analysis of the recording site, CFG dominance and must-pass-through, template/chain checks",
        design_ref="5/C15",
    ),
    "C16": dict(
        category="other",
        text="(R16.1) every _BRACES factory returns (open, close, empty) with no unformatted replacement field, mirrored brackets and matching constructor names; (R16.2) in _traverse every path from push_visited(id) to the exit passes pop_visited(id) and every recursive call is dominated by the visited test + push (cycles terminate; shared objects are not mistaken for cycles); "
             "(R16.3) abbreviation counts are size - N for the same N that limits what is shown; (R16.4) both serialisers keep the one-element-tuple comma and the ', ' separators. Necessary conditions; not decided: eval(repr) == value for all inputs, fits-on-one-line arithmetic.",
        note=COMMON_NOTE,
        technique="template checks on the brace table, CFG must-pass-through typestate for the visited set, def-use agreement of abbreviation counts",
        design_ref="5/C16",
    ),
    "C17": dict(
        category="other",
        text="(R17.1) every lexer whose tokens are displayed is created with stripnl=False; (R17.2) no bare next() in the generators of syntax/traceback and tokens before a range are still emitted; (R17.3) the first displayed number is start_line + the very lower bound that slices the line list, offset = max(0, range_start-1), slice end = range end, gutter from start_line + newline count; "
             "(R17.4) token text flows unchanged from get_tokens to append_tokens on both paths and the fallback appends the code; (R17.5) traceback frames build line_range and highlight_lines from the same frame.lineno over the whole file text; (R17.6) no cache in traceback/syntax depends on file contents or other impure state. Necessary conditions; Pygments' token stream is trusted.",
        note=COMMON_NOTE + "Pygments documentation of stripnl.",
        technique="dataflow on lexer construction, PEP-479 scan, linear agreement of numbering and slicing, memoisation soundness",
        design_ref="5/C17",
    ),
    "C19": dict(
        category="other",
        text="(R19.1) for every attribute bit the encoder's SGR parameter maps in the decoder table to that attribute; (R19.2) for all 16 standard colours x fg/bg the code computed by abstract evaluation of Color.get_ansi_codes maps back to color(n)/on color(n), 39/49 to default; (R19.3) 38/48 x 5/2 branches read exactly the parameters the encoder writes into the right slot; "
             "(R19.4) SGR 0 resets, the OSC-8 template matches the decoder regex and the URL is everything after the parameter field; (R19.5) every console.print in FileProxy is data-only (markup/emoji/highlight off) and decoded; (R19.6) buffer typestate: pending text is never reused after the clear and never cleared unread. Table agreement is exhaustive over the tables; the rest are necessary conditions. Not decided: per-character style equality of the round trip.",
        note=COMMON_NOTE + "C18's abstract interpretation.",
        technique="encoder/decoder table agreement via abstract evaluation, branch-structure checks, CFG typestate of the proxy buffer",
        design_ref="5/C19",
    ),
    "C20": dict(
        category="other",
        text="(R20.1) after every mutation of ThemeStack._entries every normal path re-binds get to the new top entry; (R20.2) each pushed entry is a fresh dict and nothing mutates an entry or theme.styles in place (so pop restores every lookup); (R20.3) with inherit the entry is {**previous top, **theme.styles}, without it only the theme's styles; (R20.4) pop is dominated by the base-theme guard that raises; "
             "(R20.5) ThemeContext pushes once, pops on every path, returns falsy, and the inherit option is forwarded through all four hops from use_theme to ThemeStack.push_theme; (R20.6) get_style consults the stack before Style.parse and config/from_file are inverse templates. Decides the stack discipline for all push/pop histories. Not decided: configparser behaviour.",
        note=COMMON_NOTE,
        technique="CFG must-pass-through and dominance, freshness/alias check of pushed entries, option-forwarding dataflow",
        design_ref="5/C20",
    ),
    "C01": dict(
        category="other",
        text="Decides the mechanism the property rests on, not the layout arithmetic: (R1.1) in the abstract domain `<= W + c` (min/max, subtraction of non-negatives, Measurement.get(..,X).maximum <= X by C09) every child render call of Constrain, Styled, Padding, Panel, Align and Tree receives a budget <= options.max_width, Console.render passes options down unchanged and refuses widths < 1; "
             "(R1.2) render_lines crops/pads to max_width of the very options it rendered with; (R1.3) the common symbolic line width of Padding and Panel (line-width algebra of C08) is itself <= W. Necessary conditions: a failure admits an over-wide line. Not decided: text wrapping, table column solving (Table's widths are the output of the numeric solver), Align/Columns/Rule/Bar emission arithmetic, structural minimum.",
        note=COMMON_NOTE + "C09 R9.1 (proved) is used as a summary; Console.render_lines pads/crops (C13).",
        technique="abstract interpretation in the `<= W + c` domain over reaching definitions + symbolic line-width algebra of generator bodies",
        design_ref="5/C01",
    ),
    "C07": dict(
        category="other",
        text="Structural necessary conditions of the rectangle property: (R7.1) the width vector from _calculate_column_widths flows unchanged to _render and, summed with _extra_width, to the render options; every width sink in _render (per-cell options, set_shape, box rows) receives that vector or an element iterated from it, with no arithmetic; (R7.2) _extra_width counts 2 under box and show_edge and n-1 under box, exactly the predicates under which _render emits edges and dividers; "
             "(R7.3) every Box literal is 8x4 glyphs of cell width 1 (exhaustive over the literals, using rich's own width table) and get_top/get_row/get_bottom have the edge + runs + dividers shape; (R7.4) rows/cells are only appended and zipped in order. Not decided: that the solver's widths sum to the budget, expand = exactly W, characters stay in their column.",
        note=COMMON_NOTE,
        technique="identity dataflow of the width vector to its sinks, predicate agreement between accounting and emission, literal table validation",
        design_ref="5/C07",
    ),
    "C08": dict(
        category="other",
        text="(R8.3) line-width algebra: abstract execution of Padding.__rich_console__ and Panel.__rich_console__ proves for every child, style, box, title and width that all emitted lines have one common symbolic cell width, that the child's lines pass through unmodified between the frame segments and that the frame adds exactly left+right / 2 cells to the width handed to the child - this decides 'equal width' and 'exactly the requested border and padding' for these two classes given render_lines' padding contract; "
             "(R8.4) every rule yielded is resized to exactly options.max_width right before the yield; (R8.5) all tree guide strings are 4 cells and measure uses 4; (R8.6) box glyph tables. Not decided: Align centring, Bar/ProgressBar arithmetic, Columns placement, Tree traversal order.",
        note=COMMON_NOTE + "render_lines pads each line to the options' max_width; set_shape/Text.align produce the requested width (C13/C05).",
        technique="symbolic line-width algebra (linear forms) over generator bodies + CFG dominance",
        design_ref="5/C08",
    ),
    "C09": dict(
        category="proof",
        text="(R9.1) proof by case analysis over an order abstraction: Measurement.get (with normalize/with_maximum/with_minimum interpreted from source) is evaluated by the checker's own AST evaluator for representatives of every weak ordering of (m, M, W) against the constants 0 and 1; since those functions are built only from min/max/comparisons, this covers all integer inputs: every non-raising path returns 0 <= min <= max <= W, and (0,0) for W < 1. "
             "(R9.2) __rich_measure__ is invoked nowhere but inside Measurement.get, so the clamp cannot be bypassed; (R9.3) Padding/Panel/Constrain/Styled/Align measures mirror their render constants and Table._measure_column caps every return at the offered width; (R9.4) Text's min/max are max cell_len over words / lines. Decides the first clause of the property for all renderables and widths; the rest are necessary conditions. Not decided: rendering at the reported min/max stays within it.",
        note=COMMON_NOTE + "order-abstraction argument for min/max expressions; __rich_measure__ of user classes returns a pair of ints.",
        technique="case analysis over weak orderings with an AST evaluator (order abstraction) + who-may-call scan",
        design_ref="5/C09",
    ),
}

NA = {
    "C02_unused": "every clause is a relation between input and output strings decided by cell-width arithmetic (divide_line / chop_cells / truncate) over all strings x widths x span sets; "
           "no structural fact whose violation must break it exists that is not already owned by C05 (span bookkeeping of divide) or C13 (pad arithmetic); a static claim would be a brittle proxy (DESIGN.md section 8)",
}


def main() -> None:
    props = [json.loads(l) for l in open(os.path.join(VERIF, "properties.jsonl"))]
    checks = []
    na = []
    served = []
    for p in props:
        pid = p["id"]
        mod = load_rules(pid)
        if pid in CLAIMS and mod is not None:
            c = dict(CLAIMS[pid])
            served.append(pid)
            # the rule list is taken from the rule module itself, so the claim text cannot drift from the code
            import re as _re
            ids = []
            src = open(os.path.join(VERIF, "sa", "rules", pid.lower() + ".py")).read()
            for m_ in _re.finditer(r'ctx\.rule\("(R[0-9.a-z-]+)"|borrow\(ctx, \w+, "R[0-9.]+", "(R[0-9.a-z]+)"|memo_rule\(ctx, "(R[0-9.]+)"|rule_id="(R[0-9.]+)"', src):
                rid = next(g for g in m_.groups() if g)
                if rid.startswith("R" + str(int(pid[1:])) + ".") and rid not in ids:
                    ids.append(rid)
            c["text"] = c["text"] + f" Rules run by this check on every invocation (DESIGN.md Appendix B gives each one's statement): {', '.join(ids)}."
            c["note"] = c["note"] + " Rules are decided on normal forms (temporaries and simple helpers inlined, path normal form, canonical branch facts - DESIGN.md section 15) so behaviour-preserving refactorings do not raise alarms; a code shape outside what a rule can interpret yields ANALYSIS-ERROR (exit 2), never a VIOLATION."
            checks.append({
                "property_id": pid,
                "quick_cmd": f"/venv/bin/python -m sa.check {pid} --tier quick",
                "thorough_cmd": f"/venv/bin/python -m sa.check {pid} --tier thorough",
                "evidence_file": f"/verif/evidence/{pid}.json",
                "replay_cmd_template": f"/venv/bin/python -m sa.check {pid} --replay {{path}}",
                "engine": "sa",
                "level_claimed": {"category": c["category"], "text": c["text"], "design_ref": c["design_ref"]},
                "level_note": c["note"],
                "technique": c["technique"],
            })
        else:
            na.append({
                "property_id": pid,
                "reason": NA.get(pid, "check not yet implemented (planned rules: DESIGN.md section 5); nothing is claimed for this property yet"),
            })
    m = {
        "version": 1,
        "setup_cmd": "/venv/bin/python -m sa.check --self",
        "hooks": {
            "guard": "RICH_VERIF",
            "enable": "no hooks are needed or present: every check reads /repo/rich source text only (guard name reserved, unused)",
            "baseline_off_cmd": BASELINE,
            "source_commits": [],
            "add_only": True,
        },
        "engines": [{
            "name": "sa",
            "path": "/verif/sa",
            "serves_properties": served,
            "kind_free_text": "repository-specific static analyser, pure stdlib: ast index, statement CFG with exceptional edges and per-continuation finally copies, "
                              "reaching definitions, call graph, lock regions, small abstract domains (intervals, bit truth tables, weak orderings), literal-table agreement, "
                              "path normal form of functions (canonical branch facts, forked conditional expressions, path-local values) with scenario selection, inlining of temporaries and simple helpers",
        }],
        "checks": checks,
        "notes": "Static-analysis family only: every verdict is computed from /repo/rich/*.py as on disk at the start of the check. Exit 0 ok / 1 VIOLATION / 2 ANALYSIS-ERROR. See DESIGN.md.",
        "not_applicable": na,
    }
    with open(os.path.join(VERIF, "MANIFEST.json"), "w") as f:
        json.dump(m, f, indent=1)
    print(f"MANIFEST.json: {len(checks)} checks, {len(na)} not_applicable")


if __name__ == "__main__":
    main()
