"""Regenerate /verif/MANIFEST.json from the per-property table below:  python -m sa.manifest_gen"""
from __future__ import annotations

import json
import os

from .check import load_rules

VERIF = os.path.dirname(os.path.dirname(os.path.abspath(__file__)))

BASELINE = "cd /repo && /venv/bin/python -m pytest -ra -q -p no:cacheprovider --timeout=900 --continue-on-collection-errors"

COMMON_NOTE = (
    "Trusted base: CPython's ast parser and the Python semantics of the constructs the rules interpret; "
    "rich is never imported or executed. Dynamic dispatch to user classes, monkey-patching and subclass overrides outside rich/ are not seen. "
)

# property -> dict(category, text, note, technique, design_ref)
CLAIMS = {
    "C06": dict(
        category="other",
        text="Static rules over rich/style.py decide, for every input, the structural clauses of the property: (R6.1) __eq__ and the hash use the same fields; "
             "(R6.2) on every __new__ construction route each derived slot (_hash, _style_definition, _ansi) is recomputed from the new object's own fields, reset for lazy refill, or copied only when all fields it depends on are copied unchanged - this is 'equal styles hash equal however constructed' and 'str() reflects a link update'; "
             "(R6.3) every route fills every slot; (R6.4) per-bit truth tables of the extracted & | ~ expressions prove right-bias, the attr-subset-of-set invariant and associativity of __add__, the colour/link picks are right-biased and null operands return the other operand; "
             "(R6.5) the attribute<->bit mapping agrees across _Bit descriptors, __init__ weights, __str__ words, parse() vocabulary and SGR emission; (R6.7) the _null flag can only be True on an empty style. "
             "Not decided: lru_cache interactions, URLs with whitespace, Color.parse accepting every Color.name value.",
        note=COMMON_NOTE + "Assumes tuple hashing is a function of element equality and Color is hashable by value (NamedTuple).",
        technique="field-dependency dataflow over construction routes + per-bit truth tables of extracted bitwise expressions + table agreement",
        design_ref="5/C06",
    ),
}

NA = {
    "C02": "every clause is a relation between input and output strings decided by cell-width arithmetic (divide_line / chop_cells / truncate) over all strings x widths x span sets; "
           "no structural fact whose violation must break it exists that is not already owned by C05 (span bookkeeping of divide) or C13 (pad arithmetic); a static claim would be a brittle proxy (DESIGN.md section 8)",
}


def main() -> None:
    props = [json.loads(l) for l in open(os.path.join(VERIF, "properties.jsonl"))]
    checks = []
    na = []
    served = []
    for p in props:
        pid = p["id"]
        mod = load_rules(pid)
        if pid in CLAIMS and mod is not None:
            c = CLAIMS[pid]
            served.append(pid)
            checks.append({
                "property_id": pid,
                "quick_cmd": f"/venv/bin/python -m sa.check {pid} --tier quick",
                "thorough_cmd": f"/venv/bin/python -m sa.check {pid} --tier thorough",
                "evidence_file": f"/verif/evidence/{pid}.json",
                "replay_cmd_template": f"/venv/bin/python -m sa.check {pid} --replay {{path}}",
                "engine": "sa",
                "level_claimed": {"category": c["category"], "text": c["text"], "design_ref": c["design_ref"]},
                "level_note": c["note"],
                "technique": c["technique"],
            })
        else:
            na.append({
                "property_id": pid,
                "reason": NA.get(pid, "check not yet implemented (planned rules: DESIGN.md section 5); nothing is claimed for this property yet"),
            })
    m = {
        "version": 1,
        "setup_cmd": "/venv/bin/python -m sa.check --self",
        "hooks": {
            "guard": "RICH_VERIF",
            "enable": "no hooks are needed or present: every check reads /repo/rich source text only (guard name reserved, unused)",
            "baseline_off_cmd": BASELINE,
            "source_commits": [],
            "add_only": True,
        },
        "engines": [{
            "name": "sa",
            "path": "/verif/sa",
            "serves_properties": served,
            "kind_free_text": "repository-specific static analyser, pure stdlib: ast index, statement CFG with exceptional edges and per-continuation finally copies, "
                              "reaching definitions, call graph, lock regions, small abstract domains (intervals, bit truth tables, weak orderings), literal-table agreement",
        }],
        "checks": checks,
        "notes": "Static-analysis family only: every verdict is computed from /repo/rich/*.py as on disk at the start of the check. Exit 0 ok / 1 VIOLATION / 2 ANALYSIS-ERROR. See DESIGN.md.",
        "not_applicable": na,
    }
    with open(os.path.join(VERIF, "MANIFEST.json"), "w") as f:
        json.dump(m, f, indent=1)
    print(f"MANIFEST.json: {len(checks)} checks, {len(na)} not_applicable")


if __name__ == "__main__":
    main()
