#!/venv/bin/python
"""Regenerates the generated parts of DESIGN.md (rule inventory, seeded-change table) between markers."""
import json, os, sys, glob
sys.path.insert(0, "/verif")
from sa.check import CLAIMED, run_property
from sa.index import Repo

repo = Repo()
inv = ["| property | rule | what it establishes (instances on the current tree) |", "|---|---|---|"]
for p in CLAIMED:
    ctx = run_property(p, "quick", repo=repo, quiet=True, write_evidence=False)
    for r, t in ctx.rules_applied.items():
        inv.append(f"| {p} | {r} | {t} ({ctx.rule_counts.get(r, 0)}) |")
seeds = ["| seed | property | what the change does / what it needs to manifest | confirmed | caught by (VIOLATION) | analysis-error only |", "|---|---|---|---|---|---|"]
for d in sorted(glob.glob("/verif/seeded/*/meta.json")):
    m = json.load(open(d))
    n = m.get("notes", {})
    desc = (n.get("summary", "") or "")[:230].replace("|", "/").replace("\n", " ")
    need = (n.get("needs_to_manifest", "") or "")[:160].replace("|", "/").replace("\n", " ")
    fired = ", ".join(f"{k}: " + "; ".join(sorted({y.strip().split()[0] for x in v for y in x.split(";") if y.strip().startswith("R")})) for k, v in sorted(m.get("checks_fired", {}).items())) or "-"
    errs = ", ".join(sorted(m.get("checks_analysis_error", {}))) or "-"
    seeds.append(f"| {m['id']} | {m['property']} | {desc} **Needs:** {need} | {'yes' if m.get('confirmed') else m.get('status', 'NO')} | {fired} | {errs} |")
p = "/verif/DESIGN.md"
s = open(p).read()
def put(s, tag, body):
    a, b = f"<!-- BEGIN {tag} -->", f"<!-- END {tag} -->"
    if a not in s:
        return s
    i, j = s.index(a) + len(a), s.index(b)
    return s[:i] + "\n" + body + "\n" + s[j:]
# benign corpus summary (status from tools/corpus_recheck.py output, if present)
try:
    bn = json.load(open("/verif/benign/notes.json"))
    status = {}
    try:
        status = json.load(open("/verif/benign/status.json"))
    except Exception:
        pass
    rows = ["| id | round | kind / summary | result on all 20 checks |", "|---|---|---|---|"]
    for n in bn:
        bid = f"{n['property']}-{n['n']}"
        rows.append(f"| {bid} | {n.get('round', 1)} | {(str(n.get('kind', '')) + ': ' + str(n.get('summary', '')))[:260].replace('|', '/').replace(chr(10), ' ')} | {status.get(bid, '?')} |")
    s = put(s, "BENIGN2", "\n".join(rows))
except Exception as e:
    print("benign table not generated:", e)
s = put(s, "RULES", "\n".join(inv))
s = put(s, "SEEDS", "\n".join(seeds))
open(p, "w").write(s)
print("rules", len(inv) - 2, "seeds", len(seeds) - 2)
