"""C03 The ANSI stream written means exactly what the styled segments say."""
from __future__ import annotations

import ast
from typing import List

from .. import cfg as cfgmod
from ..astutil import alias_map, call_name, expand_alias, fstring_parts, is_attr_of, kwarg
from ..index import AnalysisError, AnchorVanished, norm, short, walk_local
from .common import memo_rule

LEVEL = "other"
UNDECIDED = [
    "full decoder-model equivalence of the emitted stream over all segment sequences",
    "legacy-Windows palette rendering through colorama",
    "colour down-conversion and parameter forms are proved under C18 and used here as established",
]
TRUSTED = ["CPython ast parser", "ECMA-48: ESC[<params>m sets attributes, ESC[0m resets all; OSC 8 ; params ; URI ST opens a link, OSC 8 ;; ST closes it"]

SGR_OPEN = "\x1b["
RESET = "\x1b[0m"
OSC_OPEN = "\x1b]8;"
OSC_CLOSE = "\x1b]8;;\x1b\\"


def r3_1(ctx):
    from ..astutil import concat_parts
    from ..yieldpaths import Unsupported, paths_of, resolve, show
    ctx.rule("R3.1", "emitted sequences are paired (no style leaks), decided per control-flow path of Style.render on the flattened returned string: whatever opens before the text (SGR `ESC[..m`, OSC-8 link `ESC]8;..ST`) is closed right after it in reverse order (`ESC[0m`, then `ESC]8;;ST`); a path that opens nothing returns the text alone")
    f = ctx.repo.fn("style:Style.render")
    text_p = f.params[1]
    try:
        P = [resolve(p_) for p_ in paths_of(f.node)]
    except Unsupported as u:
        raise AnalysisError(f"Style.render: statement outside the path normal form ({u})")
    n = 0
    seen = set()
    for p_ in P:
        rets = [e for e in p_ if e[0] == "return" and e[1] is not None]
        if len(rets) != 1 or rets[0][1] in seen:
            continue
        seen.add(rets[0][1])
        try:
            v = ast.parse(rets[0][1], mode="eval").body
        except SyntaxError:
            raise AnalysisError(f"Style.render: cannot parse returned expression {rets[0][1][:80]}")
        parts = concat_parts(v)
        idx = [i for i, q in enumerate(parts) if q == ("expr", text_p)]
        where = f.where
        if len(idx) != 1:
            ctx.violation(f.fq, rets[0][1][:160], where, f"a path of Style.render returns `{rets[0][1][:120]}`, in which the text does not occur exactly once")
            continue
        before = "".join(q if isinstance(q, str) else "\0" for q in parts[: idx[0]])
        after = "".join(q if isinstance(q, str) else "\0" for q in parts[idx[0] + 1:])
        n += 1
        opens_sgr = SGR_OPEN in before.replace(OSC_OPEN, "")
        opens_osc = OSC_OPEN in before
        rest = after
        ok = True
        why = ""
        if opens_sgr:
            if rest.startswith(RESET):
                rest = rest[len(RESET):]
            else:
                ok, why = False, "a styled template does not end the text with the reset ESC[0m: the style leaks onto whatever is printed next"
        if ok and opens_osc:
            st_closed = before.startswith(OSC_OPEN) and "\x1b\\" in before[len(OSC_OPEN):]
            if rest.startswith(OSC_CLOSE) and st_closed:
                rest = rest[len(OSC_CLOSE):]
            else:
                ok, why = False, "the hyperlink template does not close the link (OSC 8 ;; ST) right after the text: following output stays inside the link"
        if ok and rest:
            ok, why = False, f"extra output `{rest!r}` follows the text"
        if ok and not opens_sgr and not opens_osc and before:
            ok, why = False, f"`{before!r}` precedes the text although no sequence is opened"
        ctx.check(ok, f.fq, rets[0][1][:160], where, ("SGR open ... " if opens_sgr else "") + ("OSC 8 open ... " if opens_osc else "") + "text" + (" ... ESC[0m" if opens_sgr else "") + (" ... OSC 8 close" if opens_osc else ""), why or "unpaired sequence")
    ctx.floor(n, 3, "distinct returned templates of Style.render")


def _segment_paths(rb):
    """(iteration source expr, placeholder names, [(facts, emitted text|None)], anchor) of the one emitter in `rb`
    (common.segment_streams: loops, comprehensions, nested generators, pre-filters of the source are one normal form)"""
    from .common import segment_streams
    streams = [st for st in segment_streams(rb) if any(e is not None for _d, e in st[1])]
    if not streams:
        raise AnchorVanished(f"{rb.fq}: no loop / comprehension turning the (text, style, is_control) segments into output pieces was found")
    if len(streams) == 1:
        src, paths, anchor = streams[0]
        return src, ["TEXT", "STYLE", "CTRL"], paths, anchor
    # several emitters, one per case (a fast path, a terminal / file split): each runs under the branch facts of its own statement;
    # together they are one emitter whose paths carry those facts
    from ..yieldpaths import canon_test
    g = cfgmod.build(rb.node)
    srcs = {norm(st[0]) for st in streams}
    if len(srcs) != 1:
        raise AnchorVanished(f"{rb.fq}: {len(streams)} emitters over different sources {sorted(srcs)}; not one segment stream")
    merged = []
    from ..astutil import inline as _inl_sp, single_defs as _sdf_sp
    sd_sp = _sdf_sp(rb.node)
    rb._emitters = []
    for src, paths, anchor in streams:
        st_ = anchor
        while not isinstance(st_, ast.stmt):
            st_ = rb.module.parent_of[st_]
        outer = {}
        for nid in g.nodes_of(st_):
            for t, v in g.branch_facts(nid):
                for a, tv in canon_test(_inl_sp(t, sd_sp), v):
                    outer[a] = tv
        rb._emitters.append((anchor, outer))
        for d, e in paths:
            dd = dict(outer)
            dd.update(d)
            merged.append((dd, e))
    return streams[0][0], ["TEXT", "STYLE", "CTRL"], merged, streams[0][2]


def r3_2(ctx):
    ctx.rule("R3.2", "colour disabled => no escape sequence: every return of Style.render that can carry an escape literal is dominated by the false branch of the `color_system is None` early exit; in Console._render_buffer segment text reaches the output only through style.render(text, color_system=<the console's colour system>) or as plain text")
    f = ctx.repo.fn("style:Style.render")
    g = cfgmod.build(f.node)
    text_p = f.params[1]
    rets = [n for n in g.stmt_nodes() if n.kind == "stmt" and isinstance(n.stmt, ast.Return)]
    guarded = 0
    for r in rets:
        v = r.stmt.value
        if isinstance(v, ast.Name) and v.id == text_p:
            continue
        facts = g.branch_facts(r.id)
        ok = False
        for t, val in facts:
            if val is False:
                parts = t.values if isinstance(t, ast.BoolOp) and isinstance(t.op, ast.Or) else [t]
                if any(norm(p) == "color_system is None" for p in parts):
                    ok = True
            if val is True and norm(t) == "color_system is not None":
                ok = True
        guarded += 1
        ctx.check(ok, f.fq, short(r.stmt), f"{f.module.relpath}:{r.lineno}", "escape-carrying return only when a colour system is set",
                  "Style.render can return escape sequences although color_system is None (the early `return text` no longer covers this path)")
    ctx.floor(guarded, 1, "escape-carrying returns in Style.render")
    rb = ctx.repo.fn("console:Console._render_buffer")
    _src, (tn, sn, cn), paths, anchor = _segment_paths(rb)
    emitting = [(d, e) for d, e in paths if e is not None]
    ctx.floor(len(emitting), 2, "output pieces in _render_buffer")
    where = f"{rb.module.relpath}:{anchor.lineno}"
    for d, e in emitting:
        v = ast.parse(e, mode="eval").body
        if isinstance(v, ast.Call) and isinstance(v.func, ast.Attribute) and v.func.attr == "render":
            cs = kwarg(v, "color_system") or (v.args[1] if len(v.args) > 1 else None)
            ok = cs is not None and norm(cs) == "self._color_system" and norm(v.func.value) == sn and v.args and norm(v.args[0]) == tn
            ctx.check(ok, rb.fq, e[:160], where, "styled text rendered with the console's own colour system", "style.render is not given the console's colour system (or not the segment's own text/style): escapes are emitted although colour is disabled (default is truecolor)")
        else:
            ctx.check(norm(v) == tn and d.get(sn) is not True, rb.fq, e[:160], where, "plain segment text appended as is (only when the segment has no style)", f"`{e[:120]}` appended to the output is neither {sn}.render({tn}, ...) nor the plain text of an unstyled segment")
    # a styled segment is always rendered through its style
    for d, e in emitting:
        if d.get(sn) is True:
            ctx.check(".render(" in e, rb.fq, e[:160], where, "styled segments go through style.render", "a segment with a style is written without rendering its style")


def r3_3(ctx):
    ctx.rule("R3.3", "NO_COLOR chain: under `no_color and color_system` the buffer is replaced by Segment.remove_color(buffer) before the emit loop; remove_color maps every truthy style through .without_color; without_color clears both colours; _make_ansi_codes emits colour parameters only under `_color/_bgcolor is not None`")
    rb = ctx.repo.fn("console:Console._render_buffer")
    g = cfgmod.build(rb.node)
    rd = g.reaching_defs(weak=False)
    src, _names, _paths, anchor = _segment_paths(rb)
    # with several emitters the clause concerns those that can run while a colour system is set (a fast path for `color_system is
    # None` writes no colour at all); the last of them in the text is the one the strip must reach
    ems = getattr(rb, "_emitters", None)
    if ems:
        live = [a_ for a_, outer_ in ems if outer_.get("self._color_system is None") is not True and outer_.get("self._color_system") is not False and outer_.get("self._color_system is not None") is not False]
        if not live:
            raise AnalysisError(f"{rb.fq}: no emitter can run with a colour system set")
        anchor = live[-1]
        other_live = live[:-1]
    else:
        other_live = []
    anchor_stmt = anchor
    while not isinstance(anchor_stmt, ast.stmt):
        anchor_stmt = rb.module.parent_of[anchor_stmt]
    # an emitter written as a nested generator function is "used" where that function is called
    cur = rb.module.parent_of.get(anchor_stmt)
    nested = None
    while cur is not None and cur is not rb.node:
        if isinstance(cur, ast.FunctionDef):
            nested = cur
        cur = rb.module.parent_of.get(cur)
    if nested is not None:
        calls = [c for c in walk_local(rb.node) if isinstance(c, ast.Call) and isinstance(c.func, ast.Name) and c.func.id == nested.name]
        if len(calls) != 1:
            raise AnalysisError(f"{rb.fq}: nested emitter {nested.name}() is not called exactly once")
        anchor_stmt = calls[0]
        while not isinstance(anchor_stmt, ast.stmt):
            anchor_stmt = rb.module.parent_of[anchor_stmt]
    use_nodes = g.nodes_of(anchor_stmt)
    var = norm(src)
    strips = [n for n in g.stmt_nodes() if n.kind == "stmt" and isinstance(n.stmt, ast.Assign) and norm(n.stmt.targets[0]) == var and "remove_color(" in norm(n.stmt.value)]
    ok = bool(strips) and isinstance(src, ast.Name)
    if ok:
        s = strips[0]
        facts = g.branch_facts(s.id)
        cond_ok = any(v is True and "self.no_color" in norm(t) for t, v in facts)
        reach = any(s.id in rd.get(u, {}).get(var, set()) for u in use_nodes)
        for a_ in other_live:
            st2 = a_
            while not isinstance(st2, ast.stmt):
                st2 = rb.module.parent_of[st2]
            reach = reach and any(s.id in rd.get(u, {}).get(var, set()) for u in g.nodes_of(st2))
        arg_ok = norm(s.stmt.value.args[0]) == var
        # every path entry->loop on which no_color and color_system hold passes the strip: the If has no else
        ifn = rb.module.parent_of.get(s.stmt)
        from ..astutil import inline as _inl, single_defs as _sdf
        simple = isinstance(ifn, ast.If) and not ifn.orelse and norm(_inl(ifn.test, _sdf(rb.node))) in ("self.no_color and self._color_system", "self._color_system and self.no_color", "self.no_color")
        ok = cond_ok and reach and arg_ok and simple
    ctx.check(ok, rb.fq, short(strips[0].stmt) if strips else "no remove_color", f"{rb.module.relpath}:{strips[0].lineno if strips else rb.node.lineno}",
              "colour is stripped from the very buffer the emit loop iterates, under `no_color and color_system`",
              "with NO_COLOR the emit loop does not iterate Segment.remove_color(buffer): colour parameters reach the stream")
    rc = ctx.repo.fn("segment:Segment.remove_color")
    src = norm(rc.node)
    ys = [y for y in walk_local(rc.node) if isinstance(y, ast.Yield)]
    styled = [y for y in ys if isinstance(y.value, ast.Call) and len(y.value.args) >= 2 and not (isinstance(y.value.args[1], ast.Constant) and y.value.args[1].value is None)]
    loop_targets = {t.id for x in walk_local(rc.node) if isinstance(x, ast.For) for t in ast.walk(x.target) if isinstance(t, ast.Name)}
    # names unpacked from the loop variable inside the loop body (text, style, is_control = segment) range over the same segments
    for x in walk_local(rc.node):
        if isinstance(x, ast.Assign) and isinstance(x.targets[0], ast.Tuple) and isinstance(x.value, ast.Name) and x.value.id in loop_targets:
            loop_targets |= {t.id for t in x.targets[0].elts if isinstance(t, ast.Name)}
    from ..astutil import alias_map as _am33, expand_alias as _ea33
    _al33 = _am33(rc.node)
    ok = len(styled) == 1
    if ok:
        a1 = styled[0].value.args[1]

        visiting = set()

        nested = {x.name: x for x in ast.walk(rc.node) if isinstance(x, ast.FunctionDef) and x is not rc.node}

        def stripped(e, depth=0):
            """e is <loop style>.without_color, or a name all of whose definitions are that / a lookup in a cache filled only
            with that / a call of a nested helper returning that / `X if style else None`"""
            if isinstance(e, ast.Attribute) and e.attr == "without_color" and isinstance(e.value, ast.Name) and e.value.id in loop_targets:
                return True
            if isinstance(e, ast.IfExp) and isinstance(e.test, ast.Name) and e.test.id in loop_targets and isinstance(e.orelse, ast.Constant) and e.orelse.value is None:
                return stripped(e.body, depth + 1)
            if isinstance(e, ast.Call) and isinstance(e.func, ast.Name) and e.func.id in nested and len(e.args) == 1 and isinstance(e.args[0], ast.Name) and e.args[0].id in loop_targets and depth < 4:
                h = nested[e.func.id]
                hp = [a.arg for a in h.args.args]
                if len(hp) != 1:
                    return False
                added = hp[0] not in loop_targets
                loop_targets.add(hp[0])
                try:
                    rets_ = [r for st_ in h.body for r in ast.walk(st_) if isinstance(r, ast.Return)]
                    return bool(rets_) and all(r.value is not None and stripped(r.value, depth + 1) for r in rets_)
                finally:
                    if added:
                        loop_targets.discard(hp[0])
            if isinstance(e, ast.Name):
                if e.id in visiting:
                    return True  # coinductive: a cycle through the cache adds no new source of values
                visiting.add(e.id)
                vals = [x.value for x in ast.walk(rc.node) if isinstance(x, ast.Assign) and any(norm(t_) == e.id for t_ in x.targets)]
                r = bool(vals) and all(stripped(v, depth + 1) for v in vals)
                visiting.discard(e.id)
                return r
            lookup = None
            if isinstance(e, ast.Call) and isinstance(e.func, ast.Name) and e.func.id in _al33:
                e = ast.Call(func=_ea33(e.func, _al33), args=e.args, keywords=e.keywords)
            if isinstance(e, ast.Call) and isinstance(e.func, ast.Attribute) and e.func.attr == "get" and isinstance(e.func.value, ast.Name) and len(e.args) == 1 and isinstance(e.args[0], ast.Name) and e.args[0].id in loop_targets:
                lookup = (e.func.value.id, e.args[0].id)
            if isinstance(e, ast.Subscript) and isinstance(e.value, ast.Name) and isinstance(e.slice, ast.Name) and e.slice.id in loop_targets:
                lookup = (e.value.id, e.slice.id)
            if lookup is not None:
                cache_name, key = lookup
                stores = [(t_, x.value) for x in ast.walk(rc.node) if isinstance(x, ast.Assign) for t_ in x.targets if isinstance(t_, ast.Subscript) and norm(t_.value) == cache_name]
                return bool(stores) and all(norm(t_.slice) == key and stripped(v_, depth + 1) for t_, v_ in stores)
            return False
        ok = stripped(a1)
    # the only un-stripped yield passes style None and is under the falsy-style branch
    raw = [y for y in ys if y not in styled]
    ok = ok and all(isinstance(y.value, ast.Call) and isinstance(y.value.args[1], ast.Constant) and y.value.args[1].value is None for y in raw)
    ctx.check(ok, rc.fq, "yield cls(text, colorless_style, is_control)", rc.where, "every truthy style is replaced by its without_color form",
              "Segment.remove_color yields a segment whose style was not passed through .without_color")
    wc = ctx.repo.fn("style:Style.without_color")
    stores = {}
    for n in walk_local(wc.node):
        if isinstance(n, ast.Assign) and isinstance(n.targets[0], ast.Attribute) and not is_attr_of(n.targets[0], "self"):
            stores[n.targets[0].attr] = n.value
    ok = all(k in stores and isinstance(stores[k], ast.Constant) and stores[k].value is None for k in ("_color", "_bgcolor"))
    ctx.check(ok, wc.fq, "_color = None ; _bgcolor = None", wc.where, "without_color clears foreground and background", "Style.without_color keeps a colour: NO_COLOR output still carries colour parameters")
    mk = ctx.repo.fn("style:Style._make_ansi_codes")
    n = 0
    for c in walk_local(mk.node):
        if isinstance(c, ast.Call) and "get_ansi_codes" in norm(c.func):
            n += 1
            st = c
            par = mk.module.parent_of.get(st)
            guard = None
            cur = par
            from ..astutil import inline as _inl, single_defs as _sdf
            _sd = _sdf(mk.node)
            child = c
            while cur is not None and cur is not mk.node:
                if isinstance(cur, ast.If) and any(child is b or child in list(ast.walk(b)) for b in cur.body) and ("_color is not None" in norm(_inl(cur.test, _sd)) or "_bgcolor is not None" in norm(_inl(cur.test, _sd))):
                    guard = cur
                cur = mk.module.parent_of.get(cur)
            recv = norm(_inl(c.func, _sd))
            which = "_bgcolor" if "_bgcolor" in recv else "_color"
            ok = guard is not None and f"self.{which} is not None" in norm(_inl(guard.test, _sd))
            fg = kwarg(c, "foreground")
            ok_fg = (which == "_color" and fg is None) or (which == "_bgcolor" and fg is not None and norm(fg) == "False")
            ctx.check(ok and ok_fg, mk.fq, short(c), f"{mk.module.relpath}:{c.lineno}", f"{which} codes emitted only when set, as {'background' if which == '_bgcolor' else 'foreground'}",
                      f"colour codes for {which} are emitted without the `is not None` guard or with the wrong foreground flag")
            ctx.check(".downgrade(color_system)" in recv, mk.fq, "downgrade before codes", f"{mk.module.relpath}:{c.lineno}", "colour is down-converted to the console's system before code generation", f"{which} is not down-converted with .downgrade(color_system) before its codes are generated")
    ctx.floor(n, 2, "colour code emissions in _make_ansi_codes")


def r3_4(ctx):
    ctx.rule("R3.4", "no control codes on a non-terminal: in the emit loop of Console._render_buffer every append of a segment's text (styled or not) is dominated by `not (not_terminal and is_control)`")
    rb = ctx.repo.fn("console:Console._render_buffer")
    from ..yieldpaths import consistent
    _src, (tn, sn, cn), paths, anchor = _segment_paths(rb)
    where = f"{rb.module.relpath}:{anchor.lineno}"
    n = 0
    for d, e in paths:
        if e is None:
            continue
        n += 1
        # is this emitting path possible for a control segment on a non-terminal?
        p = tuple(("cond", k, v) for k, v in d.items())
        possible = consistent(p, {"self.is_terminal": False, cn: True})
        ctx.check(not possible, rb.fq, f"{ {k: v for k, v in d.items()} } -> {e[:80]}", where, "this output piece cannot be produced for a control segment on a non-terminal",
                  f"the piece `{e[:100]}` is written under {d}, which does not exclude `not is_terminal and {cn}`: control codes of such segments are written to a file/pipe")
    ctx.floor(n, 2, "output pieces in the emit loop")


def r3_5(ctx):
    memo_rule(ctx, "R3.5", ["style", "console", "segment", "color", "palette"], 8)


def r3_6(ctx):
    ctx.rule("R3.6", "Console.control / Control: control codes enter the buffer only as Segment.control(...) (is_control=True), so R3.4's guard sees them")
    c = ctx.repo.fn("console:Console.control")
    ok = any(isinstance(x, ast.Call) and norm(x.func) == "Segment.control" for x in walk_local(c.node))
    ctx.check(ok, c.fq, "Segment.control(str(control_codes))", c.where, "Console.control buffers a control segment", "Console.control no longer wraps the codes in Segment.control: they are treated as visible text")
    k = ctx.repo.fn("control:Control.__init__")
    ok = any(isinstance(x, ast.Call) and norm(x.func) == "Segment.control" for x in walk_local(k.node))
    ctx.check(ok, k.fq, "Segment.control(control_codes)", k.where, "Control holds a control segment", "Control no longer builds a control segment")
    def builds_control(fn):
        """every cls(...)/Segment(...) construction in fn passes is_control=True (3rd positional or keyword)"""
        cons = [x for x in walk_local(fn.node) if isinstance(x, ast.Call) and norm(x.func) in ("cls", "Segment")]
        def is_true(e):
            return isinstance(e, ast.Constant) and e.value is True
        return bool(cons) and all((len(x.args) >= 3 and is_true(x.args[2])) or any(k.arg == "is_control" and is_true(k.value) for k in x.keywords) for x in cons)
    sc = ctx.repo.fn("segment:Segment.control")
    ctx.check(builds_control(sc), sc.fq, "cls(text, style, is_control=True)", sc.where, "Segment.control sets is_control", "Segment.control does not set is_control=True")
    mc = ctx.repo.fn("segment:Segment.make_control")
    ctx.check(builds_control(mc), mc.fq, "make_control", mc.where, "make_control marks every segment as control", "Segment.make_control does not mark segments as control")


def r3_7(ctx):
    from .c06 import r6_2
    r6_2(ctx, rule_id="R3.7", only={"_ansi"})


def r3_8(ctx):
    from .c06 import r6_5
    from .common import borrow
    borrow(ctx, r6_5, "R6.5", "R3.8", " [the SGR attribute codes written for a segment are exactly those of the attributes its style sets: the guard masks of _make_ansi_codes cover every attribute bit]")


def r3_9(ctx):
    from .c18 import r18_9
    from .common import borrow
    borrow(ctx, r18_9, "R18.9", "R3.9", " [the colour code written on a 16-colour terminal is that of the entry nearest to the segment's colour]")


def r3_10(ctx):
    from .c18 import r18_1
    from .common import borrow
    borrow(ctx, r18_1, "R18.1-3", "R3.10", " [the colour code written is a valid index of the terminal's colour system]")


def r3_11(ctx):
    from .c06 import r6_7
    from .common import borrow
    borrow(ctx, r6_7, "R6.7", "R3.11", " [Console._render_buffer writes a segment's text bare when its style is falsy: a style that still carries a link (or an attribute) must not be null, or the hyperlink is lost from the stream - e.g. under NO_COLOR after without_color]")


def r3_12(ctx):
    from .c18 import r18_4
    from .common import borrow
    borrow(ctx, r18_4, "R18.4", "R3.12", " [the colour parameters in the stream are the standard ones for the segment's colour: 30-37 / 90-97 split at index 8, 38;5;n, 38;2;r;g;b - a terminal reads a bare 38 as a malformed extended colour]")


def r3_13(ctx):
    from .c06 import r6_4
    from .common import borrow as _borrow
    _borrow(ctx, r6_4, "R6.4", "R3.13", " [the SGR parameters written for a segment are those of the COMBINED style of its layers: a later layer's explicit `on default` must override an earlier background (49, not 44)]")


def r3_14(ctx):
    from .c18 import r18_10
    from .common import borrow as _borrow
    _borrow(ctx, r18_10, "R18.10", "R3.14", " [the colour parameters in the stream are those of the documented down-conversion of the segment's colour]")


RULES = [r3_1, r3_2, r3_3, r3_4, r3_5, r3_6, r3_7, r3_8, r3_9, r3_10, r3_11, r3_12, r3_13, r3_14]
