"""Rules shared by several properties."""
from __future__ import annotations

import ast
from typing import Dict, Iterable, Set

from .. import memo
from ..index import norm, walk_local


def descriptor_attrs(repo, cls) -> Dict[str, Set[str]]:
    """class-level `name = Desc(..)` where Desc defines __get__(self, obj, ..): name -> attrs of obj it reads."""
    out: Dict[str, Set[str]] = {}
    if cls is None:
        return out
    for st in cls.node.body:
        if isinstance(st, ast.Assign) and len(st.targets) == 1 and isinstance(st.targets[0], ast.Name) and isinstance(st.value, ast.Call) and isinstance(st.value.func, ast.Name):
            d = cls.module.classes.get(st.value.func.id)
            if d is None:
                continue
            g = d.method("__get__")
            if g is None or len(g.params) < 2:
                continue
            obj = g.params[1]
            out[st.targets[0].id] = {n.attr for n in ast.walk(g.node) if isinstance(n, ast.Attribute) and isinstance(n.value, ast.Name) and n.value.id == obj}
    return out


def memo_rule(ctx, rule_id: str, modules: Iterable[str], floor: int, only=None):
    ctx.rule(rule_id, "memoisation soundness: every cached value (lru_cache, dict cache, lazily filled slot) depends only on what its cache key covers, on fields never reassigned after construction and on never-written module constants; lookups and stores use the same key")
    nsites = 0
    for ms in modules:
        mod = ctx.repo.mod(ms)
        seen = set()
        for fn in mod.functions.values():
            if id(fn) in seen or mod.in_main_guard(fn.node):
                continue
            seen.add(id(fn))
            if only is not None and fn.qualname not in only:
                continue
            sites, problems = memo.check_function(ctx.repo, fn, descriptor_attrs(ctx.repo, fn.cls))
            bad_nodes = {id(p.node) for p in problems}
            for s in sites:
                nsites += 1
                if id(s.node) not in bad_nodes:
                    ctx.ok(f"{mod.relpath}:{s.node.lineno}", f"{s.desc}: value depends only on its key / immutable state", fn.fq)
            for p in problems:
                ctx.violation(fn.fq, p.construct, f"{mod.relpath}:{p.node.lineno}", p.message)
    ctx.floor(nsites, floor, "cache sites")


def get_cg(ctx):
    """Call graph + lock analysis for the current repo (built once per run)."""
    from ..callgraph import CallGraph, Locks

    repo = ctx.repo
    if not hasattr(repo, "_cg"):
        repo._cg = CallGraph(repo)
        repo._locks = Locks(repo._cg)
    ctx.extra["call_sites_total"] = repo._cg.n_calls
    ctx.extra["call_sites_resolved"] = repo._cg.n_resolved
    ctx.extra["lock_identities"] = sorted(f"{a}.{b}" for a, b in repo._locks.lock_ids)
    return repo._cg, repo._locks


def must_held(ctx, f, node):
    """Locks certainly held when `node` of function `f` executes (lexical + held-on-entry)."""
    cg, locks = get_cg(ctx)
    return locks.held_lex(f, node) | locks.must_held_on_entry().get(f.fq, frozenset())


def fmt_locks(s):
    return "{" + ", ".join(sorted(f"{a}.{b}" for a, b in s)) + "}"


def borrow(ctx, rule_fn, old_id: str, new_id: str, suffix: str = ""):
    """Run a rule of another property under a new id (the clause is shared by both properties)."""
    try:
        rule_fn(ctx)
    except Exception:
        # the caller records the error under ctx.current_rule: make that the borrowed id, and still rename what was recorded
        _borrow_rename(ctx, old_id, new_id, suffix)
        ctx.current_rule = new_id
        raise
    _borrow_rename(ctx, old_id, new_id, suffix)


def _borrow_rename(ctx, old_id: str, new_id: str, suffix: str = ""):
    if old_id in ctx.rules_applied:
        ctx.rules_applied[new_id] = ctx.rules_applied.pop(old_id) + suffix
        ctx.rule_counts[new_id] = ctx.rule_counts.pop(old_id, 0)
    for o in ctx.obligations:
        if o["rule"] == old_id:
            o["rule"] = new_id
    for v in ctx.violations:
        if v.rule == old_id:
            v.rule = new_id
    ctx.errors = [e.replace(f"rule={old_id} ", f"rule={new_id} ") for e in ctx.errors]


def mypy_crosscheck(ctx):
    """Thorough tier: compare the resolver's call edges with mypy's receiver types (fail-soft)."""
    import json
    import os
    import subprocess
    import sys

    ctx.rule("XCHECK", "call-resolution cross-check against mypy (library, types only): every method-call site in the lock-relevant modules where both resolvers know the receiver must agree, and no call that mypy resolves to a lock-acquiring rich method may be missing from the call graph")
    try:
        p = subprocess.run([sys.executable, "-m", "sa.mypy_xcheck"], cwd=os.path.dirname(os.path.dirname(os.path.dirname(os.path.abspath(__file__)))),
                           capture_output=True, text=True, timeout=300)
        d = json.loads(p.stdout.strip().splitlines()[-1])
    except Exception as e:
        ctx.note(f"mypy cross-check skipped: {e!r}")
        return
    if not d.get("available"):
        ctx.note(f"mypy cross-check skipped: {d.get('error')}")
        return
    ctx.extra["mypy_crosscheck"] = {k: (v if not isinstance(v, list) else len(v)) for k, v in d.items()}
    for x in d["disagree"]:
        ctx.error(f"resolver disagrees with mypy at {x}")
    for x in d["unresolved_lock_relevant"]:
        ctx.error(f"lock-relevant call not in the call graph: {x}")
    if not d["disagree"] and not d["unresolved_lock_relevant"]:
        ctx.ok("rich/", f"{d['agree']} of {d['sites']} method-call sites resolved by both agree; {d['mypy_only']} resolved only by mypy, none of them lock-relevant; {d['ours_only']} only by the resolver")


# ---------------------------------------------------------------------------
# Lines.justify(justify="full") - shared by C02 (characters/units) and C14 (no IndexError)
def _full_branch(ctx):
    import ast as _ast
    from ..index import AnchorVanished, norm
    f = ctx.repo.fn("containers:Lines.justify")
    for x in _ast.walk(f.node):
        if isinstance(x, _ast.If) and isinstance(x.test, _ast.Compare) and norm(x.test.left) == "justify" and len(x.test.comparators) == 1 and isinstance(x.test.comparators[0], _ast.Constant) and x.test.comparators[0].value == "full":
            return f, x
    raise AnchorVanished("Lines.justify: branch `justify == 'full'` not found")


def justify_full_units(ctx):
    """C02: the space distribution measures words in cells (the unit of `width`), and every word is put back in order."""
    import ast as _ast
    from ..index import norm, short
    f, br = _full_branch(ctx)
    m = f.module
    unit = {"width": "cells"}

    def u(e):
        if isinstance(e, _ast.Constant):
            return "const"
        if isinstance(e, _ast.Name):
            return unit.get(e.id)
        if isinstance(e, _ast.Call):
            fn = norm(e.func)
            if fn == "cell_len":
                return "cells"
            if fn == "len":
                a = e.args[0] if e.args else None
                # len(words) / len(spaces) count list elements; len(<Text or str>) counts characters
                if isinstance(a, _ast.Name) and unit.get(a.id) == "list":
                    return "count"
                return "chars"
            if fn == "sum" and e.args and isinstance(e.args[0], (_ast.GeneratorExp, _ast.ListComp)):
                return u(e.args[0].elt)
            return None
        if isinstance(e, _ast.BinOp) and isinstance(e.op, (_ast.Add, _ast.Sub)):
            us = {u(e.left), u(e.right)} - {"const", "count", None}
            return us.pop() if len(us) == 1 else ("mixed" if len(us) == 2 else ("count" if "count" in (u(e.left), u(e.right)) else None))
        return None

    body = [x for st in br.body for x in _ast.walk(st)]
    for x in body:
        if isinstance(x, _ast.Assign) and len(x.targets) == 1 and isinstance(x.targets[0], _ast.Name):
            v = x.value
            if isinstance(v, (_ast.List, _ast.ListComp)) or (isinstance(v, _ast.Call) and isinstance(v.func, _ast.Attribute) and v.func.attr == "split"):
                unit[x.targets[0].id] = "list"
    for _ in range(3):
        for x in body:
            if isinstance(x, _ast.Assign) and len(x.targets) == 1 and isinstance(x.targets[0], _ast.Name):
                uu = u(x.value)
                if uu in ("cells", "chars", "count", "mixed") and unit.get(x.targets[0].id) in (None, uu):
                    unit[x.targets[0].id] = uu
    n = 0
    for x in body:
        if isinstance(x, _ast.Compare) and len(x.ops) == 1 and isinstance(x.ops[0], (_ast.Lt, _ast.Gt, _ast.LtE, _ast.GtE)):
            a, b = u(x.left), u(x.comparators[0])
            if "cells" in (a, b) or "chars" in (a, b) or "mixed" in (a, b):
                n += 1
                ctx.check(not ({a, b} == {"cells", "chars"} or "mixed" in (a, b)), f.fq, norm(x), f"{m.relpath}:{x.lineno}", f"`{norm(x)}` compares {a} with {b} (spaces count one cell each)",
                          f"`{norm(x)}` in the full-justify branch compares a character count with the cell width: a line with double-width characters is padded beyond the width and the later truncate() crops real characters off its end")
    # the same unit discipline where the spare width is computed by subtraction instead of compared (closed-form distribution)
    for x in body:
        if isinstance(x, _ast.BinOp) and isinstance(x.op, _ast.Sub) and any(isinstance(y, _ast.Name) and y.id == "width" for y in _ast.walk(x.left)) and not any(x in list(_ast.walk(p_)) and p_ is not x for p_ in body if isinstance(p_, _ast.BinOp) and isinstance(p_.op, _ast.Sub)):
            uu = u(x)
            n += 1
            ctx.check(uu != "mixed", f.fq, norm(x), f"{m.relpath}:{x.lineno}", f"`{norm(x)}` subtracts cell measures from the cell width",
                      f"`{norm(x)}` in the full-justify branch subtracts a character count from the cell width: a line with double-width characters is padded beyond the width and the later truncate() crops real characters off its end")
    ctx.floor(n, 1, "width comparisons in the full-justify branch")
    # every word is re-emitted, in order, unconditionally
    loops = [x for x in body if isinstance(x, _ast.For) and any(isinstance(c, _ast.Name) and c.id == "words" for c in _ast.walk(x.iter))]
    ok = False
    for lp in loops:
        tnames = [t.id for t in _ast.walk(lp.target) if isinstance(t, _ast.Name)]
        for st in lp.body:  # top-level statements of the loop body only (unconditional)
            if isinstance(st, _ast.Expr) and isinstance(st.value, _ast.Call) and norm(st.value.func).endswith(".append") and st.value.args and isinstance(st.value.args[0], _ast.Name) and st.value.args[0].id in tnames:
                ok = True
    ctx.check(ok, f.fq, "tokens.append(word)", f"{m.relpath}:{br.lineno}", "every word of the line is appended to the rebuilt line, unconditionally and in order",
              "the full-justify branch no longer re-appends every word of the line unconditionally: characters are dropped when the line is rebuilt")


def justify_full_indices(ctx):
    """C14: every subscript of the gap-count list in the full-justify branch is in range.
    The list is found by its construction ([1 for _ in range(k)] / [1] * k), not by its name; copies of it are aliases.
    A subscript is (A) mirrored  L[len(L) - c - 1]  or (C) direct  L[c]  with a modular cursor c - every definition of c that
    reaches the subscript is 0, len(L) - 1 or (c +- 1) % len(L), L is non-empty there, and c is initialised after each new list -
    or (B)  L[i]  with i from enumerate(..) under the guard i < len(L).  A list consumed through zip() needs no subscript."""
    import ast as _ast
    from .. import cfg as cfgmod
    from ..index import AnalysisError, norm, short
    f, br = _full_branch(ctx)
    m = f.module
    g = cfgmod.build(f.node)
    rd = g.reaching_defs(weak=False)
    inside = {id(x) for st in br.body for x in _ast.walk(st)}

    def is_gap_alloc(v):
        if isinstance(v, (_ast.ListComp, _ast.List)):
            return True  # any list built in the branch (ones, computed gap widths, the empty list)
        if isinstance(v, _ast.BinOp) and isinstance(v.op, _ast.Mult):
            for side in (v.left, v.right):
                if isinstance(side, _ast.List) and len(side.elts) == 1 and isinstance(side.elts[0], _ast.Constant) and side.elts[0].value == 1:
                    return True
        return False

    allocs = [n for n in g.stmt_nodes() if n.kind == "stmt" and n.stmt is not None and id(n.stmt) in inside and isinstance(n.stmt, (_ast.Assign, _ast.AnnAssign)) and getattr(n.stmt, "value", None) is not None and is_gap_alloc(n.stmt.value)]
    names = set()
    for n in allocs:
        t = n.stmt.targets[0] if isinstance(n.stmt, _ast.Assign) else n.stmt.target
        if isinstance(t, _ast.Name):
            names.add(t.id)
    changed = True
    while changed:
        changed = False
        for st in (x for b_ in br.body for x in _ast.walk(b_)):
            if isinstance(st, _ast.Assign) and isinstance(st.targets[0], _ast.Name) and isinstance(st.value, _ast.Name) and st.value.id in names and st.targets[0].id not in names:
                names.add(st.targets[0].id)
                changed = True
    if not names:
        # no list of ones that is bumped cell by cell: the gap widths are computed in closed form (or not at all). IndexError can
        # then only come from a subscript with a computed index somewhere in the branch
        risky = [x for st in br.body for x in _ast.walk(st) if isinstance(x, _ast.Subscript) and not isinstance(x.slice, (_ast.Slice, _ast.Constant)) and isinstance(x.ctx, _ast.Load) and not (isinstance(x.value, _ast.Name) and x.value.id == "self")]
        if risky:
            raise AnalysisError(f"Lines.justify: no gap-count list was recognised and the branch subscripts `{norm(risky[0])}`; the index clause is not decided for this form")
        ctx.ok(f.where, "the full-justify branch uses no computed subscript (gap widths in closed form)", f.fq)
        return
    lens = {f"len({a})" for a in names}
    subs = []
    for n in g.stmt_nodes():
        if n.stmt is None or id(n.stmt) not in inside or n.kind not in ("stmt",):
            continue
        for x in _ast.walk(n.stmt):
            if isinstance(x, _ast.Subscript) and isinstance(x.value, _ast.Name) and x.value.id in names and not isinstance(x.slice, _ast.Slice):
                subs.append((n, x))
    if not subs:
        ctx.ok(f.where, "the gap counts are not subscripted (consumed as a sequence)", f.fq)
        return

    def cursor_def_ok(v, i):
        if v is None:
            return False
        if isinstance(v, _ast.Constant) and v.value == 0:
            return True
        if isinstance(v, _ast.BinOp) and isinstance(v.op, _ast.Sub) and norm(v.left) in lens and isinstance(v.right, _ast.Constant) and v.right.value == 1:
            return True
        if isinstance(v, _ast.BinOp) and isinstance(v.op, _ast.Mod) and norm(v.right) in lens and norm(v.left) in (f"{i} + 1", f"1 + {i}", f"{i} - 1"):
            return True
        return False

    def is_init(v):
        return v is not None and ((isinstance(v, _ast.Constant) and v.value == 0) or (isinstance(v, _ast.BinOp) and isinstance(v.op, _ast.Sub) and norm(v.left) in lens and isinstance(v.right, _ast.Constant) and v.right.value == 1))

    for n, x in subs:
        L = x.value.id
        where = f"{m.relpath}:{x.lineno}"
        idx_names = [y.id for y in _ast.walk(x.slice) if isinstance(y, _ast.Name) and y.id not in names and y.id != "len"]
        facts = g.branch_facts(n.id)
        sl = norm(x.slice).replace(" ", "")
        mirrored = any(sl in (f"len({a})-{i}-1", f"len({a})-1-{i}") for a in names for i in idx_names) or sl in tuple(f"-{i}-1" for i in idx_names) + tuple(f"-1-{i}" for i in idx_names) + tuple(f"-({i}+1)" for i in idx_names)
        direct = isinstance(x.slice, _ast.Name)
        i = idx_names[0] if len(idx_names) == 1 else None
        defs = rd.get(n.id, {}).get(i, set()) if i else set()
        from_enum = bool(defs) and all(g.nodes[d].kind == "for" and isinstance(g.nodes[d].stmt.iter, _ast.Call) and norm(g.nodes[d].stmt.iter.func) == "enumerate" and len(g.nodes[d].stmt.iter.args) == 1 for d in defs)
        if i is not None and (mirrored or (direct and not from_enum and not any(norm(t) in tuple(f"{i} < {ln}" for ln in lens) for t, _v in facts))):
            bad = []
            for d in defs:
                dn = g.nodes[d]
                st = dn.stmt
                v = st.value if isinstance(st, _ast.Assign) and dn.kind == "stmt" else None
                if not cursor_def_ok(v, i):
                    bad.append(short(st) if st is not None else "?")
            if not defs:
                bad.append("no definition")
            ctx.check(not bad, f.fq, f"defs of {i} at {norm(x)}", where, f"`{i}` is 0, len({L}) - 1 or ({i} +- 1) % len({L}) on every path to `{norm(x)}`",
                      f"`{norm(x)}`: the cursor `{i}` can hold a value from `{'; '.join(bad)}` here (e.g. left over from a previous line or rebound by another loop), which may be >= len({L}): IndexError while justifying")
            ok_names = set(names) | lens | {f"{ln} > 0" for ln in lens} | {"num_spaces", "num_spaces > 0"}
            nonempty = any(norm(t) in ok_names and v is True for t, v in facts)
            ctx.check(nonempty, f.fq, f"if {L}", where, f"`{L}` is non-empty here", f"`{norm(x)}` is evaluated without a dominating `if {L}:` - a single-word line has no gaps and the modulo / subscript raises")
            inits = {d.id for d in g.stmt_nodes() if d.kind == "stmt" and isinstance(d.stmt, _ast.Assign) and norm(d.stmt.targets[0]) == i and is_init(d.stmt.value)}
            for sd in allocs:
                w = g.must_pass(sd.id, inits, {n.id})
                ctx.check(w is None, f.fq, f"{i} initialised after `{short(sd.stmt)}`", where, f"`{i}` is initialised after each new gap list and before its first use",
                          f"a path from `{short(sd.stmt)}` reaches `{norm(x)}` without passing an initialisation of `{i}` (0 or len - 1): the cursor carries over from the previous line (whose gap count can be larger), so the subscript can be out of range", g.describe_path(w) if w else None)
            resize = [y for y in (z for st in br.body for z in _ast.walk(st)) if isinstance(y, _ast.Call) and isinstance(y.func, _ast.Attribute) and norm(y.func.value) == L and y.func.attr in ("append", "pop", "remove", "clear", "insert", "extend")]
            ctx.check(not resize, f.fq, f"{L} resized", where, f"`{L}` keeps its length while it is indexed", f"`{L}` is resized ({short(resize[0]) if resize else ''}) while the cursor indexes it")
        else:
            # form B: L[i] guarded by i < len(L), i from enumerate (>= 0)
            guarded = i is not None and any(norm(t) in tuple(f"{i} < {ln}" for ln in lens) + tuple(f"{ln} > {i}" for ln in lens) and v is True for t, v in facts)
            ctx.check(i is not None and guarded, f.fq, norm(x), where, f"`{norm(x)}` is guarded by `{i} < len({L})`", f"`{norm(x)}` is evaluated without the guard `{i} < len({L})`: the last word has no following gap and the subscript raises IndexError")
            if i is not None:
                ctx.check(bool(from_enum), f.fq, f"defs of {i}", where, f"`{i}` comes from enumerate(...) (non-negative)", f"`{i}` in `{norm(x)}` is not the counter of enumerate(...): it can be negative or stale")


def close_expr(fn, expr, keep=(), depth: int = 4):
    """Closed form of `expr` inside function `fn`: single-definition temporaries inlined, module-level str/int constants
    substituted, and calls of *simple helpers* (module-level functions / same-class methods whose body is straight-line
    assignments and one return) replaced by their return expression with the arguments substituted."""
    import ast as _ast
    import copy
    from ..astutil import helper_closed_return, inline, single_defs, substitute_call
    m = fn.module
    e = inline(expr, single_defs(fn.node), keep=keep)

    def lookup_callee(call):
        f = call.func
        if isinstance(f, _ast.Name):
            cand = None
            if fn.parent is not None:
                cand = m.functions.get(f"{fn.parent.qualname}.<locals>.{f.id}")
            cand = cand or m.functions.get(f"{fn.qualname}.<locals>.{f.id}") or m.functions.get(f.id)
            return cand, None
        if isinstance(f, _ast.Attribute) and isinstance(f.value, _ast.Name) and f.value.id in ("self", "cls") and fn.cls is not None:
            h = fn.cls.method(f.attr)
            return h, f.value
        return None, None

    class T(_ast.NodeTransformer):
        def __init__(self, d):
            self.d = d

        def visit_Name(self, node):
            if isinstance(node.ctx, _ast.Load) and node.id not in keep and m.module_const(node.id) is not None:
                v = m.module_const(node.id)
                if isinstance(v, _ast.Constant) and isinstance(v.value, (str, int)) and not isinstance(v.value, bool):
                    return copy.deepcopy(v)
            return node

        def visit_Call(self, node):
            node = self.generic_visit(node)
            if self.d <= 0:
                return node
            callee, recv = lookup_callee(node)
            if callee is None or callee is fn:
                return node
            closed = helper_closed_return(callee.node)
            if closed is None:
                return node
            sub = substitute_call(callee.node, node, closed, receiver=recv)
            if sub is None:
                return node
            return T(self.d - 1).visit(sub)

        def visit_Lambda(self, node):
            return node
    return T(depth).visit(copy.deepcopy(e))


# ---------------------------------------------------------------------------
# segment streams: one normal form for "turn each (text, style, is_control) segment of <src> into output pieces"

def segment_streams(fn, src_pred=None):
    """All per-segment emitters in function `fn`, each as (src expr node, paths, anchor node) where paths is a list of
    (facts dict, emitted expression text or None).  Accepted shapes: a for loop over the segments whose body appends to a
    list / yields, or a list comprehension / generator expression (filters + element, conditional expressions forked).
    The segment's fields are renamed to the placeholders TEXT, STYLE, CTRL whether the code unpacks a 3-tuple target or
    uses attribute access on a single loop variable; single-assignment temporaries are inlined; tests are canonicalised."""
    import ast as _ast
    import copy
    from ..astutil import inline
    from ..index import AnalysisError, norm, walk_local
    from ..yieldpaths import Enumerator, Unsupported, canon_test
    FIELDS = ("text", "style", "is_control")
    PH = ("TEXT", "STYLE", "CTRL")

    def renamer(target):
        mapping = {}
        single = None
        if isinstance(target, _ast.Tuple) and len(target.elts) == 3:
            for e, ph in zip(target.elts, PH):
                if isinstance(e, _ast.Name):
                    mapping[e.id] = ph
        elif isinstance(target, _ast.Name):
            single = target.id
        else:
            return None

        class R(_ast.NodeTransformer):
            def visit_Name(self, node):
                if node.id in mapping:
                    return _ast.copy_location(_ast.Name(id=mapping[node.id], ctx=node.ctx), node)
                return node

            def visit_Attribute(self, node):
                if single is not None and isinstance(node.value, _ast.Name) and node.value.id == single and node.attr in FIELDS:
                    return _ast.copy_location(_ast.Name(id=PH[FIELDS.index(node.attr)], ctx=_ast.Load()), node)
                return self.generic_visit(node)
        return R(), set(mapping) | ({single} if single else set())

    def retext(r, text):
        if text is None:
            return None
        try:
            e = _ast.parse(text, mode="eval").body
        except SyntaxError:
            return text
        return norm(r.visit(e))

    from ..yieldpaths import resolve as _resolve

    def identity_elt(elt, target):
        """the comprehension element is the segment itself (same tuple / same variable)"""
        return norm(elt) == norm(target) or (isinstance(elt, _ast.Tuple) and isinstance(target, _ast.Tuple) and [norm(e) for e in elt.elts] == [norm(e) for e in target.elts])

    def enclosing_true_facts(node, defs):
        facts = {}
        cur, child = fn.module.parent_of.get(node), node
        while cur is not None and cur is not fn.node:
            if isinstance(cur, _ast.If):
                truth = any(child is b for b in cur.body)
                for a, v in canon_test(inline(cur.test, defs), truth):
                    facts[a] = v
            cur, child = fn.module.parent_of.get(cur), cur
        return facts

    def prefilters(src, before_line, defs):
        """[(guard facts, filter facts)] for re-assignments `src = <identity comprehension over src with ifs>` or
        `src = Segment.filter_control(src)` that precede the stream"""
        out = []
        if not isinstance(src, _ast.Name):
            return out
        for a in walk_local(fn.node):
            if not (isinstance(a, _ast.Assign) and len(a.targets) == 1 and norm(a.targets[0]) == src.id and a.lineno < before_line):
                continue
            v = a.value
            flt = None
            if isinstance(v, (_ast.ListComp, _ast.GeneratorExp)) and len(v.generators) == 1 and norm(v.generators[0].iter) == src.id and identity_elt(v.elt, v.generators[0].target):
                rr = renamer(v.generators[0].target)
                if rr is not None:
                    flt = {}
                    for cond in v.generators[0].ifs:
                        for at, tv in canon_test(rr[0].visit(copy.deepcopy(inline(cond, defs))), True):
                            flt[at] = tv
            elif isinstance(v, _ast.Call) and norm(v.func).endswith("filter_control") and len(v.args) == 1 and norm(v.args[0]) == src.id and not v.keywords:
                flt = {"CTRL": False}
            if flt:
                out.append((enclosing_true_facts(a, defs), flt))
        return out

    def with_prefilters(paths, pfs):
        for guard, flt in pfs:
            new = []
            for d, e in paths:
                # guard holds: the element passed the filter
                d1 = dict(d)
                ok1 = all(d1.get(k, v) == v for k, v in list(guard.items()) + list(flt.items()))
                if ok1:
                    d1.update(guard)
                    d1.update(flt)
                    new.append((d1, e))
                # guard does not hold (one path per negated guard atom)
                for k, v in guard.items():
                    if d.get(k, not v) == (not v):
                        d2 = dict(d)
                        d2[k] = not v
                        new.append((d2, e))
            # elements removed by the filter: nothing is emitted for them
            for k, v in flt.items():
                d3 = dict(guard)
                d3[k] = not v
                new.append((d3, None))
            paths = new
        return paths

    # names that hold the stream itself, possibly filtered:  N = [seg for seg in S if <tests>]  /  N = Segment.filter_control(S)  /
    # N = list(S)  with S the source (or such a name); a loop over N is a loop over S behind those filters
    derived = {}
    n_defs = {}
    for a in walk_local(fn.node):
        if isinstance(a, _ast.Assign) and len(a.targets) == 1 and isinstance(a.targets[0], _ast.Name):
            n_defs[a.targets[0].id] = n_defs.get(a.targets[0].id, 0) + 1

    def src_ok(it):
        return (src_pred is None or src_pred(it)) or (isinstance(it, _ast.Name) and it.id in derived)
    changed = src_pred is not None
    while changed:
        changed = False
        for a in walk_local(fn.node):
            if not (isinstance(a, _ast.Assign) and len(a.targets) == 1 and isinstance(a.targets[0], _ast.Name)):
                continue
            N = a.targets[0].id
            if N in derived or n_defs.get(N) != 1:
                continue
            v = a.value
            S = flt = None
            if isinstance(v, (_ast.ListComp, _ast.GeneratorExp)) and len(v.generators) == 1 and identity_elt(v.elt, v.generators[0].target):
                rr = renamer(v.generators[0].target)
                if rr is not None:
                    S, flt = v.generators[0].iter, {}
                    for cond in v.generators[0].ifs:
                        for at, tv in canon_test(rr[0].visit(copy.deepcopy(cond)), True):
                            flt[at] = tv
            elif isinstance(v, _ast.Call) and norm(v.func).endswith("filter_control") and len(v.args) == 1 and not v.keywords:
                S, flt = v.args[0], {"CTRL": False}
            elif isinstance(v, _ast.Call) and norm(v.func) in ("list", "tuple") and len(v.args) == 1 and not v.keywords:
                S, flt = v.args[0], {}
            if S is not None and norm(S) != N and ((src_pred(S)) or (isinstance(S, _ast.Name) and S.id in derived)):
                derived[N] = (S, flt, a)
                changed = True

    def derived_prefilters(it, defs):
        out = []
        seen = set()
        while isinstance(it, _ast.Name) and it.id in derived and it.id not in seen:
            seen.add(it.id)
            S, flt, a = derived[it.id]
            if flt:
                out.append((enclosing_true_facts(a, defs), flt))
            it = S
        return out

    # generator functions nested in fn (`def render_segments(): for .. in buffer: yield ..`) belong to fn
    scopes = [fn.node] + [x for x in walk_local(fn.node) if isinstance(x, _ast.FunctionDef) and x is not fn.node]
    streams = []
    for scope in scopes:
        nodes = list(walk_local(fn.node)) if scope is fn.node else [y for st in scope.body for y in _ast.walk(st)]
        for x in nodes:
            if isinstance(x, (_ast.ListComp, _ast.GeneratorExp)) and len(x.generators) == 1:
                ge = x.generators[0]
                rr = renamer(ge.target)
                if rr is None or not src_ok(ge.iter):
                    continue
                if any(x is d[2].value for d in derived.values()):
                    continue  # the definition of a derived stream name
                if identity_elt(x.elt, ge.target) and ge.ifs:
                    continue  # a pure filter of the stream: handled as a pre-filter of the stream that consumes it
                r, bound = rr
                en = Enumerator(fn.node)
                en.defs = {k: v for k, v in en.defs.items() if k not in bound}
                base = []
                for cond in ge.ifs:
                    base += canon_test(r.visit(copy.deepcopy(inline(cond, en.defs))), True)
                paths = []
                for facts, txt in en.forks(x.elt):
                    d = dict(base)
                    for e in facts:
                        for a, v in canon_test(_ast.parse(retext(r, e[1]), mode="eval").body, e[2]):
                            d[a] = v
                    paths.append((d, retext(r, txt)))
                for cond in ge.ifs:
                    paths.append((dict(canon_test(r.visit(copy.deepcopy(inline(cond, en.defs))), False)), None))
                streams.append((ge.iter, with_prefilters(paths, prefilters(ge.iter, x.lineno, en.defs) + derived_prefilters(ge.iter, en.defs)), x))
            elif isinstance(x, _ast.For):
                rr = renamer(x.target)
                if rr is None or not src_ok(x.iter):
                    continue
                r, bound = rr
                en = Enumerator(fn.node)
                en.defs = {k: v for k, v in en.defs.items() if k not in bound}
                try:
                    bodies = en.block(x.body)
                except Unsupported as u:
                    raise AnalysisError(f"{fn.fq}: loop over the segments uses a statement outside the path normal form ({u})")
                paths = []
                for ev, _t in bodies:
                    ev = list(_resolve(tuple(ev)))
                    d = {}
                    for e in ev:
                        if e[0] == "cond":
                            for a, v in canon_test(_ast.parse(retext(r, e[1]), mode="eval").body, e[2]):
                                d[a] = v
                    emits = []
                    for e in ev:
                        if e[0] == "do" and ".append(" in e[1]:
                            c = _ast.parse(e[1], mode="eval").body
                            if isinstance(c, _ast.Call) and len(c.args) == 1:
                                emits.append(retext(r, norm(c.args[0])))
                        elif e[0] == "yield":
                            emits.append(retext(r, e[1]))
                    if not emits:
                        paths.append((d, None))
                    for em in emits:
                        paths.append((d, em))
                streams.append((x.iter, with_prefilters(paths, prefilters(x.iter, x.lineno, en.defs) + derived_prefilters(x.iter, en.defs)), x))
    return streams


def inline_helpers_in_function(fn, depth: int = 3):
    """Deep copy of fn's FunctionDef in which calls of *simple helpers* (same-class methods via self./cls., local or
    module-level functions whose body is straight-line assignments and one return) are replaced by their return expression
    with the arguments substituted - so `a, b = self._split(x)` reads `a, b = divmod(int(x), 8)`.  Positions are kept."""
    import ast as _ast
    import copy
    from ..astutil import helper_closed_return, substitute_call
    m = fn.module

    def lookup(call):
        f = call.func
        if isinstance(f, _ast.Name):
            cand = m.functions.get(f"{fn.qualname}.<locals>.{f.id}") or m.functions.get(f.id)
            return cand, None
        if isinstance(f, _ast.Attribute) and isinstance(f.value, _ast.Name) and f.value.id in ("self", "cls") and fn.cls is not None:
            return fn.cls.method(f.attr), f.value
        return None, None

    class T(_ast.NodeTransformer):
        def __init__(self, d):
            self.d = d

        def visit_Call(self, node):
            node = self.generic_visit(node)
            if self.d <= 0:
                return node
            callee, recv = lookup(node)
            if callee is None or callee is fn:
                return node
            closed = helper_closed_return(callee.node)
            if closed is None:
                return node
            sub = substitute_call(callee.node, node, closed, receiver=recv)
            if sub is None:
                return node
            sub = T(self.d - 1).visit(sub)
            for x in _ast.walk(sub):
                _ast.copy_location(x, node)
            return sub

        def visit_FunctionDef(self, node):
            if node is not root:
                return node
            return self.generic_visit(node)
    root = copy.deepcopy(fn.node)
    out = T(depth).visit(root)
    _ast.fix_missing_locations(out)
    return out


def splice_generator_helpers(fn):
    """FuncInfo whose body has every statement `yield from self.<h>(args)` replaced by the body of the same-class generator
    method <h> (parameters substituted by the arguments, the helper's own locals renamed apart) - so a __rich_console__
    split into private generator helpers is analysed as the single function it is equivalent to.  Only helpers without
    `return`, with plain positional/keyword parameters and simple arguments (names, attributes, constants) are spliced;
    anything else is left as it is.  Returns `fn` itself when nothing was spliced."""
    import ast as _ast
    import copy
    if fn.cls is None:
        return fn
    counter = [0]

    def simple(a):
        return isinstance(a, (_ast.Name, _ast.Constant)) or (isinstance(a, _ast.Attribute) and simple(a.value)) or (isinstance(a, _ast.Tuple) and all(simple(e) for e in a.elts))

    caller_names = {x.id for x in _ast.walk(fn.node) if isinstance(x, _ast.Name)} | {a.arg for a in fn.node.args.args}

    def unguard(stmts):
        """`if c: A; return` followed by B  ==>  `if c: A else: B` (top level only); None if another return remains"""
        out = []
        for i, st in enumerate(stmts):
            if isinstance(st, _ast.If) and not st.orelse and st.body and isinstance(st.body[-1], _ast.Return) and st.body[-1].value is None:
                rest = unguard(stmts[i + 1:])
                if rest is None:
                    return None
                st.body = st.body[:-1] or [_ast.Pass()]
                st.orelse = rest
                out.append(st)
                break
            if isinstance(st, _ast.Return) and st.value is None and i == len(stmts) - 1:
                break
            out.append(st)
        if any(isinstance(x, _ast.Return) for st in out for x in _ast.walk(st)):
            return None
        return out

    def expand(stmts, depth):
        out = []
        changed = False
        for st in stmts:
            call = st.value.value if isinstance(st, _ast.Expr) and isinstance(st.value, _ast.YieldFrom) and isinstance(st.value.value, _ast.Call) else None
            h = None
            if call is not None and isinstance(call.func, _ast.Attribute) and isinstance(call.func.value, _ast.Name) and call.func.value.id == "self" and depth < 3:
                h = fn.cls.method(call.func.attr)
            hbody = None
            if h is not None and h is not fn and any(isinstance(x, (_ast.Yield, _ast.YieldFrom)) for x in _ast.walk(h.node)):
                hbody = unguard([b for b in copy.deepcopy(h.node.body) if not (isinstance(b, _ast.Expr) and isinstance(b.value, _ast.Constant))])
            if hbody is not None:
                a = h.node.args
                static = any(isinstance(d, _ast.Name) and d.id == "staticmethod" for d in h.node.decorator_list)
                params = [p.arg for p in a.args][0 if static else 1:]
                ok = not (a.vararg or a.kwarg or a.posonlyargs or a.defaults or a.kw_defaults and any(d is not None for d in a.kw_defaults)) and len(call.args) <= len(params) and all(simple(x) for x in call.args) and all(k.arg and simple(k.value) for k in call.keywords)
                binding = dict(zip(params, call.args))
                for k in call.keywords:
                    binding[k.arg] = k.value
                allp = params + [p.arg for p in a.kwonlyargs]
                if ok and set(binding) == set(allp):
                    counter[0] += 1
                    suffix = f"__h{counter[0]}"
                    stored = ({x.id for x in _ast.walk(h.node) if isinstance(x, _ast.Name) and isinstance(x.ctx, _ast.Store)} - set(allp)) & caller_names  # only colliding names are renamed apart

                    class R(_ast.NodeTransformer):
                        def visit_Name(self, node):
                            if node.id in binding and isinstance(node.ctx, _ast.Load):
                                return _ast.copy_location(copy.deepcopy(binding[node.id]), node)
                            if node.id in stored:
                                return _ast.copy_location(_ast.Name(id=node.id + suffix, ctx=node.ctx), node)
                            return node
                    body = hbody
                    if not any(isinstance(x, _ast.Name) and isinstance(x.ctx, _ast.Store) and x.id in binding for b in body for x in _ast.walk(b)):
                        body = [R().visit(b) for b in body]
                        body, _c = expand(body, depth + 1)
                        for b in body:
                            for x in _ast.walk(b):
                                if hasattr(x, "lineno"):
                                    x.lineno = st.lineno
                        out.extend(body)
                        changed = True
                        continue
            # recurse into compound statements
            for field in ("body", "orelse", "finalbody"):
                sub = getattr(st, field, None)
                if isinstance(sub, list) and sub and isinstance(sub[0], _ast.stmt):
                    new, c = expand(sub, depth)
                    if c:
                        setattr(st, field, new)
                        changed = True
            out.append(st)
        return out, changed

    node = copy.deepcopy(fn.node)
    new_body, changed = expand(node.body, 0)
    if not changed:
        return fn
    node.body = new_body
    _ast.fix_missing_locations(node)
    f2 = copy.copy(fn)
    f2.node = node
    for parent in _ast.walk(node):
        for child in _ast.iter_child_nodes(parent):
            fn.module.parent_of[child] = parent
    fn.module.parent_of[node] = fn.module.parent_of.get(fn.node)
    return f2


def return_forms(fn, depth: int = 2):
    """[(facts dict, returned expression AST)] of a function, per control-flow path (path normal form, path-local values
    resolved).  A path that returns the result of a same-class method / module-level function call is expanded into the callee's
    own return forms with the arguments substituted (defaults included), so `return self._helper(a, b)` is transparent."""
    import ast as _ast
    from ..astutil import substitute_call
    from ..index import AnalysisError, norm
    from ..yieldpaths import Unsupported, paths_of, resolve
    try:
        P = [resolve(p_) for p_ in paths_of(fn.node)]
    except Unsupported as u:
        raise AnalysisError(f"{fn.fq}: statement outside the path normal form ({u})")
    out = []
    for p_ in P:
        rets = [e for e in p_ if e[0] == "return"]
        if len(rets) != 1 or rets[0][1] is None:
            continue
        facts = {}
        feasible_path = True
        for e in p_:
            if e[0] == "cond":
                if facts.get(e[1], e[2]) != e[2]:
                    feasible_path = False  # the same test taken both ways on one path
                facts[e[1]] = e[2]
        if feasible_path:
            from ..yieldpaths import consistent as _cons
            # composite facts (a and b is False, ...) must agree with the atomic ones
            feasible_path = _cons(p_, {k: v_ for k, v_ in facts.items() if " and " not in k and " or " not in k})
        if not feasible_path:
            continue
        try:
            v = _ast.parse(rets[0][1], mode="eval").body
        except SyntaxError:
            continue
        callee = recv = None
        if depth > 0 and isinstance(v, _ast.Call):
            f_ = v.func
            if isinstance(f_, _ast.Attribute) and isinstance(f_.value, _ast.Name) and f_.value.id in ("self", "cls") and fn.cls is not None:
                callee, recv = fn.cls.method(f_.attr), f_.value
                if callee is not None and any(isinstance(d, _ast.Name) and d.id == "staticmethod" for d in callee.node.decorator_list):
                    recv = None
            elif isinstance(f_, _ast.Name):
                callee = fn.module.functions.get(f_.id)
        if callee is not None and callee is not fn:
            expanded = []
            ok = True
            for cf, cv in return_forms(callee, depth - 1):
                sv = substitute_call(callee.node, v, cv, receiver=recv)
                if sv is None:
                    ok = False
                    break
                d = dict(facts)
                for k, tv in cf.items():
                    try:
                        sk = substitute_call(callee.node, v, _ast.parse(k, mode="eval").body, receiver=recv)
                    except SyntaxError:
                        sk = None
                    d[norm(sk) if sk is not None else k] = tv
                # facts that became constants after substitution decide feasibility of the callee path
                feasible = True
                for k in list(d):
                    try:
                        c = _ast.literal_eval(k)
                    except (ValueError, SyntaxError):
                        continue
                    if bool(c) != d[k]:
                        feasible = False
                    del d[k]
                if not feasible:
                    continue
                expanded.append((d, sv))
            if ok and expanded:
                out.extend(expanded)
                continue
        out.append((facts, v))
    return out


def style_parse_vocabulary(ctx):
    """(dict literal value, its AST node) of the attribute vocabulary used by Style.parse: a dict display with at least 13 string
    keys assigned inside parse, or a class-level / module-level constant that parse refers to by name"""
    import ast as _ast
    from ..astutil import literal
    from ..index import AnalysisError, walk_local
    parse = ctx.repo.cls("style:Style").method("parse")
    cands = []
    for n in walk_local(parse.node):
        if isinstance(n, _ast.Assign) and isinstance(n.value, _ast.Dict) and len(n.value.keys) >= 13:
            cands.append(n.value)
    if not cands:
        used = {x.attr for x in walk_local(parse.node) if isinstance(x, _ast.Attribute) and isinstance(x.value, _ast.Name) and x.value.id in ("cls", "Style", "self")} | {x.id for x in walk_local(parse.node) if isinstance(x, _ast.Name)}
        for st in list(parse.cls.node.body) + list(parse.module.tree.body):
            v = st.value if isinstance(st, (_ast.Assign, _ast.AnnAssign)) else None
            t = (st.targets[0] if isinstance(st, _ast.Assign) else st.target) if v is not None else None
            if isinstance(v, _ast.Dict) and len(v.keys) >= 13 and isinstance(t, _ast.Name) and t.id in used:
                cands.append(v)
    for v in cands:
        try:
            d = literal(v)
        except AnalysisError:
            continue
        if isinstance(d, dict) and "bold" in d:
            return d, v
    return None


def table_value(module, name: str):
    """Python value of a module-level table: a literal, or - when it is assembled by trivially pure code (dict(A), {**A, **B},
    comprehensions over constant ranges, a parameterless builder function filling a dict in loops) - its constant-folded value
    (sa.consteval: a closed whitelist of constructs, nothing of the package is executed)."""
    from ..astutil import literal
    from ..consteval import NotConstant, fold
    from ..index import AnalysisError
    node = module.global_assign(name)
    try:
        return literal(node)
    except AnalysisError:
        pass
    try:
        return fold(module, node)
    except NotConstant as e:
        raise AnalysisError(f"{module.short}:{name} is neither a literal nor foldable to a constant ({e})")
    except Exception as e:  # arithmetic / type errors inside the folded term
        raise AnalysisError(f"{module.short}:{name} could not be folded: {type(e).__name__}: {e}")


def units_check(ctx, f, cell_params, floor: int = 1):
    """Units discipline inside one function: the parameters in `cell_params` are widths in terminal CELLS.  Every comparison or
    subtraction that relates such a width to another quantity must relate it to a cell measure (cell_len(..), another cell
    quantity), never to a character count (len(..) of text).  Flow-insensitive unit inference over the function's local names."""
    import ast as _ast
    from ..astutil import alias_map, expand_alias
    from ..index import norm, short, walk_local
    aliases = alias_map(f.node)
    unit = {p: "cells" for p in cell_params}
    # names that hold a LIST of pieces (their len() is a number of pieces, not of characters)
    list_names = set()
    for x in walk_local(f.node):
        if isinstance(x, _ast.Assign) and len(x.targets) == 1 and isinstance(x.targets[0], _ast.Name):
            v_ = x.value
            if isinstance(v_, (_ast.List, _ast.ListComp, _ast.Tuple)) or (isinstance(v_, _ast.Call) and (norm(v_.func) in ("list", "tuple", "sorted") or (isinstance(v_.func, _ast.Attribute) and v_.func.attr in ("split", "splitlines", "divide", "rsplit")))):
                list_names.add(x.targets[0].id)

    def u(e):
        if isinstance(e, _ast.Constant):
            return "const"
        if isinstance(e, _ast.Name):
            return unit.get(e.id)
        if isinstance(e, _ast.Attribute) and e.attr in ("cell_len", "cell_length"):
            return "cells"
        if isinstance(e, _ast.Call):
            cn = norm(expand_alias(e.func, aliases))
            if cn.split(".")[-1] in ("cell_len", "get_character_cell_size"):
                return "cells"
            if cn == "len":
                if e.args and ((isinstance(e.args[0], _ast.Name) and e.args[0].id in list_names) or (isinstance(e.args[0], _ast.Attribute) and e.args[0].attr.startswith("_lines"))):
                    return None
                return "chars"
            if cn in ("min", "max") and e.args:
                us = {u(a) for a in e.args} - {"const", None}
                return us.pop() if len(us) == 1 else ("mixed" if len(us) > 1 else None)
            return None
        if isinstance(e, _ast.BinOp) and isinstance(e.op, (_ast.Add, _ast.Sub)):
            us = {u(e.left), u(e.right)} - {"const", None}
            return us.pop() if len(us) == 1 else ("mixed" if len(us) == 2 else None)
        if isinstance(e, _ast.BinOp) and isinstance(e.op, (_ast.FloorDiv, _ast.Mult)):
            return u(e.left) if u(e.right) in ("const", None) else (u(e.right) if u(e.left) in ("const", None) else None)
        return None
    for _ in range(3):
        for x in walk_local(f.node):
            if isinstance(x, _ast.Assign) and len(x.targets) == 1 and isinstance(x.targets[0], _ast.Name):
                uu = u(x.value)
                if uu in ("cells", "chars") and unit.get(x.targets[0].id) in (None, uu):
                    unit[x.targets[0].id] = uu
    n = 0
    for x in walk_local(f.node):
        pairs = []
        if isinstance(x, _ast.Compare) and len(x.ops) == 1 and isinstance(x.ops[0], (_ast.Lt, _ast.Gt, _ast.LtE, _ast.GtE, _ast.Eq, _ast.NotEq)):
            pairs.append((x.left, x.comparators[0]))
        if isinstance(x, _ast.BinOp) and isinstance(x.op, _ast.Sub):
            pairs.append((x.left, x.right))
        for a, b in pairs:
            ua, ub = u(a), u(b)
            if "cells" in (ua, ub) or "chars" in (ua, ub):
                if {ua, ub} <= {"const", None, "chars"}:
                    continue  # character arithmetic among itself is not this rule's business
                n += 1
                ctx.check({ua, ub} != {"cells", "chars"} and "mixed" not in (ua, ub), f.fq, short(x), f"{f.module.relpath}:{x.lineno}", f"`{short(x)}` relates {ua or 'a unitless value'} to {ub or 'a unitless value'}",
                          f"`{short(x)}` in {f.qualname} relates a width in terminal cells to a character count (len): for double-width or zero-width characters the text is cropped / padded to the wrong width")
    ctx.floor(n, floor, f"unit-sensitive comparisons/subtractions in {f.qualname}")


def chunk_source(fn_node, name: str):
    """What a name that is WRITTEN piece by piece stands for.  Returns (source_name, kind) or None:
      ('text', 'pieces')      name is the loop variable of `for name in text.splitlines(..)` - the pieces of text, in order
      ('text', 'pieces-or-whole:<test>')  name is the loop variable of `for name in C` where every definition of C is
                              `text.splitlines(True) if <test> else [text]` (or the two arms assigned under if/else): on the
                              else side the loop runs once, with the whole text
    str.splitlines(True) keeps the line ends, so the pieces concatenate to the text either way."""
    def splitlines_of(e):
        if isinstance(e, ast.Call) and isinstance(e.func, ast.Attribute) and e.func.attr == "splitlines" and isinstance(e.func.value, ast.Name):
            keep = (e.args and isinstance(e.args[0], ast.Constant) and e.args[0].value is True) or any(k.arg == "keepends" and isinstance(k.value, ast.Constant) and k.value.value is True for k in e.keywords)
            return e.func.value.id if keep else None
        return None

    def singleton_of(e):
        if isinstance(e, (ast.List, ast.Tuple)) and len(e.elts) == 1 and isinstance(e.elts[0], ast.Name):
            return e.elts[0].id
        return None
    for lp in walk_local(fn_node):
        if not (isinstance(lp, ast.For) and isinstance(lp.target, ast.Name) and lp.target.id == name):
            continue
        src = splitlines_of(lp.iter)
        if src:
            return src, "pieces"
        if isinstance(lp.iter, ast.Name):
            defs = [x.value for x in walk_local(fn_node) if isinstance(x, ast.Assign) and len(x.targets) == 1 and isinstance(x.targets[0], ast.Name) and x.targets[0].id == lp.iter.id]
            if len(defs) == 1 and isinstance(defs[0], ast.IfExp):
                a, b = splitlines_of(defs[0].body), singleton_of(defs[0].orelse)
                if a and a == b:
                    return a, "pieces-or-whole:" + norm(defs[0].test)
                a, b = singleton_of(defs[0].body), splitlines_of(defs[0].orelse)
                if a and a == b:
                    return a, "pieces-or-whole:not " + norm(defs[0].test)
    return None


# what the width-like parameters of the text-shaping API count: terminal cells or characters
TEXT_PARAM_UNITS = {
    "truncate": {"max_width": "cells"},
    "align": {"width": "cells"},
    "wrap": {"width": "cells"},
    "rstrip_end": {"size": "cells"},
    "set_length": {"new_length": "chars"},
    "right_crop": {"amount": "chars"},
    "justify": {"width": "cells"},
}
TEXT_PARAM_ORDER = {
    "truncate": ["max_width"], "align": [None, "width"], "wrap": [None, "width"], "rstrip_end": ["size"], "set_length": ["new_length"],
    "right_crop": ["amount"], "justify": [None, "width"],
}


def units_calls_check(ctx, f, method_name: str) -> int:
    """Units across calls: inside f (one of the text-shaping methods; its own width parameter seeded from TEXT_PARAM_UNITS) every
    argument handed to another text-shaping method must count what that parameter counts - a character count (len(..), a `chars`
    parameter) passed as a width in cells, or a cell width passed where characters are removed / kept, crops or pads text with
    double-width characters at the wrong place.  Returns the number of call arguments examined."""
    import ast as _ast
    from ..astutil import alias_map, expand_alias
    from ..index import norm, short, walk_local
    aliases = alias_map(f.node)
    unit = dict(TEXT_PARAM_UNITS.get(method_name, {}))

    def u(e):
        if isinstance(e, _ast.Constant):
            return "const"
        if isinstance(e, _ast.Name):
            return unit.get(e.id)
        if isinstance(e, _ast.Attribute) and e.attr in ("cell_len", "cell_length"):
            return "cells"
        if isinstance(e, _ast.Call):
            cn = norm(expand_alias(e.func, aliases))
            if cn.split(".")[-1] in ("cell_len", "get_character_cell_size"):
                return "cells"
            if cn == "len":
                return "chars"
            if cn in ("min", "max") and e.args:
                us = {u(a) for a in e.args} - {"const", None}
                return us.pop() if len(us) == 1 else ("mixed" if len(us) > 1 else None)
            return None
        if isinstance(e, _ast.BinOp) and isinstance(e.op, (_ast.Add, _ast.Sub)):
            us = {u(e.left), u(e.right)} - {"const", None}
            return us.pop() if len(us) == 1 else ("mixed" if len(us) == 2 else None)
        if isinstance(e, _ast.IfExp):
            us = {u(e.body), u(e.orelse)} - {"const", None}
            return us.pop() if len(us) == 1 else ("mixed" if len(us) == 2 else None)
        return None
    for _ in range(3):
        for x in walk_local(f.node):
            if isinstance(x, _ast.Assign) and len(x.targets) == 1 and isinstance(x.targets[0], _ast.Name):
                uu = u(x.value)
                if uu in ("cells", "chars") and unit.get(x.targets[0].id) in (None, uu):
                    unit[x.targets[0].id] = uu
    n = 0
    for c in walk_local(f.node):
        if not (isinstance(c, _ast.Call) and isinstance(c.func, _ast.Attribute) and c.func.attr in TEXT_PARAM_UNITS):
            continue
        if isinstance(c.func.value, _ast.Name) and c.func.value.id in ("console", "options", "Segment", "cls", "str"):
            continue
        callee = c.func.attr
        order = TEXT_PARAM_ORDER[callee]
        bound = {}
        for i, a in enumerate(c.args):
            if i < len(order) and order[i]:
                bound[order[i]] = a
        for k in c.keywords:
            if k.arg in TEXT_PARAM_UNITS[callee]:
                bound[k.arg] = k.value
        for pname, a in bound.items():
            want = TEXT_PARAM_UNITS[callee][pname]
            got = u(a)
            n += 1
            ctx.check(got in (None, "const", want), f.fq, short(c), f"{f.module.relpath}:{c.lineno}",
                      f"`{short(c)}`: `{norm(a)}` ({got or 'unitless'}) is passed as {callee}({pname}), counted in {want}",
                      f"`{short(c)}` in {f.qualname} passes `{norm(a)}`, a count of {got}, as `{pname}` of {callee}(), which counts {want}: text with double-width or zero-width characters is cropped / padded at the wrong place (and {callee}() applies its own overflow rules)")
    # and the function's own comparisons of its width parameter
    return n
