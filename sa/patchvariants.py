"""Source variants given as unified diffs, applied IN MEMORY to the current /repo source (nothing is written, nothing runs).

Used for the committed corpora under /verif:
  seeded/<Cxx>-<X>/patch.diff   property-breaking changes written by independent sub-agents (must stay detected)
  benign/<Cxx>-<n>.patch.diff   behaviour-preserving refactorings (must stay silent)

A hunk is located by its exact old text (context + removed lines); the occurrence nearest to the line number in the hunk
header is taken, so patches made against an earlier commit still apply after unrelated edits.  A hunk whose old text is no
longer present makes the whole variant *stale* (skipped and reported as such) - never a verdict.
"""
from __future__ import annotations

import glob
import json
import os
import re
from typing import Dict, List, Optional, Tuple

from .index import REPO_ROOT

VERIF = os.path.dirname(os.path.dirname(os.path.abspath(__file__)))
_HUNK = re.compile(r"^@@ -(\d+)(?:,(\d+))? \+(\d+)(?:,(\d+))? @@")


def parse_patch(text: str) -> Dict[str, List[Tuple[int, List[str], List[str]]]]:
    """file -> [(old start line, old lines, new lines)]"""
    files: Dict[str, List[Tuple[int, List[str], List[str]]]] = {}
    cur = None
    old: List[str] = []
    new: List[str] = []
    start = 0
    in_hunk = False

    def flush():
        nonlocal old, new
        if cur is not None and in_hunk:
            files.setdefault(cur, []).append((start, old, new))
        old, new = [], []
    for line in text.splitlines():
        if line.startswith("diff --git"):
            flush()
            in_hunk = False
            cur = None
        elif line.startswith("+++ "):
            p = line[4:].strip()
            cur = p[2:] if p.startswith("b/") else p
        elif line.startswith("--- "):
            continue
        else:
            m = _HUNK.match(line)
            if m:
                flush()
                in_hunk = True
                start = int(m.group(1))
            elif in_hunk:
                if line.startswith("+"):
                    new.append(line[1:])
                elif line.startswith("-"):
                    old.append(line[1:])
                elif line.startswith(" ") or line == "":
                    old.append(line[1:] if line else "")
                    new.append(line[1:] if line else "")
                elif line.startswith("\\"):
                    continue
    flush()
    return files


def apply_patch(text: str, root: Optional[str] = None) -> Optional[Dict[str, str]]:
    """overrides dict {relative path: new source} or None when some hunk does not match the current source"""
    root = root or REPO_ROOT
    out: Dict[str, str] = {}
    for rel, hunks in parse_patch(text).items():
        path = os.path.join(root, rel)
        try:
            src_lines = open(path, encoding="utf-8").read().split("\n")
        except OSError:
            return None
        offset = 0
        for start, old, new in hunks:
            # candidate positions where `old` matches exactly
            n = len(old)
            cands = [i for i in range(0, len(src_lines) - n + 1) if src_lines[i:i + n] == old] if n else [start - 1 + offset]
            if not cands:
                # tolerate trailing-blank-line differences at the end of file
                return None
            want = start - 1 + offset
            pos = min(cands, key=lambda i: abs(i - want))
            src_lines[pos:pos + n] = new
            offset += len(new) - n
        out[rel] = "\n".join(src_lines)
    return out


def corpus() -> List[Tuple[str, str, str, Dict]]:
    """(id, kind 'seed'|'benign', patch text, meta)"""
    out = []
    for d in sorted(glob.glob(os.path.join(VERIF, "seeded", "*", "patch.diff"))):
        sid = os.path.basename(os.path.dirname(d))
        meta = {}
        try:
            meta = json.load(open(os.path.join(os.path.dirname(d), "meta.json")))
        except Exception:
            pass
        out.append((sid, "seed", open(d).read(), meta))
    for d in sorted(glob.glob(os.path.join(VERIF, "benign", "*.patch.diff"))):
        bid = os.path.basename(d)[: -len(".patch.diff")]
        out.append((bid, "benign", open(d).read(), {"property": bid.split("-")[0]}))
    return out


def run_on(prop: str, patch_text: str):
    """(status, detail) of check `prop` on the patched source: 'stale' | 'ok' | 'violation' | 'error'"""
    from .check import run_property
    from .index import Repo
    ov = apply_patch(patch_text)
    if ov is None:
        return "stale", "a hunk no longer matches the current source"
    try:
        repo = Repo(overrides=ov)
    except Exception as e:  # pragma: no cover
        return "error", f"variant does not parse: {e}"
    ctx = run_property(prop, "quick", repo=repo, quiet=True, write_evidence=False)
    if ctx.exit_code == 0:
        return "ok", ""
    if ctx.exit_code == 1:
        return "violation", "; ".join(f"{x.rule} {x.function}: {x.message[:140]}" for x in ctx.unlisted[:3])
    return "error", "; ".join(ctx.errors[:2])
