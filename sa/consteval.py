"""Constant folding of closed, pure expressions of a module (static evaluation of *terms without inputs*).

Used where a rule needs a table as data (e.g. ansi.SGR_STYLE_MAP) and the table is not written as one literal but
assembled by trivially pure code:  `dict(A)`, `{**A, **B}`, comprehensions over constant ranges, f-strings of loop indices,
or a module-level builder function without parameters that fills a dict in `for` loops over `range(..)` and returns it.

Only a closed whitelist of constructs is folded; anything else raises NotConstant and the caller reports "cannot decide".
No name of the analysed package is imported or executed - this interpreter walks the syntax tree and computes with plain Python
ints, strings, tuples, lists and dicts; it has a step budget, no attribute access on foreign objects, no I/O, no calls of
anything but a fixed set of builtins and module-level builder functions of the same module that themselves fold.
"""
from __future__ import annotations

import ast
from typing import Any, Dict

from .index import norm


class NotConstant(Exception):
    pass


_BUILTINS = {
    "dict": dict, "list": list, "tuple": tuple, "set": set, "frozenset": frozenset, "sorted": sorted, "range": range, "len": len,
    "str": str, "int": int, "chr": chr, "ord": ord, "min": min, "max": max, "sum": sum, "enumerate": enumerate, "zip": zip,
    "reversed": reversed, "abs": abs, "bool": bool,
}
_METHODS = {
    dict: {"items", "keys", "values", "copy", "get"},
    str: {"join", "format", "upper", "lower", "strip", "split", "replace", "startswith", "endswith", "zfill"},
    list: {"copy", "index", "count"},
    tuple: {"index", "count"},
}
_MUTATORS = {dict: {"update", "setdefault"}, list: {"append", "extend"}, set: {"add", "update"}}


class Folder:
    def __init__(self, module, budget: int = 200000):
        self.module = module
        self.budget = budget
        self.depth = 0

    def tick(self):
        self.budget -= 1
        if self.budget < 0:
            raise NotConstant("step budget exhausted")

    # -- expressions ------------------------------------------------------
    def ev(self, e: ast.AST, env: Dict[str, Any]):
        self.tick()
        if isinstance(e, ast.Constant):
            return e.value
        if isinstance(e, ast.Name):
            if e.id in env:
                return env[e.id]
            if e.id in ("True", "False", "None"):
                return {"True": True, "False": False, "None": None}[e.id]
            v = self.module.module_const(e.id)
            if v is None:
                raise NotConstant(f"name `{e.id}` is not a module constant")
            return self.ev(v, {})
        if isinstance(e, (ast.Tuple, ast.List, ast.Set)):
            out = []
            for x in e.elts:
                if isinstance(x, ast.Starred):
                    out.extend(self.ev(x.value, env))
                else:
                    out.append(self.ev(x, env))
            return tuple(out) if isinstance(e, ast.Tuple) else (list(out) if isinstance(e, ast.List) else set(out))
        if isinstance(e, ast.Dict):
            d = {}
            for k, v in zip(e.keys, e.values):
                if k is None:
                    d.update(self.ev(v, env))
                else:
                    d[self.ev(k, env)] = self.ev(v, env)
            return d
        if isinstance(e, ast.JoinedStr):
            parts = []
            for v in e.values:
                if isinstance(v, ast.Constant):
                    parts.append(str(v.value))
                elif isinstance(v, ast.FormattedValue) and v.format_spec is None:
                    x = self.ev(v.value, env)
                    parts.append(repr(x) if v.conversion == 114 else str(x))
                else:
                    raise NotConstant("format spec in f-string")
            return "".join(parts)
        if isinstance(e, ast.BinOp):
            a, b = self.ev(e.left, env), self.ev(e.right, env)
            if not all(isinstance(x, (int, str, tuple, list)) and not isinstance(x, bool) for x in (a, b)):
                raise NotConstant("operand type")
            ops = {ast.Add: lambda: a + b, ast.Sub: lambda: a - b, ast.Mult: lambda: a * b, ast.FloorDiv: lambda: a // b, ast.Mod: lambda: a % b,
                   ast.LShift: lambda: a << b, ast.RShift: lambda: a >> b, ast.BitOr: lambda: a | b, ast.BitAnd: lambda: a & b}
            for k, f in ops.items():
                if isinstance(e.op, k):
                    if k in (ast.Mult, ast.LShift) and isinstance(b, int) and abs(b) > 4096:
                        raise NotConstant("too large")
                    return f()
            raise NotConstant("operator")
        if isinstance(e, ast.UnaryOp) and isinstance(e.op, (ast.USub, ast.Not)):
            v = self.ev(e.operand, env)
            return -v if isinstance(e.op, ast.USub) else (not v)
        if isinstance(e, ast.Compare) and len(e.ops) == 1:
            a, b = self.ev(e.left, env), self.ev(e.comparators[0], env)
            op = e.ops[0]
            table = {ast.Eq: a == b, ast.NotEq: a != b}
            if isinstance(op, (ast.Lt, ast.LtE, ast.Gt, ast.GtE)):
                return {ast.Lt: a < b, ast.LtE: a <= b, ast.Gt: a > b, ast.GtE: a >= b}[type(op)]
            if isinstance(op, (ast.In, ast.NotIn)):
                return (a in b) if isinstance(op, ast.In) else (a not in b)
            if type(op) in table:
                return table[type(op)]
            raise NotConstant("comparison")
        if isinstance(e, ast.IfExp):
            return self.ev(e.body if self.ev(e.test, env) else e.orelse, env)
        if isinstance(e, ast.Subscript):
            base = self.ev(e.value, env)
            if isinstance(e.slice, ast.Slice):
                lo = self.ev(e.slice.lower, env) if e.slice.lower else None
                hi = self.ev(e.slice.upper, env) if e.slice.upper else None
                st = self.ev(e.slice.step, env) if e.slice.step else None
                return base[lo:hi:st]
            return base[self.ev(e.slice, env)]
        if isinstance(e, (ast.ListComp, ast.SetComp, ast.GeneratorExp, ast.DictComp)):
            return self.comp(e, env)
        if isinstance(e, ast.Call):
            return self.call(e, env)
        raise NotConstant(f"construct {type(e).__name__}: {norm(e)[:60]}")

    def comp(self, e, env):
        out = []

        def rec(i, env2):
            if i == len(e.generators):
                if isinstance(e, ast.DictComp):
                    out.append((self.ev(e.key, env2), self.ev(e.value, env2)))
                else:
                    out.append(self.ev(e.elt, env2))
                return
            g = e.generators[i]
            for item in self.ev(g.iter, env2):
                self.tick()
                env3 = dict(env2)
                self.bind(g.target, item, env3)
                if all(self.ev(c, env3) for c in g.ifs):
                    rec(i + 1, env3)
        rec(0, dict(env))
        if isinstance(e, ast.DictComp):
            return dict(out)
        return set(out) if isinstance(e, ast.SetComp) else list(out)

    def bind(self, target, value, env):
        if isinstance(target, ast.Name):
            env[target.id] = value
        elif isinstance(target, (ast.Tuple, ast.List)):
            vals = list(value)
            if len(vals) != len(target.elts):
                raise NotConstant("unpack arity")
            for t, v in zip(target.elts, vals):
                self.bind(t, v, env)
        else:
            raise NotConstant("assignment target")

    def call(self, e: ast.Call, env):
        if e.keywords and not (isinstance(e.func, ast.Name) and e.func.id in ("sorted", "dict", "max", "min")):
            raise NotConstant("keyword arguments")
        args = [self.ev(a, env) for a in e.args]
        if isinstance(e.func, ast.Name):
            if e.func.id in _BUILTINS and e.func.id not in env:
                kw = {}
                for k in e.keywords:
                    if k.arg == "reverse" or (e.func.id == "dict" and k.arg):
                        kw[k.arg] = self.ev(k.value, env)
                    else:
                        raise NotConstant("keyword argument")
                r = _BUILTINS[e.func.id](*args, **kw)
                return list(r) if isinstance(r, (range, enumerate, zip, reversed)) else r
            fn = self.module.functions.get(e.func.id)
            if fn is not None and fn.cls is None and fn.parent is None:
                return self.run_function(fn, args)
            raise NotConstant(f"call of `{e.func.id}`")
        if isinstance(e.func, ast.Attribute):
            recv = self.ev(e.func.value, env)
            for ty, names in _METHODS.items():
                if isinstance(recv, ty) and e.func.attr in names:
                    r = getattr(recv, e.func.attr)(*args)
                    return list(r) if not isinstance(r, (str, int, bool, list, dict, tuple, type(None))) else r
            raise NotConstant(f"method `{e.func.attr}`")
        raise NotConstant("call")

    # -- builder functions --------------------------------------------------
    def run_function(self, fn, args):
        self.depth += 1
        if self.depth > 4:
            raise NotConstant("call depth")
        try:
            a = fn.node.args
            if a.vararg or a.kwarg or a.kwonlyargs or len(args) > len(a.args):
                raise NotConstant("builder signature")
            env = dict(zip([p.arg for p in a.args], args))
            defaults = dict(zip([p.arg for p in a.args][-len(a.defaults):] if a.defaults else [], a.defaults))
            for p in a.args:
                if p.arg not in env:
                    if p.arg not in defaults:
                        raise NotConstant("missing argument")
                    env[p.arg] = self.ev(defaults[p.arg], {})
            r = self.block(fn.node.body, env)
            if r is None:
                raise NotConstant("builder returns nothing")
            return r[0]
        finally:
            self.depth -= 1

    def block(self, stmts, env):
        for st in stmts:
            self.tick()
            if isinstance(st, ast.Expr) and isinstance(st.value, ast.Constant):
                continue
            if isinstance(st, (ast.Assign, ast.AnnAssign)):
                if isinstance(st, ast.AnnAssign) and st.value is None:
                    continue
                v = self.ev(st.value, env)
                for t in (st.targets if isinstance(st, ast.Assign) else [st.target]):
                    if isinstance(t, ast.Subscript):
                        base = self.ev(t.value, env)
                        if not isinstance(base, (dict, list)):
                            raise NotConstant("subscript store")
                        base[self.ev(t.slice, env)] = v
                    else:
                        self.bind(t, v, env)
            elif isinstance(st, ast.AugAssign) and isinstance(st.target, ast.Name):
                env[st.target.id] = self.ev(ast.BinOp(left=st.target, op=st.op, right=st.value), env)
            elif isinstance(st, ast.For) and not st.orelse:
                for item in self.ev(st.iter, env):
                    self.bind(st.target, item, env)
                    r = self.block(st.body, env)
                    if r is not None:
                        return r
            elif isinstance(st, ast.If):
                r = self.block(st.body if self.ev(st.test, env) else st.orelse, env)
                if r is not None:
                    return r
            elif isinstance(st, ast.Expr) and isinstance(st.value, ast.Call) and isinstance(st.value.func, ast.Attribute):
                recv = self.ev(st.value.func.value, env)
                ok = any(isinstance(recv, ty) and st.value.func.attr in names for ty, names in _MUTATORS.items())
                if not ok or st.value.keywords:
                    raise NotConstant("statement call")
                getattr(recv, st.value.func.attr)(*[self.ev(a, env) for a in st.value.args])
            elif isinstance(st, ast.Return):
                return (self.ev(st.value, env) if st.value is not None else None,)
            elif isinstance(st, ast.Pass):
                continue
            else:
                raise NotConstant(f"statement {type(st).__name__}")
        return None


def fold(module, expr: ast.AST):
    """Python value of a closed constant expression of `module`; raises NotConstant."""
    return Folder(module).ev(expr, {})
