"""C14 No input makes the pipeline fail with an undocumented error (parser clause decided)."""
from __future__ import annotations

import ast
from typing import Dict, List, Set

from ..escape import EscapeAnalysis
from ..index import AnalysisError, AnchorVanished, norm, short, walk_local
from .common import get_cg

LEVEL = "other"
UNDECIDED = [
    "'printing any string with markup disabled never raises' and 'rendering/measuring any tree of built-in renderables terminates without raising' as whole-library effects over partial built-ins (indexing, arithmetic, recursion depth): too imprecise to be both sound and quiet; only the enumerated precise raise sources are tracked",
    "None-ness of regex groups in alternations (the code's if/elif chain is trusted to select the matched alternative)",
]
TRUSTED = ["CPython ast parser", "re._parser regex ASTs", "int() accepts exactly optional sign/underscores/whitespace-wrapped Unicode decimal digits (so a non-empty digit-only string never fails)", "exception class hierarchy of builtins"]

# entry point -> documented exception set
ENTRIES: Dict[str, Set[str]] = {
    "color:Color.parse": {"ColorParseError"},
    "style:Style.parse": {"StyleSyntaxError"},
    "style:Style.normalize": set(),
    "markup:render": {"MarkupError"},
    "text:Text.from_markup": {"MarkupError"},
    "console:Console.get_style": {"MissingStyle"},
    "ansi:AnsiDecoder.decode_line": set(),
    "ansi:AnsiDecoder.decode": set(),
    "text:Text.__init__": set(),
    "control:strip_control_codes": set(),
    "_emoji_replace:_emoji_replace": set(),
    "markup:escape": set(),
}

# callee summaries treated as total: one symbol, one reason
SUMMARIES = {
    "text:Text.__init__": "stores its arguments; total for str input (no raise statement; strip_control_codes is str.translate)",
    "text:Text.append": "raises only TypeError/ValueError argument-contract checks dominated by isinstance tests on its parameters",
    "text:Span.__new__": "NamedTuple constructor",
    "style:Style.copy": "field copies only",
    "style:Style.__add__": "field arithmetic only",
    "style:Style.update_link": "field copies only",
    "style:Style.from_color": "field stores only",
}

# (caller, callee, exception) edges accepted with a reason; each premise is itself checked by R14.4
EDGE_ACCEPT = {
    ("style:Style.parse", "style:Style.__init__", "ColorParseError"):
        "the colour words passed to Style(color=..., bgcolor=...) were already accepted by a dominating Color.parse(word) on the same value (idempotent validation of a pure, cached function) - premise checked by R14.4",
    ("ansi:AnsiDecoder.decode_line", "style:Style.parse", "StyleSyntaxError"):
        "Style.parse is applied only to values of the literal table SGR_STYLE_MAP - premise checked by R14.4 (every value lies in parse()'s grammar)",
    ("ansi:AnsiDecoder.decode_line", "style:Style.parse", "ColorParseError"):
        "same table argument: SGR_STYLE_MAP values name only `default` / `color(n)` colours - premise checked by R14.4",
    ("ansi:AnsiDecoder.decode_line", "style:Style.parse", "ValueError"):
        "same table argument (no rgb() colours in SGR_STYLE_MAP) - premise checked by R14.4",
}
ACCEPTED = {}


def _analysis(ctx):
    cg, _locks = get_cg(ctx)
    if not hasattr(ctx.repo, "_escape"):
        skip = {k: v for k, v in SUMMARIES.items() if k not in ("text:Text.__init__",)}
        ctx.repo._escape = EscapeAnalysis(ctx.repo, cg, skip=skip, edge_accept=EDGE_ACCEPT)
    return ctx.repo._escape


def r14_1(ctx):
    ctx.rule("R14.1", "exception-escape analysis: from each parser entry point only its documented exception type can escape, considering explicit raises, int()/float() on strings not proven digit-only (regex-group provenance, sound predicate guards), bare next(), unguarded unpacking of split() results, unguarded lookups in module-level dict tables, and everything escaping from resolved callees, minus what enclosing handlers catch")
    ea = _analysis(ctx)
    n = 0
    for spec, documented in ENTRIES.items():
        f = ctx.repo.fn(spec)
        esc = ea.escapes(f)
        n += 1
        bad = 0
        for exc, w in sorted(esc.items()):
            if exc in documented or any(ea.is_sub(exc, d) for d in documented):
                ctx.ok(w.where, f"{spec}: documented {exc} raised at {w.where}", f.fq)
                continue
            if (spec, exc) in ACCEPTED:
                ctx.note(f"accepted {spec} -> {exc}: {ACCEPTED[(spec, exc)]}")
                continue
            bad += 1
            ctx.violation(f.fq, f"{exc}: {w.what}", w.where,
                          f"{exc} can escape from {spec} (documented: {sorted(documented) or 'nothing'}): {w.what}", w.path)
        if not bad:
            ctx.ok(f.where, f"{spec}: only {sorted(documented) or 'no exception'} can escape ({len(esc)} raise kinds examined)", f.fq)
    ctx.extra["raise_sites_examined"] = ea.sites_examined
    ctx.extra["functions_in_escape_closure"] = len(ea.functions)
    for fq in ea.functions:
        ctx.fn_seen(fq)
    ctx.floor(ea.sites_examined, 150, "call/raise/subscript sites examined")
    for k, v in SUMMARIES.items():
        ctx.assume(f"callee summary {k}: {v}")


def r14_2(ctx):
    ctx.rule("R14.2", "PEP 479: no bare next() inside a generator function unless StopIteration is caught or suppressed there (otherwise RuntimeError escapes) - whole package")
    n = 0
    gens = 0
    for f in ctx.repo.all_functions():
        if not f.is_generator:
            continue
        gens += 1
        mod = f.module
        for x in walk_local(f.node):
            if isinstance(x, ast.Call) and isinstance(x.func, ast.Name) and x.func.id == "next" and len(x.args) == 1:
                n += 1
                ok = False
                cur = mod.parent_of.get(x)
                prev = x
                while cur is not None and cur is not f.node:
                    if isinstance(cur, ast.Try) and any(prev is s or prev in list(ast.walk(s)) for s in cur.body):
                        for h in cur.handlers:
                            ht = EscapeAnalysis.handler_types(h)
                            if any(t in ("StopIteration", "Exception", "BaseException") for t in ht):
                                ok = True
                    if isinstance(cur, ast.With):
                        for it in cur.items:
                            if "suppress" in norm(it.context_expr) and "StopIteration" in norm(it.context_expr):
                                ok = True
                    prev = cur
                    cur = mod.parent_of.get(cur)
                ctx.check(ok, f.fq, short(x), f"{mod.relpath}:{x.lineno}", "next() protected against StopIteration",
                          f"bare `{short(x)}` inside generator {f.qualname}: when the iterator is exhausted StopIteration turns into RuntimeError (PEP 479) instead of ending the generator")
    ctx.extra["generator_functions_scanned"] = gens
    ctx.floor(gens, 40, "generator functions")
    if n == 0:
        ctx.ok("rich/", f"no bare next() in any of {gens} generator functions", trivial=False)


def r14_3(ctx):
    ctx.rule("R14.3", "lookup conversion: Console.get_style converts StyleSyntaxError into MissingStyle (or the default) on every path: the lookup and Style.parse are inside the try whose handler catches StyleSyntaxError and raises MissingStyle / returns the default style")
    f = ctx.repo.fn("console:Console.get_style")
    tries = [n for n in walk_local(f.node) if isinstance(n, ast.Try)]
    ok = False
    for t in tries:
        body_src = " ; ".join(norm(b) for b in t.body)
        if "Style.parse(" not in body_src:
            continue
        for h in t.handlers:
            ht = EscapeAnalysis.handler_types(h)
            if "StyleSyntaxError" in ht or "ConsoleError" in ht or "Exception" in ht:
                hb = " ; ".join(norm(b) for b in h.body)
                if "MissingStyle" in hb:
                    ok = True
    ctx.check(ok, f.fq, "try: Style.parse ... except StyleSyntaxError: raise MissingStyle", f.where, "Style.parse failure is converted to MissingStyle / default",
              "Console.get_style no longer converts a StyleSyntaxError from Style.parse into MissingStyle: looking up an unknown name raises an undocumented error")
    ea = _analysis(ctx)
    esc = ea.escapes(f)
    ctx.check("StyleSyntaxError" not in esc, f.fq, "escapes(get_style)", f.where, "StyleSyntaxError cannot escape get_style", "StyleSyntaxError can escape Console.get_style")


def r14_4(ctx):
    ctx.rule("R14.4", "premises of the accepted call edges: (a) in Style.parse every colour word stored for the final Style(...) call was passed to Color.parse inside a try that converts ColorParseError, in the same branch, before being stored; (b) AnsiDecoder applies Style.parse only to SGR_STYLE_MAP[...] and every value of that literal table is made of words of parse()'s own grammar")
    import re as _re
    from ..astutil import literal
    sp = ctx.repo.fn("style:Style.parse")
    mod = sp.module
    # (a)
    ctor = [n for n in walk_local(sp.node) if isinstance(n, ast.Call) and norm(n.func) in ("Style", "cls")]
    if not ctor:
        raise AnchorVanished("Style.parse: final Style(...) call not found")
    color_vars = [norm(k.value) for c in ctor for k in c.keywords if k.arg in ("color", "bgcolor")]
    n_a = 0
    for var in color_vars:
        for n in walk_local(sp.node):
            if isinstance(n, ast.Assign) and len(n.targets) == 1 and norm(n.targets[0]) == var and not (isinstance(n.value, ast.Constant) and n.value.value is None):
                n_a += 1
                src = norm(n.value)
                blk = None
                par = mod.parent_of.get(n)
                for attr in ("body", "orelse"):
                    b = getattr(par, attr, None)
                    if isinstance(b, list) and n in b:
                        blk = b
                ok = False

                def validating_helper(call):
                    """helper(word, ..) whose body calls Color.parse(<its first parameter>) inside a try that converts ColorParseError"""
                    if not (isinstance(call, ast.Call) and isinstance(call.func, ast.Name) and call.args and norm(call.args[0]) == src):
                        return False
                    h = mod.functions.get(f"Style.parse.<locals>.{call.func.id}") or mod.functions.get(call.func.id)
                    if h is None or not h.params:
                        return False
                    p0 = h.params[0]
                    for t_ in walk_local(h.node):
                        if isinstance(t_, ast.Try) and any(isinstance(c, ast.Call) and norm(c.func) == "Color.parse" and c.args and norm(c.args[0]) == p0 for s_ in t_.body for c in ast.walk(s_)):
                            if any("ColorParseError" in EscapeAnalysis.handler_types(hh) and any(isinstance(x, ast.Raise) for x in hh.body) for hh in t_.handlers):
                                return True
                    return False
                # `color = check_color(word, ..)`: the helper validates its first parameter and returns it
                if isinstance(n.value, ast.Call) and isinstance(n.value.func, ast.Name) and n.value.args:
                    src = norm(n.value.args[0])
                    h_ = mod.functions.get(f"Style.parse.<locals>.{n.value.func.id}") or mod.functions.get(n.value.func.id)
                    if h_ is not None and h_.params and validating_helper(n.value):
                        rets_ = [r for r in walk_local(h_.node) if isinstance(r, ast.Return)]
                        if rets_ and all(r.value is not None and norm(r.value) == h_.params[0] for r in rets_):
                            ok = True
                if blk is not None:
                    for prev in blk[: blk.index(n)]:
                        if isinstance(prev, ast.Expr) and validating_helper(prev.value):
                            ok = True
                        if isinstance(prev, ast.Try) and any(isinstance(c, ast.Call) and norm(c.func) == "Color.parse" and c.args and norm(c.args[0]) == src for s_ in prev.body for c in ast.walk(s_)):
                            if any("ColorParseError" in EscapeAnalysis.handler_types(h) and any(isinstance(x, ast.Raise) for x in h.body) for h in prev.handlers):
                                # the validated name must not be rebound between the try and the store
                                ok = True
                if not ok and isinstance(n.value, ast.Name):
                    # general form (CFG): from every binding of the word (loop target, `word = next(..)`), the store is reachable
                    # only through a `Color.parse(word)` that sits in a try converting ColorParseError
                    from .. import cfg as _cfg144
                    g144 = _cfg144.build(sp.node)
                    validating = set()
                    for t_ in walk_local(sp.node):
                        if isinstance(t_, ast.Try) and any("ColorParseError" in EscapeAnalysis.handler_types(hh) and any(isinstance(x, ast.Raise) for x in hh.body) for hh in t_.handlers):
                            for s_ in t_.body:
                                if any(isinstance(c, ast.Call) and norm(c.func) == "Color.parse" and c.args and norm(c.args[0]) == src for c in ast.walk(s_)):
                                    validating |= set(g144.nodes_of(s_))
                    binders = set()
                    for nd in g144.nodes:
                        if nd.id not in g144.reachable:
                            continue
                        if nd.kind == "for" and any(isinstance(x, ast.Name) and x.id == src for x in ast.walk(nd.stmt.target)):
                            binders.add(nd.id)
                        if nd.kind == "stmt" and isinstance(nd.stmt, ast.Assign) and any(isinstance(t2, ast.Name) and t2.id == src for t2 in nd.stmt.targets):
                            binders.add(nd.id)
                    store_nodes = set(g144.nodes_of(n))
                    if validating and binders and store_nodes:
                        ok = not any(store_nodes & g144.reach([b_], avoid=validating | (binders - {b_})) for b_ in binders)
                ctx.check(ok, sp.fq, norm(n), f"{mod.relpath}:{n.lineno}", f"`{var} = {src}` stored only after Color.parse({src}) succeeded in this branch",
                          f"`{var} = {src}` is stored for the final Style(...) call without a preceding validated Color.parse({src}) in the same branch: an invalid colour word raises ColorParseError instead of StyleSyntaxError")
    ctx.floor(n_a, 2, "colour word stores in Style.parse")
    # (b)
    from .c19 import _sgr_fn
    dl = _sgr_fn(ctx)
    am = dl.module
    calls = [n for n in walk_local(dl.node) if isinstance(n, ast.Call) and norm(n.func).endswith("Style.parse")]
    for c in calls:
        a = c.args[0] if c.args else None
        def _map_value(e):
            return (isinstance(e, ast.Subscript) and norm(e.value) == "SGR_STYLE_MAP") or (
                isinstance(e, ast.Call) and norm(e.func) == "SGR_STYLE_MAP.get" and len(e.args) == 1 and not e.keywords)
        ok = _map_value(a)
        if not ok and isinstance(a, ast.Name):
            # a temporary: every definition of the name in the function is a look-up in the map (SGR_STYLE_MAP[..] / .get(..);
            # the None of a failed .get never reaches parse - Style.parse(None) would be a TypeError the escape analysis reports)
            defs_ = [x.value for x in walk_local(dl.node) if isinstance(x, ast.Assign) and any(isinstance(t_, ast.Name) and t_.id == a.id for t_ in x.targets)]
            ok = bool(defs_) and all(_map_value(d_) for d_ in defs_)
        ctx.check(ok, dl.fq, short(c), f"{am.relpath}:{c.lineno}", "decoder parses only SGR_STYLE_MAP values", f"decoder calls Style.parse on `{norm(a) if a is not None else None}`, which is not a value of the literal SGR_STYLE_MAP: arbitrary input could raise StyleSyntaxError")
    from .common import table_value
    table = table_value(am, "SGR_STYLE_MAP")
    from .common import style_parse_vocabulary
    _tv = style_parse_vocabulary(ctx)
    vocab = set(_tv[0]) if _tv is not None else None
    if vocab is None:
        raise AnchorVanished("Style.parse vocabulary not found")
    names = set(literal(ctx.repo.mod("color").global_assign("ANSI_COLOR_NAMES")))
    bad = []
    for code, text in sorted(table.items()):
        words = text.split()
        i = 0
        while i < len(words):
            w = words[i]
            if w == "not":
                i += 1
                if i >= len(words) or words[i] not in vocab:
                    bad.append((code, text))
            elif w == "on":
                i += 1
                if i >= len(words) or not _color_ok(words[i], names):
                    bad.append((code, text))
            elif w in vocab or _color_ok(w, names):
                pass
            else:
                bad.append((code, text))
            i += 1
    ctx.check(not bad, "ansi:SGR_STYLE_MAP", "table values", f"{am.relpath}:{am.global_assign('SGR_STYLE_MAP').lineno}", f"all {len(table)} SGR_STYLE_MAP values are in Style.parse's grammar",
              f"SGR_STYLE_MAP values {bad[:3]} are not in Style.parse's grammar: decoding that code raises StyleSyntaxError")


def _color_ok(word: str, names) -> bool:
    import re as _re
    if word == "default" or word in names:
        return True
    m = _re.fullmatch(r"color\(([0-9]{1,3})\)", word)
    return bool(m) and int(m.group(1)) <= 255


def r14_5(ctx):
    ctx.rule("R14.5", "no max()/min() of a possibly empty filtered sequence in the layout code: a max/min over a generator whose `if` filter may reject every element (and without default=) must be dominated by the matching any(...) test - otherwise rendering/measuring raises ValueError for some option combination")
    from .. import cfg as cfgmod
    n = 0
    for ms in ("table", "_ratio", "columns", "panel", "measure", "padding", "align", "tree", "containers", "rule", "bar", "progress_bar"):
        m = ctx.repo.mod(ms)
        seen = set()
        for f in m.functions.values():
            if id(f) in seen or m.in_main_guard(f.node):
                continue
            seen.add(id(f))
            g = None
            for x in walk_local(f.node):
                if not (isinstance(x, ast.Call) and isinstance(x.func, ast.Name) and x.func.id in ("max", "min") and len(x.args) == 1 and isinstance(x.args[0], ast.GeneratorExp)):
                    continue
                ge = x.args[0]
                if any(k.arg == "default" for k in x.keywords) or not ge.generators[0].ifs:
                    continue
                n += 1
                if g is None:
                    g = cfgmod.build(f.node)
                gen = ge.generators[0]
                cond = gen.ifs[0]
                # which source sequence does the filter variable range over?
                guard_seq = None
                if isinstance(cond, ast.Name) and isinstance(gen.target, ast.Tuple) and isinstance(gen.iter, ast.Call) and norm(gen.iter.func) == "zip":
                    names = [norm(t) for t in gen.target.elts]
                    if cond.id in names and names.index(cond.id) < len(gen.iter.args):
                        guard_seq = norm(gen.iter.args[names.index(cond.id)])
                st = x
                while not isinstance(st, ast.stmt):
                    st = m.parent_of[st]
                ok = False
                for nid in g.nodes_of(st):
                    for t, v in g.branch_facts(nid):
                        if v is True and guard_seq is not None and norm(t) == f"any({guard_seq})":
                            ok = True
                par = m.parent_of.get(x)
                if isinstance(par, ast.IfExp) and par.body is x:
                    ok = True
                ctx.check(ok, f.fq, short(x), f"{m.relpath}:{x.lineno}", f"{x.func.id}() over a filtered sequence is guarded by any({guard_seq})",
                          f"`{short(x)}` takes the {x.func.id} of a filtered generator without default= and without a dominating `any({guard_seq or '...'})` test: when no element passes the filter (e.g. every column is no_wrap / fixed width) rendering raises ValueError instead of falling back")
    if n == 0:
        ctx.ok("rich/table.py", "no filtered max()/min() without default in the layout modules")


def r14_6(ctx):
    from .c13 import r13_2
    from .common import borrow
    borrow(ctx, r13_2, "R13.2", "R14.6", " [every string can be measured: the width-table search never indexes outside the table, so printing any text cannot raise IndexError]")


def r14_7(ctx):
    from .common import justify_full_indices
    ctx.rule("R14.7", "no IndexError while justifying: in the full-justify branch of Lines.justify the round-robin cursor used in spaces[len(spaces) - index - 1] is 0 or (index + 1) % len(spaces) on every path (reaching definitions), is reset to 0 after each new `spaces` list before its first use (must-pass), the list is non-empty there and never resized; spaces[index] in the rebuild loop is guarded by index < len(spaces) with index from enumerate")
    justify_full_indices(ctx)


def r14_8(ctx):
    from .c05 import r5_1
    from .common import borrow
    borrow(ctx, r5_1, "R5.1", "R14.8", " [premise of exception-free rendering: a Text whose _length or span offsets run ahead of its characters makes Text.render raise (StopIteration -> RuntimeError) when printed]")


def r14_9(ctx):
    from .. import cfg as cfgmod
    from ..yieldpaths import canon_test
    ctx.rule("R14.9", "precondition of ratio_distribute (`assert sum(ratios) > 0`) at every call site in table.py: the ratios argument is either dominated by a true `any(<it>)` test, or every definition of it that reaches the call is a comprehension whose elements are forced to be at least 1 (`x or 1`, `max(1, x)`), so an all-empty table cannot trip the assertion while rendering or measuring")
    tm = ctx.repo.mod("table")
    n = 0
    for f in tm.functions.values():
        calls = [c for c in walk_local(f.node) if isinstance(c, ast.Call) and isinstance(c.func, ast.Name) and c.func.id == "ratio_distribute" and len(c.args) >= 2]
        if not calls:
            continue
        g = cfgmod.build(f.node)
        rd = g.reaching_defs(weak=False)
        for c in calls:
            n += 1
            arg = c.args[1]
            st = c
            while not isinstance(st, ast.stmt):
                st = tm.parent_of[st]
            where = f"{tm.relpath}:{c.lineno}"
            guarded = False
            for nid in g.nodes_of(st):
                for t, v in g.branch_facts(nid):
                    for a, tv in canon_test(t, v):
                        if tv is True and a == f"any({norm(arg)})":
                            guarded = True
            if guarded:
                ctx.ok(where, f"`{norm(arg)}` has a non-zero element (dominating any() test)", f.fq)
                continue
            ok = isinstance(arg, ast.Name)
            why = f"`{norm(arg)}` is not a local list"
            if ok:
                defs = set()
                for nid in g.nodes_of(st):
                    defs |= rd.get(nid, {}).get(arg.id, set())
                ok = bool(defs)
                for d in defs:
                    ds = g.nodes[d].stmt
                    v = ds.value if isinstance(ds, ast.Assign) and g.nodes[d].kind == "stmt" else None

                    def at_least_one(e):
                        if isinstance(e, ast.BoolOp) and isinstance(e.op, ast.Or) and isinstance(e.values[-1], ast.Constant) and isinstance(e.values[-1].value, int) and e.values[-1].value >= 1:
                            return True
                        if isinstance(e, ast.Call) and norm(e.func) == "max" and any(isinstance(a_, ast.Constant) and isinstance(a_.value, int) and a_.value >= 1 for a_ in e.args):
                            return True
                        if isinstance(e, ast.Constant) and isinstance(e.value, int) and e.value >= 1:
                            return True
                        return False
                    if not isinstance(v, ast.ListComp):
                        raise AnalysisError(f"{f.fq}: `{short(ds) if ds is not None else 'a parameter'}` reaches `{short(c)}`; the ratios are not built by a comprehension this rule reads (a list filled in a loop, a helper's result) - the >= 1 clause is not decided")
                    if not at_least_one(v.elt):
                        ok = False
                        why = f"`{short(ds) if ds is not None else 'parameter'}` reaches the call and does not force every element to be >= 1"
            if ok:
                # ... and the list is not EMPTY: the sum of no ratios is 0 as well.  Accepted: a dominating fact that the list
                # itself, or the sequence every reaching comprehension iterates over (through local aliases), is non-empty.
                from ..astutil import alias_map as _am, expand_alias as _ea
                al_ = _am(f.node)
                iters = set()
                for d in defs:
                    v = g.nodes[d].stmt.value
                    it_ = v.generators[0].iter
                    if isinstance(it_, ast.Call) and norm(it_.func) in ("zip", "enumerate") and it_.args:
                        it_ = it_.args[-1] if norm(it_.func) == "zip" else it_.args[0]
                    iters.add(norm(it_))
                    iters.add(norm(_ea(it_, al_)))
                # a filter-free comprehension is as long as what it iterates over: follow every assignment of the iterated names
                # transitively (zip(..) contributes all its arguments; helpers such as ratio_reduce / _collapse_widths that
                # take the list and return it re-weighted are assumed length-preserving - stated in the evidence)
                def _iter_names(it_):
                    if isinstance(it_, ast.Call) and norm(it_.func) in ("zip", "enumerate", "reversed", "list", "tuple"):
                        out_ = []
                        for a_ in it_.args:
                            out_ += _iter_names(a_)
                        return out_
                    return [norm(it_), norm(_ea(it_, al_))]
                work_ = list(iters)
                for d in defs:
                    for nm_ in _iter_names(g.nodes[d].stmt.value.generators[0].iter):
                        if nm_ not in iters:
                            iters.add(nm_)
                            work_.append(nm_)
                while work_:
                    nm_ = work_.pop()
                    for x_ in walk_local(f.node):
                        if isinstance(x_, ast.Assign) and len(x_.targets) == 1 and norm(x_.targets[0]) == nm_:
                            dv_ = x_.value
                            new_ = []
                            if isinstance(dv_, ast.ListComp) and len(dv_.generators) == 1 and not dv_.generators[0].ifs:
                                new_ = _iter_names(dv_.generators[0].iter)
                            elif isinstance(dv_, (ast.Name, ast.Attribute)):
                                new_ = [norm(dv_)]
                            for cand_ in new_:
                                if cand_ not in iters:
                                    iters.add(cand_)
                                    work_.append(cand_)
                truthy = set()
                for nid in g.nodes_of(st):
                    for t, v in g.branch_facts(nid):
                        for a, tv in canon_test(t, v):
                            if tv is True:
                                truthy.add(a)
                            if tv is False and a.startswith("not "):
                                truthy.add(a[4:])
                cands = {norm(arg)} | iters
                nonempty = bool(cands & truthy) or any(f"len({x}) > 0" in truthy or f"len({x}) >= 1" in truthy for x in cands)
                if not nonempty:
                    ok = False
                    why = f"every element of `{norm(arg)}` is at least 1, but nothing on the way to the call excludes the EMPTY list (no dominating test of {sorted(cands)}): a table without columns has no ratios, their sum is 0"
            ctx.check(ok, f.fq, short(c), where, f"`{norm(arg)}` is non-empty and every element is at least 1 at the call",
                      f"`{short(c)}`: {why} - when every column measures 0 (empty cells, no padding) the sum of ratios is 0 and ratio_distribute's assertion fails: an expanding table raises AssertionError on render and on measure")
    ctx.floor(n, 2, "ratio_distribute call sites")


_LAYOUT_MODS = ("columns", "table", "containers", "text", "rule", "bar", "progress_bar", "panel", "padding", "align", "constrain", "_ratio", "_wrap", "segment", "tree", "layout", "spinner", "syntax", "measure", "console", "live_render", "markdown", "pretty", "scope", "box", "cells", "styled", "status", "json", "emoji", "traceback")


def r14_10(ctx):
    from .. import cfg as cfgmod
    from ..yieldpaths import canon_test
    ctx.rule("R14.10", "a count obtained by floor division is never used as a divisor unprotected: in the layout code, when a definition `v = a // b` (or int(a / b)) reaches a site that divides by v (v as the right operand of // % / or divmod, directly or as the argument bound to a local closure's parameter that is divided by), the site is dominated by a fact that excludes 0 (v, v > 0, v >= 1, v != 0) or the definition is clamped (max(1, ..), .. or 1) - a quotient is 0 whenever the available width is smaller than the unit, and dividing by it raises ZeroDivisionError while rendering")
    n = 0
    for ms in _LAYOUT_MODS:
        try:
            m = ctx.repo.mod(ms)
        except Exception:
            continue
        for f in m.functions.values():
            if m.in_main_guard(f.node):
                continue
            # division sites in f (own statements only)
            sites = []
            for x in walk_local(f.node):
                d = None
                if isinstance(x, ast.BinOp) and isinstance(x.op, (ast.FloorDiv, ast.Mod, ast.Div)):
                    if isinstance(x.op, ast.Mod) and isinstance(x.left, (ast.Constant, ast.JoinedStr)):
                        continue
                    d = x.right
                elif isinstance(x, ast.Call) and norm(x.func) == "divmod" and len(x.args) == 2:
                    d = x.args[1]
                elif isinstance(x, ast.AugAssign) and isinstance(x.op, (ast.FloorDiv, ast.Mod, ast.Div)):
                    d = x.value
                if isinstance(d, ast.Name):
                    sites.append((x, d.id))
            if not sites:
                continue
            g = cfgmod.build(f.node)
            rd = g.reaching_defs(weak=False)

            def stmt_of(mm, x):
                while not isinstance(x, ast.stmt):
                    x = mm.parent_of[x]
                return x

            def nonzero_facts(gg, st, var):
                for nid in gg.nodes_of(st):
                    for t, v in gg.branch_facts(nid):
                        for a, tv in canon_test(t, v):
                            if (tv is True and a in (var, f"{var} > 0", f"{var} >= 1", f"{var} != 0", f"0 < {var}", f"1 <= {var}")) or (tv is False and a in (f"not {var}", f"{var} == 0", f"{var} < 1", f"{var} <= 0", f"0 == {var}")):
                                return True
                return False

            def quotient(e):
                if isinstance(e, ast.BinOp) and isinstance(e.op, ast.FloorDiv):
                    return True
                if isinstance(e, ast.Call) and norm(e.func) == "int" and len(e.args) == 1 and isinstance(e.args[0], ast.BinOp) and isinstance(e.args[0].op, ast.Div):
                    return True
                # min(.., q, ..) is 0 whenever q is; (max(1, q) and `q or 1` are the clamps that exclude it)
                if isinstance(e, ast.Call) and norm(e.func) == "min" and not e.keywords and any(quotient(a) for a in e.args):
                    return True
                if isinstance(e, ast.IfExp):
                    return quotient(e.body) or quotient(e.orelse)
                return False

            def bad_defs(gg, rdd, st, var):
                out = []
                for nid in gg.nodes_of(st):
                    for d in rdd.get(nid, {}).get(var, set()):
                        nd = gg.nodes[d]
                        ds = nd.stmt
                        if nd.kind == "stmt" and isinstance(ds, ast.Assign) and len(ds.targets) == 1 and isinstance(ds.targets[0], ast.Name) and quotient(ds.value):
                            out.append(ds)
                return out

            for x, var in sites:
                st = stmt_of(m, x)
                n += 1
                where = f"{m.relpath}:{x.lineno}"
                if nonzero_facts(g, st, var):
                    ctx.ok(where, f"division by `{var}` under a fact that excludes 0", f.fq)
                    continue
                found = []
                if var in f.params and f.parent is not None:
                    # closure parameter: look at the arguments bound to it at the call sites in the enclosing function
                    par = f.parent
                    pg = cfgmod.build(par.node)
                    prd = pg.reaching_defs(weak=False)
                    idx = f.params.index(var)
                    for c in walk_local(par.node):
                        if isinstance(c, ast.Call) and isinstance(c.func, ast.Name) and c.func.id == f.node.name:
                            arg = c.args[idx] if idx < len(c.args) else None
                            for k in c.keywords:
                                if k.arg == var:
                                    arg = k.value
                            if isinstance(arg, ast.Name):
                                cst = stmt_of(m, c)
                                if nonzero_facts(pg, cst, arg.id):
                                    continue
                                for ds in bad_defs(pg, prd, cst, arg.id):
                                    found.append((ds, f"passed as `{var}` by `{short(c)}` ({m.relpath}:{c.lineno})"))
                            elif arg is not None and quotient(arg):
                                found.append((stmt_of(m, c), "passed directly"))
                else:
                    for ds in bad_defs(g, rd, st, var):
                        found.append((ds, "reaches the division"))
                for ds, how in found:
                    ctx.violation(f.fq, short(ds), where, f"`{short(ds)}` ({m.relpath}:{ds.lineno}) can be 0 (the numerator may be smaller than the denominator) and {how}: `{short(x)}` then raises ZeroDivisionError while rendering")
                if not found:
                    ctx.ok(where, f"no bare quotient reaches the divisor `{var}`", f.fq)
    ctx.floor(n, 8, "division sites with a local divisor in the layout modules")


def r14_11(ctx):
    from .. import cfg as cfgmod
    from ..yieldpaths import canon_test
    ctx.rule("R14.11", "no max()/min() over the pieces of a possibly blank string: `max(f(x) for x in s.splitlines())` needs s to be non-empty and `... in s.split()` needs s to contain a non-space character - each such call (whole package, demos excluded) has default=, or sits in the true arm of a conditional on s / s.strip(), or is dominated by a fact that s (for split(): s.strip()) is truthy; otherwise measuring a renderable whose text is empty raises ValueError")
    n = 0
    for m in ctx.repo.modules.values():
        for f in m.functions.values():
            if m.in_main_guard(f.node):
                continue
            g = None
            for x in walk_local(f.node):
                if not (isinstance(x, ast.Call) and isinstance(x.func, ast.Name) and x.func.id in ("max", "min") and len(x.args) == 1):
                    continue
                if isinstance(x.args[0], (ast.GeneratorExp, ast.ListComp)) and len(x.args[0].generators) == 1:
                    it = x.args[0].generators[0].iter
                elif isinstance(x.args[0], ast.Call) and norm(x.args[0].func) == "map" and len(x.args[0].args) == 2:
                    it = x.args[0].args[1]  # max(map(f, s.splitlines())) is the same iteration
                else:
                    continue
                if not (isinstance(it, ast.Call) and isinstance(it.func, ast.Attribute) and it.func.attr in ("splitlines", "split") and not it.args and not it.keywords):
                    continue
                n += 1
                where = f"{m.relpath}:{x.lineno}"
                sname = norm(it.func.value)
                need = {sname, f"{sname}.strip()"} if it.func.attr == "splitlines" else {f"{sname}.strip()"}
                if any(k.arg == "default" for k in x.keywords):
                    ctx.ok(where, f"{x.func.id}() over {sname}.{it.func.attr}() has default=", f.fq)
                    continue
                par = m.parent_of.get(x)
                if isinstance(par, ast.IfExp) and par.body is x and norm(par.test) in need:
                    ctx.ok(where, f"{x.func.id}() over {sname}.{it.func.attr}() only when `{norm(par.test)}`", f.fq)
                    continue
                if g is None:
                    g = cfgmod.build(f.node)
                st = x
                while not isinstance(st, ast.stmt):
                    st = m.parent_of[st]
                truthy = set()
                for nid in g.nodes_of(st):
                    for t, v in g.branch_facts(nid):
                        for a, tv in canon_test(t, v):
                            if tv is True:
                                truthy.add(a)
                            elif a.startswith("not "):
                                truthy.add(a[4:])
                ctx.check(bool(need & truthy), f.fq, short(x), where, f"{x.func.id}() over {sname}.{it.func.attr}() is dominated by a non-blank test of {sname}",
                          f"`{short(x)}`: `{sname}.{it.func.attr}()` is empty when `{sname}` is {'empty' if it.func.attr == 'splitlines' else 'blank'} and nothing on the way excludes that (no default=, no dominating test of {sorted(need)}): {x.func.id}() raises ValueError - e.g. measuring Pretty(obj) for an object whose repr is the empty string")
    ctx.floor(n, 1, "max()/min() over split pieces of a string")


def r14_12(ctx):
    ctx.rule("R14.12", "k columns have k - 1 gaps: in the column-count search of Columns.__rich_console__ the total width compared with the available width is sum(widths) + padding * (len(widths) - 1) (polynomial normal form, calls as atoms) - counting a gap per column makes a single item that fits look too wide, the count drops to 0 and the row arithmetic divides by it")
    from .. import poly
    from ..astutil import inline as _inl, single_defs as _sdf
    f = ctx.repo.fn("columns:Columns.__rich_console__")
    m = f.module
    sites = []
    fam12 = [f] + [q for k_, q in m.functions.items() if k_.startswith("Columns.__rich_console__.<locals>.")]
    for q in fam12:
        sd12 = _sdf(q.node)
        for x in walk_local(q.node):
            if isinstance(x, ast.Assign) and isinstance(x.targets[0], ast.Name):
                v12 = _inl(x.value, {k_: v_ for k_, v_ in sd12.items() if k_ != x.targets[0].id and any(isinstance(c, ast.Call) and norm(c.func) in ("len", "sum") for c in ast.walk(v_))})
                if any(isinstance(c, ast.Call) and norm(c.func) == "sum" for c in ast.walk(v12)) and any(isinstance(c, ast.Call) and norm(c.func) == "len" for c in ast.walk(v12)):
                    x = ast.copy_location(ast.Assign(targets=x.targets, value=v12), x)
                    sites.append(x)
    if len(sites) != 1:
        raise AnalysisError(f"Columns.__rich_console__: expected one `total = sum(widths) + padding * (len(widths) - 1)`, found {len(sites)}")
    x = sites[0]
    atoms = {}

    class _A(ast.NodeTransformer):
        def visit_Call(self, node):
            k = norm(node)
            atoms.setdefault(k, f"c{len(atoms)}")
            return ast.Name(id=atoms[k], ctx=ast.Load())
    import copy
    e = _A().visit(copy.deepcopy(x.value))
    try:
        got = poly.of_expr(e)
    except (poly.Unsupported, poly.NotInteger) as ex:
        raise AnalysisError(f"Columns.__rich_console__: `{short(x)}` is outside the polynomial fragment ({ex})")
    sums = [k for k in atoms if k.startswith("sum(")]
    lens = [k for k in atoms if k.startswith("len(")]
    pads = sorted({a for mono in got for a in mono if isinstance(a, str)} - set(atoms.values()))
    if len(sums) != 1 or len(lens) != 1 or len(pads) != 1:
        raise AnalysisError(f"Columns.__rich_console__: cannot identify sum / len / padding in `{short(x)}`")
    S, L, P = atoms[sums[0]], atoms[lens[0]], pads[0]
    ref = poly.of_expr(ast.parse(f"{S} + {P} * ({L} - 1)", mode="eval").body)
    ctx.check(got == ref, f.fq, short(x), f"{m.relpath}:{x.lineno}", "total width = widths + padding between adjacent columns",
              f"`{short(x)}` is not sum + padding * (columns - 1) [{poly.show(got)}]: with one column it already charges a gap, so an item that exactly fits is judged too wide, column_count becomes 0 and iter_renderables(0) raises ZeroDivisionError (Columns(['a', 'b', 'c']) at width 1)")


def r14_13(ctx):
    from .c13 import r13_8
    from .common import borrow
    borrow(ctx, r13_8, "R13.8", "R14.13", " [cropping to a cell width cannot raise: the crop loop of set_cell_size stops when the characters run out (callers pass negative sizes at tiny widths)]")


RULES = [r14_1, r14_2, r14_3, r14_4, r14_5, r14_6, r14_7, r14_8, r14_9, r14_10, r14_11, r14_12, r14_13]
