"""C06 Styles form a consistent algebra, round-trip through text, and hash consistently."""
from __future__ import annotations

import ast
import itertools
from typing import Dict, List, Optional, Set, Tuple

from .. import cfg as cfgmod
from ..astutil import attr_loads, chain, const_int, is_attr_of, literal, returns_of
from ..index import AnalysisError, AnchorVanished, norm, short, walk_local

LEVEL = "other"
UNDECIDED = [
    "lru_cache interactions of parse/normalize",
    "link URLs containing whitespace",
    "that Color.parse accepts every Color.name for all values (only the templates are compared, R6.6)",
]
TRUSTED = ["CPython ast parser", "Python semantics of & | ~ on ints, of `or`/`and`/conditional expressions, of tuple hashing (equal tuples hash equal)"]

F = "style:Style"


# ---------------------------------------------------------------------------
# helpers
# ---------------------------------------------------------------------------

def _style(ctx):
    return ctx.repo.cls(F)


def _method(ctx, name):
    c = _style(ctx)
    m = c.method(name)
    if m is None:
        raise AnchorVanished(f"style:Style.{name} not found")
    return m


def _eq_fields(ctx) -> List[str]:
    """Fields that are guaranteed equal whenever Style.__eq__ returns a value that can be true: on every control-flow path
    (path normal form) the branch facts `self._x == other._x` plus the conjuncts of the returned expression; the intersection
    over all paths that do not return the constant False."""
    from ..yieldpaths import Unsupported, paths_of, resolve
    m = _method(ctx, "__eq__")
    other = m.params[1]
    try:
        P = [resolve(p_) for p_ in paths_of(m.node)]
    except Unsupported as u:
        raise AnalysisError(f"Style.__eq__: statement outside the path normal form ({u})")

    def field_of(c) -> Optional[str]:
        if isinstance(c, ast.Compare) and len(c.ops) == 1 and isinstance(c.ops[0], ast.Eq) and isinstance(c.left, ast.Attribute) and isinstance(c.comparators[0], ast.Attribute):
            l, r_ = c.left, c.comparators[0]
            if (is_attr_of(l, "self") and is_attr_of(r_, other) or is_attr_of(r_, "self") and is_attr_of(l, other)) and l.attr == r_.attr:
                return l.attr
        return None
    per_path = []
    for p_ in P:
        rets = [e for e in p_ if e[0] == "return"]
        if len(rets) != 1 or rets[0][1] is None:
            continue
        v = ast.parse(rets[0][1], mode="eval").body
        if isinstance(v, ast.Constant) and v.value is False:
            continue
        if isinstance(v, ast.Name) and v.id == "NotImplemented":
            continue
        fs = set()
        for e in p_:
            if e[0] == "cond" and e[2] is True:
                c = ast.parse(e[1], mode="eval").body
                f_ = field_of(c)
                if f_:
                    fs.add(f_)
        if isinstance(v, ast.Constant) and v.value is True:
            per_path.append(fs)
            continue
        conj = v.values if isinstance(v, ast.BoolOp) and isinstance(v.op, ast.And) else [v]
        DERIVED = ("_null", "_hash", "_ansi", "_style_definition")
        derived_reads = [y for y in ast.walk(v) if isinstance(y, ast.Attribute) and y.attr in DERIVED and norm(y.value) in ("self", other)]
        if derived_reads and not any(field_of(c) for c in conj):
            # a path that answers from a derived slot instead of the fields: right only if the slot is a function of the fields on
            # EVERY construction route in both directions - `_null` is set to False by without_color / update_link even when nothing
            # is left, so two styles that print, hash and parse alike compare unequal
            ctx.violation(m.fq, f"return {norm(v)}", f"{m.module.relpath}:{m.node.lineno}",
                          f"Style.__eq__ returns `{norm(v)}` on the path [{' & '.join(e[1] if e[2] else 'not (' + e[1] + ')' for e in p_ if e[0] == 'cond')}] without comparing the fields: `{derived_reads[0].attr}` is a derived flag that several construction routes (without_color, update_link, __add__ ..) set independently of the fields, so equal styles can compare unequal (and parse(str(s)) != s)")
            continue
        for c in conj:
            f_ = field_of(c)
            if f_ is None:
                # a helper that compares the two values of one field through a projection (parts of the value only)
                cz = None
                if isinstance(c, ast.Call) and isinstance(c.func, ast.Name) and len(c.args) == 2 and not c.keywords and all(isinstance(a, ast.Attribute) for a in c.args) and c.args[0].attr == c.args[1].attr \
                        and {norm(c.args[0].value), norm(c.args[1].value)} == {"self", other} and c.func.id in m.module.functions:
                    h = m.module.functions[c.func.id]
                    hp = h.params[:2]
                    for cmp_ in walk_local(h.node):
                        if isinstance(cmp_, ast.Compare) and len(cmp_.ops) == 1 and isinstance(cmp_.ops[0], ast.Eq):
                            l_, r_ = cmp_.left, cmp_.comparators[0]
                            if isinstance(l_, (ast.Subscript, ast.Attribute)) and isinstance(r_, (ast.Subscript, ast.Attribute)) and {norm(l_.value), norm(r_.value)} == set(hp):
                                cz = (c.args[0].attr, f"{c.func.id}() compares `{norm(cmp_)}`, a part of the two values only")
                if cz is None:
                    raise AnalysisError(f"Style.__eq__ conjunct not of the form self._x == other._x: {norm(c)}")
                ctx.extra.setdefault("eq_coarse", {})[cz[0]] = (cz[1], norm(c))
                fs.add(cz[0])
                continue
            fs.add(f_)
        per_path.append(fs)
    if not per_path:
        raise AnalysisError("Style.__eq__: no field comparisons found")
    fields = sorted(set.intersection(*per_path))
    if not fields:
        raise AnalysisError("Style.__eq__: no field comparisons found")
    return fields


def _param_field_map(init) -> Dict[str, str]:
    """parameter -> field for `self._f = param` assignments in __init__."""
    out = {}
    for n in walk_local(init.node):
        if isinstance(n, ast.Assign) and len(n.targets) == 1 and is_attr_of(n.targets[0], "self") and isinstance(n.value, ast.Name):
            if n.value.id in init.params:
                out[n.value.id] = n.targets[0].attr
    return out


def _hash_tuple(expr) -> Optional[ast.Tuple]:
    if isinstance(expr, ast.Call) and isinstance(expr.func, ast.Name) and expr.func.id == "hash" and len(expr.args) == 1 and isinstance(expr.args[0], ast.Tuple):
        return expr.args[0]
    return None


def _hash_assign_value(n) -> Optional[ast.AST]:
    """value of an assignment one of whose targets is self._hash (`x = self._hash = v` included)"""
    if isinstance(n, ast.Assign) and any(is_attr_of(t, "self", "_hash") for t in n.targets):
        return n.value
    return None


def _resolve_hash_expr(ctx, expr, obj: str):
    """Return (tuple node, object the fields are read from) for `hash((..))` or a helper-method call returning one."""
    # temporaries (key = (...); hash(key)) are resolved in the function that contains the expression
    try:
        from ..astutil import inline as _inl_h, single_defs as _sdf_h
        mod_ = _style(ctx).module
        cur_ = expr
        while cur_ is not None and not isinstance(cur_, (ast.FunctionDef, ast.AsyncFunctionDef)):
            cur_ = mod_.parent_of.get(cur_)
        if cur_ is not None:
            expr = _inl_h(expr, _sdf_h(cur_))
    except Exception:
        pass
    t = _hash_tuple(expr)
    if t is not None:
        return t, obj
    if isinstance(expr, ast.Call) and isinstance(expr.func, ast.Attribute) and isinstance(expr.func.value, ast.Name):
        helper = _style(ctx).method(expr.func.attr)
        if helper is not None:
            from ..astutil import helper_closed_return
            closed = helper_closed_return(helper.node)
            if closed is not None:
                t = _hash_tuple(closed)
                if t is not None:
                    return ("helper", t, expr.func.value.id), None
    return None, None


def _canonical_hash(ctx) -> Tuple[List[str], str]:
    """Ordered list of fields the canonical hash is computed from, and where it is defined.

    Canonical definition: the `hash((...))` stored into self._hash in __init__, or computed in
    __hash__ (lazy form), possibly through a helper method returning hash((self._a, ...)).
    """
    init = _method(ctx, "__init__")
    p2f = _param_field_map(init)
    hm = _method(ctx, "__hash__")
    candidates = []
    for m in (hm, init):
        for n in walk_local(m.node):
            val = None
            if _hash_assign_value(n) is not None:
                val = _hash_assign_value(n)
            elif isinstance(n, ast.Return) and m is hm and n.value is not None and not is_attr_of(n.value, "self", "_hash") and not isinstance(n.value, ast.Name):
                val = n.value
            if val is None:
                continue
            t, _ = _resolve_hash_expr(ctx, val, "self")
            if t is None:
                continue
            if isinstance(t, tuple) and t[0] == "helper":
                tup, base = t[1], "self"
            else:
                tup, base = t, "self"
            fields = []
            for e in tup.elts:
                if is_attr_of(e, "self"):
                    fields.append(e.attr)
                elif isinstance(e, ast.Name) and e.id in p2f and m is init:
                    fields.append(p2f[e.id])
                else:
                    raise AnalysisError(f"hash tuple element not a field of self: {norm(e)} in {m.fq}")
            candidates.append((fields, m.fq))
    if not candidates:
        raise AnchorVanished("no canonical `hash((fields...))` found in Style.__init__/__hash__")
    first = candidates[0]
    for c in candidates[1:]:
        if c[0] != first[0]:
            raise HashDisagreement(first, c)
    return first


class HashDisagreement(Exception):
    def __init__(self, a, b):
        self.a, self.b = a, b


def _bit_attrs(ctx) -> Dict[str, int]:
    """attribute name -> bit number from `name = _Bit(n)` class-level assignments."""
    out = {}
    for st in _style(ctx).node.body:
        if isinstance(st, ast.Assign) and len(st.targets) == 1 and isinstance(st.targets[0], ast.Name):
            v = st.value
            if isinstance(v, ast.Call) and isinstance(v.func, ast.Name) and v.func.id == "_Bit" and len(v.args) == 1:
                n = const_int(v.args[0])
                if n is None:
                    raise AnalysisError(f"_Bit argument not constant: {norm(st)}")
                out[st.targets[0].id] = n
    return out


def _property_reads(ctx) -> Dict[str, Set[str]]:
    """property / descriptor name -> underlying fields read (one level)."""
    c = _style(ctx)
    out: Dict[str, Set[str]] = {}
    for name in _bit_attrs(ctx):
        out[name] = {"_attributes", "_set_attributes"}
    for name, lst in c.methods.items():
        for f in lst:
            if f.is_property and not f.is_setter:
                out[name] = {a for a in attr_loads(f.node, "self") if a.startswith("_")}
    return out


def _field_deps_of_method(ctx, mname: str, exclude: Set[str]) -> Set[str]:
    m = _method(ctx, mname)
    props = _property_reads(ctx)
    slots = set(_style(ctx).slots or [])
    deps: Set[str] = set()
    for a in attr_loads(m.node, "self"):
        if a in exclude:
            continue
        if a in slots:
            deps.add(a)
        elif a in props:
            deps |= {x for x in props[a] if x in slots}
    return deps


class Route:
    def __init__(self, fn, var: str, stores: Dict[str, ast.AST], store_stmts: Dict[str, ast.AST]):
        self.fn = fn
        self.var = var
        self.stores = stores
        self.store_stmts = store_stmts


def _routes(ctx) -> List[Route]:
    """Functions of class Style that build an instance through __new__ and fill its slots."""
    out = []
    c = _style(ctx)
    for name, lst in c.methods.items():
        for f in lst:
            var = None
            for n in walk_local(f.node):
                if isinstance(n, ast.Assign) and len(n.targets) == 1 and isinstance(n.targets[0], ast.Name):
                    v = n.value
                    if isinstance(v, ast.Call) and isinstance(v.func, ast.Attribute) and v.func.attr == "__new__":
                        var = n.targets[0].id
            if var is None:
                continue
            stores: Dict[str, ast.AST] = {}
            stmts: Dict[str, ast.AST] = {}
            from ..astutil import inline, single_defs
            sdefs = {k: v for k, v in single_defs(f.node).items() if k != var and not (isinstance(v, ast.Call) and not _pure_expr(v))}
            for n in walk_local(f.node):
                if isinstance(n, ast.Assign):
                    for t in n.targets:
                        if is_attr_of(t, var):
                            if t.attr in stores:
                                raise AnalysisError(f"{f.fq}: slot {t.attr} stored twice on the new object")
                            stores[t.attr] = inline(n.value, sdefs)
                            stmts[t.attr] = n
                elif isinstance(n, ast.AnnAssign) and is_attr_of(n.target, var) and n.value is not None:
                    stores[n.target.attr] = inline(n.value, sdefs)
                    stmts[n.target.attr] = n
            out.append(Route(f, var, stores, stmts))
    return out


def _pure_expr(e) -> bool:
    """temporaries worth inlining: arithmetic / boolean / attribute expressions without calls"""
    return not any(isinstance(x, (ast.Call, ast.Await, ast.Yield, ast.YieldFrom, ast.NamedExpr)) for x in ast.walk(e))


def _is_none(e) -> bool:
    return isinstance(e, ast.Constant) and e.value is None


def _lazy_slots(ctx) -> Dict[str, str]:
    """slot -> method that fills it when it is None (lazy caches)."""
    c = _style(ctx)
    out = {}
    for name, lst in c.methods.items():
        for f in lst:
            for n in walk_local(f.node):
                if isinstance(n, ast.If):
                    t = n.test
                    if isinstance(t, ast.BoolOp) and isinstance(t.op, ast.Or):
                        t = t.values[0]
                    left = t.left if isinstance(t, ast.Compare) else None
                    if isinstance(left, ast.Name):
                        # `cached = self._slot` ... `if cached is None:` - a local copy of the slot
                        srcs = [x.value for x in walk_local(f.node) if isinstance(x, ast.Assign) and len(x.targets) == 1 and isinstance(x.targets[0], ast.Name) and x.targets[0].id == left.id and x.lineno < n.lineno]
                        if len(srcs) == 1 and is_attr_of(srcs[0], "self"):
                            left = srcs[0]
                    if (
                        isinstance(t, ast.Compare)
                        and len(t.ops) == 1
                        and isinstance(t.ops[0], ast.Is)
                        and is_attr_of(left, "self")
                        and _is_none(t.comparators[0])
                    ):
                        slot = left.attr
                        # body must store the slot
                        stores = [
                            x for b in n.body for x in ast.walk(b)
                            if isinstance(x, ast.Assign) and any(is_attr_of(tt, "self", slot) for tt in x.targets)
                        ]
                        if stores:
                            out[slot] = f.fq
            # guard-return form:  `cached = self._slot; if cached is not None [and ...]: return ...` followed by a store
            from ..astutil import inline, single_defs
            sd = single_defs(f.node)
            for n in walk_local(f.node):
                if isinstance(n, ast.If) and n.body and isinstance(n.body[-1], ast.Return):
                    t = inline(n.test, sd)
                    first = t.values[0] if isinstance(t, ast.BoolOp) and isinstance(t.op, ast.And) else t
                    if isinstance(first, ast.Compare) and isinstance(first.left, ast.Name):
                        # a local copy that is also re-bound later (`self._slot = cached = value`): take the one binding before the test
                        srcs_ = [x.value for x in walk_local(f.node) if isinstance(x, ast.Assign) and len(x.targets) == 1 and isinstance(x.targets[0], ast.Name) and x.targets[0].id == first.left.id and x.lineno < n.lineno]
                        if len(srcs_) == 1 and is_attr_of(srcs_[0], "self"):
                            first = ast.Compare(left=srcs_[0], ops=first.ops, comparators=first.comparators)
                    if isinstance(first, ast.Compare) and len(first.ops) == 1 and isinstance(first.ops[0], ast.IsNot) and is_attr_of(first.left, "self") and _is_none(first.comparators[0]):
                        slot = first.left.attr
                        later = [x for x in walk_local(f.node) if isinstance(x, ast.Assign) and any(is_attr_of(tt, "self", slot) for tt in x.targets) and x.lineno > n.lineno]
                        if later:
                            out.setdefault(slot, f.fq)
    return out


# ---------------------------------------------------------------------------
# rules
# ---------------------------------------------------------------------------

def r6_1(ctx):
    ctx.rule("R6.1", "fields compared by Style.__eq__ == fields of the canonical hash tuple (equal => equal hash needs hash to ignore nothing __eq__ ignores and vice versa)")
    eqf = _eq_fields(ctx)
    m = _method(ctx, "__eq__")
    try:
        hf, where = _canonical_hash(ctx)
    except HashDisagreement as d:
        hm = _method(ctx, "__hash__")
        ctx.violation(hm.fq, f"{d.a[0]} vs {d.b[0]}", hm.where,
                      f"the hash is computed from the field tuple {d.a[0]} in {d.a[1]} but from {d.b[0]} in {d.b[1]}: equal styles built on different routes hash differently")
        return
    for fld, (why, txt) in sorted(ctx.extra.get("eq_coarse", {}).items()):
        if fld in hf:
            ctx.violation(m.fq, txt, m.where, f"__eq__ compares `{fld}` through `{txt}` ({why}) while the hash is computed from the whole field: two styles that differ only in the ignored part compare equal and hash differently (Style.parse('red') == Style.parse('color(1)') with different hashes) - equal styles must have equal hashes")
    ctx.check(
        set(eqf) == set(hf), m.fq, f"eq={sorted(eqf)} hash={sorted(hf)}", m.where,
        f"__eq__ fields {sorted(eqf)} == hash fields (defined in {where})",
        f"__eq__ compares {sorted(eqf)} but the hash is computed from {sorted(hf)}: "
        f"fields only in eq {sorted(set(eqf) - set(hf))}, only in hash {sorted(set(hf) - set(eqf))}",
    )
    hm = _method(ctx, "__hash__")
    # __hash__ must return the slot (or the canonical computation)
    rets = returns_of(hm.node)
    okret = all(is_attr_of(r.value, "self", "_hash") or _resolve_hash_expr(ctx, r.value, "self")[0] is not None or isinstance(r.value, ast.Name) for r in rets if r.value is not None)
    ctx.check(bool(rets) and okret, hm.fq, "return", hm.where, "__hash__ returns the precomputed/canonical hash",
              "__hash__ does not return self._hash or the canonical hash((fields))")


def r6_2(ctx, rule_id="R6.2", only=None):
    ctx.rule(rule_id, "derived slots (_hash, _style_definition, _ansi) on every __new__ construction route are recomputed from the new object's own field values in canonical order, reset to None (lazy), or copied from an object all of whose dependency fields are copied unchanged")
    try:
        hf, _ = _canonical_hash(ctx)
    except HashDisagreement:
        ctx.note("canonical hash definitions disagree (reported by R6.1); derived-slot check uses __eq__ fields")
        hf = _eq_fields(ctx)
    lazy = _lazy_slots(ctx)
    deps: Dict[str, Set[str]] = {"_hash": set(hf)}
    if "_style_definition" in (_style(ctx).slots or []):
        deps["_style_definition"] = _field_deps_of_method(ctx, "__str__", {"_style_definition"})
    if "_ansi" in (_style(ctx).slots or []):
        deps["_ansi"] = _field_deps_of_method(ctx, "_make_ansi_codes", {"_ansi"})
    if only is not None:
        deps = {k: v for k, v in deps.items() if k in only}
    ctx.note(f"derived-slot dependencies computed from code: { {k: sorted(v) for k, v in deps.items()} }; lazy slots: {lazy}")
    routes = _routes(ctx)
    ctx.floor(len(routes), 4, "__new__ construction routes in class Style")
    for rt in routes:
        f = rt.fn
        ctx.fn_seen(f.fq)
        for slot, dset in deps.items():
            if slot not in rt.stores:
                continue  # R6.3 reports missing slots
            val = rt.stores[slot]
            where = f"{f.module.relpath}:{rt.store_stmts[slot].lineno}"
            construct = f"{slot} = {short(val, 120)}"
            # (ii) reset
            if _is_none(val):
                ctx.check(slot in lazy, f.fq, construct, where,
                          f"{slot} reset to None; filled lazily by {lazy.get(slot)}",
                          f"{slot} is set to None but no method fills it lazily when None")
                continue
            # (i) recomputed
            t, _b = _resolve_hash_expr(ctx, val, rt.var) if slot == "_hash" else (None, None)
            if t is not None:
                if isinstance(t, tuple) and t[0] == "helper":
                    # helper reads fields of the receiver: receiver must be the new object and all
                    # fields must be stored before the call (statement order in the route)
                    recv = t[2]
                    ok = recv == rt.var
                    order_ok = all(
                        fld in rt.store_stmts and rt.store_stmts[fld].lineno < rt.store_stmts[slot].lineno for fld in hf
                    )
                    ctx.check(ok and order_ok, f.fq, construct, where,
                              "_hash recomputed by the canonical helper on the new object after its fields are stored",
                              "_hash helper is not applied to the fully initialised new object")
                    continue
                elts = t.elts
                bad = []
                if len(elts) != len(hf):
                    bad.append(f"tuple has {len(elts)} elements, canonical has {len(hf)}")
                else:
                    for e, fld in zip(elts, hf):
                        want = rt.stores.get(fld)
                        if is_attr_of(e, rt.var, fld):
                            continue
                        if want is not None and norm(e) == norm(want):
                            # same expression as stored into the field (pure: names/attrs/constants)
                            if all(isinstance(x, (ast.Name, ast.Attribute, ast.Constant, ast.Load, ast.BoolOp, ast.Or, ast.And, ast.BinOp, ast.BitAnd, ast.BitOr, ast.Invert, ast.UnaryOp)) for x in ast.walk(e)):
                                continue
                        bad.append(f"element for {fld} is `{norm(e)}` but the new object's {fld} is `{norm(want) if want is not None else '<unset>'}`")
                ctx.check(not bad, f.fq, construct, where,
                          f"_hash recomputed from the new object's own {hf}",
                          "_hash is recomputed from values that differ from the new object's fields (equal styles would hash differently): " + "; ".join(bad))
                continue
            # (iii) copied from a source object
            if isinstance(val, ast.Attribute) and isinstance(val.value, ast.Name) and val.attr == slot:
                src = val.value.id
                changed = []
                for fld in sorted(dset):
                    want = rt.stores.get(fld)
                    if want is None or not is_attr_of(want, src, fld):
                        changed.append(f"{fld} = {norm(want) if want is not None else '<unset>'}")
                ctx.check(not changed, f.fq, construct, where,
                          f"{slot} copied from `{src}` whose dependency fields {sorted(dset)} are all copied unchanged",
                          f"{slot} is copied from `{src}` although the fields it is derived from change on this route: " + "; ".join(changed))
                continue
            ctx.violation(f.fq, construct, where, f"{slot} is assigned a value that is neither a canonical recomputation, None, nor a copy from a source object")
    # __init__ : derived caches start empty, hash from own fields (canonical by definition)
    init = _method(ctx, "__init__")
    for slot in ("_style_definition", "_ansi"):
        if only is not None and slot not in only:
            continue
        for n in walk_local(init.node):
            if isinstance(n, (ast.Assign, ast.AnnAssign)):
                tg = n.targets if isinstance(n, ast.Assign) else [n.target]
                if any(is_attr_of(t, "self", slot) for t in tg) and n.value is not None:
                    ctx.check(_is_none(n.value), init.fq, f"{slot} = {short(n.value)}", f"{init.module.relpath}:{n.lineno}",
                              f"{slot} starts as None in __init__", f"{slot} initialised to a non-None value in __init__")


def r6_3(ctx):
    ctx.rule("R6.3", "every __new__ construction route stores every name in __slots__ before returning the new object")
    slots = _style(ctx).slots
    if not slots:
        raise AnchorVanished("Style.__slots__ literal not found")
    for rt in _routes(ctx):
        f = rt.fn
        g = cfgmod.build(f.node)
        rets = [n for n in g.stmt_nodes() if n.kind == "stmt" and isinstance(n.stmt, ast.Return) and isinstance(n.stmt.value, ast.Name) and n.stmt.value.id == rt.var]
        for slot in slots:
            if slot not in rt.stores:
                if slot == "_hash" and False:
                    continue
                ctx.violation(f.fq, f"missing {slot}", f.where, f"route never stores slot {slot} on the new object (AttributeError or stale state later)")
                continue
            st = rt.store_stmts[slot]
            nodes = set(g.nodes_of(st))
            ok = all(g.dominated_by(r.id, nodes) for r in rets)
            ctx.check(ok, f.fq, f"{slot} store", f"{f.module.relpath}:{st.lineno}", f"{slot} stored on every path to `return {rt.var}`",
                      f"slot {slot} is not stored on every path to the return of the new object")


# ---- R6.4 --------------------------------------------------------------

NBITS_DEFAULT = 13


def _eval_bits(e, env, nbits: int = NBITS_DEFAULT, consts=None) -> int:
    """Evaluate an & | ~ ^ expression over bit-vectors of width nbits. env: norm(leaf) -> vector
    (operand fields are all-ones or zero per truth-table row); consts: norm(leaf) -> int constant."""
    ALL = (1 << nbits) - 1
    consts = consts or {}
    if isinstance(e, ast.BinOp):
        a = _eval_bits(e.left, env, nbits, consts)
        b = _eval_bits(e.right, env, nbits, consts)
        if isinstance(e.op, ast.BitAnd):
            return a & b
        if isinstance(e.op, ast.BitOr):
            return a | b
        if isinstance(e.op, ast.BitXor):
            return a ^ b
        raise AnalysisError(f"operator not in the bitwise fragment: {norm(e)}")
    if isinstance(e, ast.UnaryOp) and isinstance(e.op, ast.Invert):
        return ~_eval_bits(e.operand, env, nbits, consts) & ALL
    k = norm(e)
    if k in env:
        return ALL if env[k] else 0
    if k in consts:
        return consts[k] & ALL
    c = const_int(e)
    if c is not None:
        return c & ALL
    raise AnalysisError(f"leaf not an operand field or constant: {k}")


class ForeignLeaf(Exception):
    """the merged value of a field depends on something other than that field of the two operands"""


def _eval_pick(e, env):
    """Evaluate `a or b`, `a and b`, `x if c else y`, `x is None`, `x is not None`, not — over env norm(leaf)->value."""
    if isinstance(e, ast.BoolOp):
        vals = e.values
        if isinstance(e.op, ast.Or):
            r = None
            for v in vals:
                r = _eval_pick(v, env)
                if r:
                    return r
            return r
        r = None
        for v in vals:
            r = _eval_pick(v, env)
            if not r:
                return r
        return r
    if isinstance(e, ast.IfExp):
        return _eval_pick(e.body, env) if _eval_pick(e.test, env) else _eval_pick(e.orelse, env)
    if isinstance(e, ast.UnaryOp) and isinstance(e.op, ast.Not):
        return not _eval_pick(e.operand, env)
    if isinstance(e, ast.Compare) and len(e.ops) == 1 and isinstance(e.ops[0], (ast.Is, ast.IsNot)) and _is_none(e.comparators[0]):
        v = _eval_pick(e.left, env)
        return (v is None) if isinstance(e.ops[0], ast.Is) else (v is not None)
    if _is_none(e):
        return None
    k = norm(e)
    if k in env:
        return env[k]
    raise ForeignLeaf(k)


def r6_4(ctx):
    ctx.rule("R6.4", "Style.__add__: per-bit truth tables prove right-bias, attr⊆set invariant and associativity of the bitmask forms; colour/link picks are right-biased; null operands return the other operand")
    add = _method(ctx, "__add__")
    right = add.params[1]
    routes = [r for r in _routes(ctx) if r.fn is add]
    if not routes:
        raise AnchorVanished("Style.__add__ no longer builds its result through __new__ stores (rule cannot interpret it)")
    rt = routes[0]
    A, S = rt.stores.get("_attributes"), rt.stores.get("_set_attributes")
    if A is None or S is None:
        raise AnchorVanished("Style.__add__ does not store _attributes/_set_attributes")
    names = {"a1": f"self._attributes", "s1": "self._set_attributes", "a2": f"{right}._attributes", "s2": f"{right}._set_attributes"}
    bits = _bit_attrs(ctx)
    nbits = max(bits.values()) + 1
    ALL = (1 << nbits) - 1
    # integer constants of the class (e.g. a full-attribute mask) may appear as leaves
    consts = {}
    for st_ in _style(ctx).node.body:
        if isinstance(st_, ast.Assign) and len(st_.targets) == 1 and isinstance(st_.targets[0], ast.Name):
            cv = const_int(st_.value)
            if cv is not None:
                for pre in ("self.", f"{right}.", "Style.", "cls."):
                    consts[pre + st_.targets[0].id] = cv

    def ev(a1, s1, a2, s2):
        env = {names["a1"]: a1, names["s1"]: s1, names["a2"]: a2, names["s2"]: s2}
        return _eval_bits(A, env, nbits, consts), _eval_bits(S, env, nbits, consts)

    def vec(b):
        return ALL if b else 0

    def badbits(got, want):
        diff = (got ^ want) & ALL
        names_ = {v: k for k, v in bits.items()}
        return [names_.get(i, str(i)) for i in range(nbits) if diff >> i & 1]

    where = f"{add.module.relpath}:{rt.store_stmts['_attributes'].lineno}"
    bad = []
    rows = 0
    for a1, s1, a2, s2 in itertools.product((0, 1), repeat=4):
        if a1 > s1 or a2 > s2:
            continue  # invariant: value bits are a subset of set bits (established by __init__, checked below)
        rows += 1
        a, s = ev(a1, s1, a2, s2)
        if s != vec(s1 | s2):
            bad.append(f"set'(a1={a1},s1={s1},a2={a2},s2={s2}) wrong for attributes {badbits(s, vec(s1 | s2))}")
        want = vec(a2 if s2 else a1)
        if a != want:
            bad.append(f"attr'(a1={a1},s1={s1},a2={a2},s2={s2}) is not the right-biased value for attributes {badbits(a, want)}")
        if a & ~s & ALL:
            bad.append(f"invariant attr⊆set broken at a1={a1},s1={s1},a2={a2},s2={s2} for {badbits(a & ~s, 0)}")
    ctx.check(not bad, add.fq, f"_attributes = {short(A)} ; _set_attributes = {short(S)}", where,
              f"right-bias + set-union + invariant hold on all {rows} rows x {nbits} attribute bits",
              "bitmask combination is wrong: " + "; ".join(bad[:4]))
    # associativity over all 6-leaf rows (operand vectors are 0 / all-ones, so one evaluation covers every bit position)
    bad = []
    rows = 0

    def ev2(x, y):
        env = {names["a1"]: None}
        return None

    def evv(av1, sv1, av2, sv2):
        # evaluate on explicit vectors (results of a previous combination)
        class _E(dict):
            pass
        def run(e):
            if isinstance(e, ast.BinOp):
                l, r_ = run(e.left), run(e.right)
                return l & r_ if isinstance(e.op, ast.BitAnd) else (l | r_ if isinstance(e.op, ast.BitOr) else l ^ r_)
            if isinstance(e, ast.UnaryOp):
                return ~run(e.operand) & ALL
            k = norm(e)
            m_ = {names["a1"]: av1, names["s1"]: sv1, names["a2"]: av2, names["s2"]: sv2}
            if k in m_:
                return m_[k]
            if k in consts:
                return consts[k] & ALL
            c_ = const_int(e)
            if c_ is not None:
                return c_ & ALL
            raise AnalysisError(f"leaf not an operand field or constant: {k}")
        return run(A), run(S)

    for a1, s1, a2, s2, a3, s3 in itertools.product((0, 1), repeat=6):
        if a1 > s1 or a2 > s2 or a3 > s3:
            continue
        rows += 1
        xy = evv(vec(a1), vec(s1), vec(a2), vec(s2))
        l = evv(xy[0], xy[1], vec(a3), vec(s3))
        yz = evv(vec(a2), vec(s2), vec(a3), vec(s3))
        r = evv(vec(a1), vec(s1), yz[0], yz[1])
        if l != r:
            bad.append(f"(x+y)+z != x+(y+z) at {(a1, s1, a2, s2, a3, s3)} for attributes {badbits(l[0] ^ r[0] | l[1] ^ r[1], 0)}")
    ctx.check(not bad, add.fq, "associativity of bitmask forms", where, f"associative on all {rows} rows x {nbits} attribute bits",
              "bitmask combination is not associative: " + "; ".join(bad[:3]))
    # invariant established by __init__: _attributes is masked by / zero without _set_attributes
    init = _method(ctx, "__init__")
    # picks
    for fld in ("_color", "_bgcolor", "_link"):
        e = rt.stores.get(fld)
        if e is None:
            continue
        lk, rk = f"self.{fld}", f"{right}.{fld}"
        bad = []
        try:
            for lv, rv in itertools.product((None, "L"), (None, "R")):
                got = _eval_pick(e, {lk: lv, rk: rv})
                want = rv if rv is not None else lv
                if got != want:
                    bad.append(f"left={lv} right={rv} -> {got}, want {want}")
        except ForeignLeaf as fl:
            bad.append(f"the pick depends on `{fl}`, which is neither {lk} nor {rk}: whether the right operand's value wins must depend only on whether it is set (e.g. an explicit `default` colour on the right must still override)")
        ctx.check(not bad, add.fq, f"{fld} = {short(e)}", f"{add.module.relpath}:{rt.store_stmts[fld].lineno}",
                  f"{fld}: right operand wins exactly where it specifies a value (4 cases)",
                  f"{fld} pick is not right-biased: " + "; ".join(bad))
    # null exits
    g = cfgmod.build(add.node)
    for n in g.stmt_nodes():
        if n.kind == "stmt" and isinstance(n.stmt, ast.Return) and isinstance(n.stmt.value, ast.Name):
            who = n.stmt.value.id
            if who == rt.var:
                continue
            facts = g.branch_facts(n.id)
            txt = " and ".join(("" if v else "not ") + "(" + norm(t) + ")" for t, v in facts)
            if who == "self":
                ok = any(v is True and (f"{right}._null" in norm(t) or f"{right} is None" in norm(t)) and "self._null" not in norm(t) for t, v in facts)
                ctx.check(ok, add.fq, f"return self under {txt}", f"{add.module.relpath}:{n.lineno}",
                          "returns the left operand only when the right operand is null/None",
                          "returns the left operand (dropping the right) on a path where the right operand is not known to be null")
            elif who == right:
                ok = any(v is True and "self._null" in norm(t) and f"{right}._null" not in norm(t) for t, v in facts)
                ctx.check(ok, add.fq, f"return {right} under {txt}", f"{add.module.relpath}:{n.lineno}",
                          "returns the right operand only when the left operand is null",
                          "returns the right operand (dropping the left) on a path where the left operand is not known to be null")


def r6_7(ctx):
    ctx.rule("R6.7", "the _null flag (which makes __add__ drop an operand) is True only when every compared field is empty: each store is False, or `not (f1 or f2 ..)` over all fields that are not constant-empty on that route")
    eqf = _eq_fields(ctx)
    init = _method(ctx, "__init__")
    p2f = _param_field_map(init)

    def empty_const(e):
        return e is not None and isinstance(e, ast.Constant) and not e.value

    for rt in _routes(ctx):
        f = rt.fn
        e = rt.stores.get("_null")
        if e is None:
            continue
        where = f"{f.module.relpath}:{rt.store_stmts['_null'].lineno}"
        construct = f"_null = {short(e)}"
        if isinstance(e, ast.Constant) and e.value is False:
            ctx.ok(where, "_null = False (never drops the operand)", f.fq)
            continue
        if isinstance(e, ast.UnaryOp) and isinstance(e.op, ast.Not):
            inner = e.operand
            terms = inner.values if isinstance(inner, ast.BoolOp) and isinstance(inner.op, ast.Or) else [inner]
            covered = set()
            for t in terms:
                for fld, val in rt.stores.items():
                    if fld in eqf and (norm(val) == norm(t) or is_attr_of(t, rt.var, fld)):
                        covered.add(fld)
            missing = [fld for fld in eqf if fld not in covered and not empty_const(rt.stores.get(fld))]
            # _attributes is covered by _set_attributes (attr ⊆ set invariant)
            missing = [m for m in missing if not (m == "_attributes" and ("_set_attributes" in covered or empty_const(rt.stores.get("_set_attributes"))))]
            ctx.check(not missing, f.fq, construct, where, "_null is the negated disjunction of every non-constant field",
                      f"_null can be True while {missing} is set: __add__ would silently drop this style")
            continue
        if isinstance(e, ast.BoolOp) and isinstance(e.op, ast.Or) and all(isinstance(v, ast.Attribute) and v.attr == "_null" for v in e.values):
            # `self._null or style._null` after both null exits: must be dominated by both being false
            g = cfgmod.build(f.node)
            nodes = g.nodes_of(rt.store_stmts["_null"])
            ok = True
            for nid in nodes:
                facts = g.branch_facts(nid)
                for v in e.values:
                    k = norm(v)
                    if not any(val is False and k in norm(t) for t, val in facts):
                        ok = False
            ctx.check(ok, f.fq, construct, where, "_null is the disjunction of flags both known False here",
                      "_null may be True on a combined style whose fields are set")
            continue
        ctx.violation(f.fq, construct, where, "_null store is not of a form the rule can prove safe (False, or `not (fields..)`)")
    # __init__
    for n in walk_local(init.node):
        if isinstance(n, ast.Assign) and any(is_attr_of(t, "self", "_null") for t in n.targets):
            e = n.value
            where = f"{init.module.relpath}:{n.lineno}"
            ok = False
            missing = list(eqf)
            if isinstance(e, ast.UnaryOp) and isinstance(e.op, ast.Not):
                inner = e.operand
                terms = inner.values if isinstance(inner, ast.BoolOp) and isinstance(inner.op, ast.Or) else [inner]
                covered = set()
                for t in terms:
                    if is_attr_of(t, "self"):
                        covered.add(t.attr)
                    elif isinstance(t, ast.Name):
                        if t.id in p2f:
                            covered.add(p2f[t.id])
                        elif "_" + t.id in eqf:
                            covered.add("_" + t.id)  # color/bgcolor parameters: non-None iff the field is set
                if "_set_attributes" in covered:
                    covered.add("_attributes")
                missing = [x for x in eqf if x not in covered]
                ok = not missing
            ctx.check(ok, init.fq, f"_null = {short(e)}", where, "__init__: _null negates every field",
                      f"__init__: _null ignores {missing}")


# ---- R6.5 --------------------------------------------------------------

def _sum_elements(expr) -> Optional[List[ast.AST]]:
    """elements of sum((e1, e2, ..)) possibly wrapped in a conditional expression."""
    if isinstance(expr, ast.IfExp):
        expr = expr.body
    if isinstance(expr, ast.Call) and isinstance(expr.func, ast.Name) and expr.func.id == "sum" and expr.args and isinstance(expr.args[0], (ast.Tuple, ast.List)):
        return list(expr.args[0].elts)
    return None


def _str_table_driven(ctx, strm, bits) -> int:
    """Second accepted shape of Style.__str__: `for i, name in enumerate(<tuple of names in bit order>)` emitting
    name / 'not name' under `set & (1 << i)`. Returns the number of attribute words covered (0 if the shape is absent)."""
    from ..astutil import inline, single_defs
    sm = strm.module
    cls = _style(ctx)
    fdefs = single_defs(strm.node)
    for lp in walk_local(strm.node):
        if not (isinstance(lp, ast.For) and isinstance(lp.iter, ast.Call) and norm(lp.iter.func) == "enumerate" and len(lp.iter.args) == 1 and isinstance(lp.target, ast.Tuple) and len(lp.target.elts) == 2):
            continue
        tab = lp.iter.args[0]
        tname = tab.attr if isinstance(tab, ast.Attribute) and norm(tab.value) in ("self", "cls", "Style") else (tab.id if isinstance(tab, ast.Name) else None)
        tval = None
        if tname:
            for st in cls.node.body:
                if isinstance(st, ast.Assign) and len(st.targets) == 1 and norm(st.targets[0]) == tname:
                    tval = st.value
            if tval is None:
                tval = sm.module_const(tname)
        if not (isinstance(tval, (ast.Tuple, ast.List)) and all(isinstance(e, ast.Constant) and isinstance(e.value, str) for e in tval.elts)):
            continue
        idx, nm = norm(lp.target.elts[0]), norm(lp.target.elts[1])
        defs = dict(fdefs)
        defs.pop(idx, None)
        defs.pop(nm, None)

        def closed(e):
            return norm(inline(e, defs))
        BIT = (f"1 << {idx}",)
        SETS = tuple(f"self._set_attributes & {b}" for b in BIT) + tuple(f"{b} & self._set_attributes" for b in BIT)
        ONS = tuple(f"self._attributes & {b}" for b in BIT) + tuple(f"{b} & self._attributes" for b in BIT) + (f"getattr(self, {nm})",)
        appends = [c for c in ast.walk(lp) if isinstance(c, ast.Call) and closed(c.func).endswith(".append") and len(c.args) == 1 and isinstance(c.args[0], ast.IfExp)]
        if len(appends) != 1:
            continue
        ie = appends[0].args[0]
        neg = closed(ie.orelse)
        ok_words = closed(ie.test) in ONS and norm(ie.body) == nm and neg in (f"f'not {{{nm}}}'", f"'not ' + {nm}")
        # guard: `if SET & BIT:` around the append, or `if not SET & BIT: continue` before it
        guarded = False
        for x in ast.walk(lp):
            if isinstance(x, ast.If):
                t = closed(x.test)
                if t in SETS and any(c is appends[0] for b in x.body for c in ast.walk(b)):
                    guarded = True
                if t in tuple(f"not {g_}" for g_ in SETS) and x.body and isinstance(x.body[-1], ast.Continue) and x.lineno < appends[0].lineno and x in lp.body:
                    guarded = True
        where = f"{sm.relpath}:{lp.lineno}"
        ctx.check(ok_words and guarded, strm.fq, short(appends[0]), where, "__str__ (table-driven): under `set & (1 << i)` emits names[i] / 'not ' + names[i] according to `attributes & (1 << i)`",
                  "__str__ (table-driven): the loop does not emit names[i] / 'not names[i]' under the test of bit i of _set_attributes / _attributes")
        names = [e.value for e in tval.elts]
        n_ok = 0
        for name, b in sorted(bits.items(), key=lambda kv: kv[1]):
            ok = b < len(names) and names[b] == name
            n_ok += 1
            ctx.check(ok, strm.fq, f"{tname}[{b}]", f"{sm.relpath}:{tval.lineno}", f"__str__: bit {b} -> '{name}' / 'not {name}'",
                      f"__str__: the name table has '{names[b] if b < len(names) else '<missing>'}' at index {b}, but bit {b} is `{name}`: str() names the wrong attribute")
        ctx.check(len(names) == len(bits), strm.fq, f"len({tname})", f"{sm.relpath}:{tval.lineno}", "name table has one entry per attribute bit", f"__str__: the name table has {len(names)} entries for {len(bits)} attribute bits")
        return n_ok
    return 0


def _init_loop_form(ctx, init, bits, set_expr, attr_expr) -> bool:
    """Second accepted shape of Style.__init__'s mask computation: one loop over the attribute arguments in bit order,
    `for n, v in enumerate((bold, dim, ...)): if v is None: continue; bit = 1 << n; set |= bit; if v: attrs |= bit`,
    the two accumulators (initialised to 0) stored into self._set_attributes / self._attributes.  True when this shape is present
    (its obligations are then checked here), False when the masks are written as sums."""
    from ..astutil import inline, single_defs
    from ..yieldpaths import Unsupported, Enumerator, select
    sm = init.module
    if not (isinstance(set_expr.value, ast.Name) and isinstance(attr_expr.value, ast.Name)):
        return False
    sacc, aacc = set_expr.value.id, attr_expr.value.id
    loops = [x for x in walk_local(init.node) if isinstance(x, ast.For) and isinstance(x.iter, ast.Call) and norm(x.iter.func) == "enumerate" and len(x.iter.args) == 1 and isinstance(x.target, ast.Tuple) and len(x.target.elts) == 2]
    sd = single_defs(init.node)
    lp = None
    for x in loops:
        t = inline(x.iter.args[0], sd)
        if isinstance(t, (ast.Tuple, ast.List)) and all(isinstance(e, ast.Name) for e in t.elts):
            lp, names = x, [e.id for e in t.elts]
    if lp is None:
        return False
    idx, val = (norm(e) for e in lp.target.elts)
    where = f"{sm.relpath}:{lp.lineno}"
    n_ok = 0
    for name, b in sorted(bits.items(), key=lambda kv: kv[1]):
        ok = b < len(names) and names[b] == name
        n_ok += 1
        ctx.check(ok, init.fq, f"attribute tuple[{b}]", where, f"__init__: bit {b} <- argument `{name}`",
                  f"__init__: position {b} of the attribute tuple is `{names[b] if b < len(names) else '<missing>'}` but bit {b} is read back as `{name}` by its _Bit descriptor")
    ctx.check(len(names) == len(bits), init.fq, "attribute tuple", where, "one tuple entry per attribute bit", f"__init__: {len(names)} attribute arguments for {len(bits)} bits")
    try:
        en = Enumerator(init.node)
        en.defs = {k: v for k, v in en.defs.items() if k not in (idx, val)}
        bodies = [tuple(ev) for ev, _t in en.block(lp.body)]
    except Unsupported as u:
        raise AnalysisError(f"Style.__init__: mask loop uses a statement outside the path normal form ({u})")
    BIT = f"1 << {idx}"

    def sets(b, acc):
        return [e for e in b if e[0] == "set" and e[1] == acc]
    good = True
    for scen, want_set, want_attr in (({f"{val} is None": True}, 0, 0), ({f"{val} is None": False, val: True}, 1, 1), ({f"{val} is None": False, val: False}, 1, 0)):
        sel = select(bodies, scen)
        if not sel:
            good = False
        for b in sel:
            ss, aa = sets(b, sacc), sets(b, aacc)
            if len(ss) != want_set or len(aa) != want_attr:
                good = False
            for e in ss + aa:
                if e[2].replace(" ", "") not in (f"{e[1]}|{BIT}".replace(" ", ""), f"{e[1]}|({BIT})".replace(" ", "")):
                    good = False
    ctx.check(good, init.fq, "mask loop", where, "bit n of the set-mask is set iff argument n is not None, bit n of the value mask iff it is truthy",
              "__init__: the mask loop does not set bit n of _set_attributes exactly when argument n is not None and bit n of _attributes exactly when it is truthy")
    inits = {norm(x.targets[0]): norm(x.value) for x in walk_local(init.node) if isinstance(x, ast.Assign) and len(x.targets) == 1 and x.lineno < lp.lineno}
    ctx.check(inits.get(sacc) == "0" and inits.get(aacc) == "0", init.fq, f"{sacc} = 0; {aacc} = 0", where, "both accumulators start empty", "__init__: the mask accumulators do not start at 0")
    return True


def r6_5(ctx):
    ctx.rule("R6.5", "one attribute<->bit mapping across the encodings: _Bit(n) descriptors, __init__ weight sums, __str__ bit tests and words, parse() vocabulary, _make_ansi_codes bit tests")
    bits = _bit_attrs(ctx)
    ctx.floor(len(bits), 13, "_Bit descriptors")
    init = _method(ctx, "__init__")
    sm = init.module
    # (2)/(3) weight sums
    set_expr = attr_expr = None
    for n in walk_local(init.node):
        if isinstance(n, ast.Assign) and len(n.targets) == 1 and is_attr_of(n.targets[0], "self"):
            if n.targets[0].attr == "_set_attributes":
                set_expr = n
            elif n.targets[0].attr == "_attributes":
                attr_expr = n
    if set_expr is None or attr_expr is None:
        raise AnchorVanished("Style.__init__ stores of _set_attributes/_attributes not found")
    loop_form = _init_loop_form(ctx, init, bits, set_expr, attr_expr)
    for which, node in (() if loop_form else (("_set_attributes", set_expr), ("_attributes", attr_expr))):
        elts = _sum_elements(node.value)
        if elts is None:
            raise AnalysisError(f"Style.__init__ {which} is not a sum over a tuple of weighted terms")
        seen = {}
        for e in elts:
            name = weight = None
            if which == "_set_attributes":
                # `x is not None` (weight 1) or `x is not None and W`
                if isinstance(e, ast.Compare):
                    cmp_, w = e, 1
                elif isinstance(e, ast.BoolOp) and isinstance(e.op, ast.And) and len(e.values) == 2:
                    cmp_, w = e.values[0], const_int(e.values[1])
                else:
                    cmp_, w = None, None
                if isinstance(cmp_, ast.Compare) and isinstance(cmp_.left, ast.Name) and len(cmp_.ops) == 1 and isinstance(cmp_.ops[0], ast.IsNot) and _is_none(cmp_.comparators[0]):
                    name, weight = cmp_.left.id, w
            else:
                # `x and W or 0`
                if isinstance(e, ast.BoolOp) and isinstance(e.op, ast.Or) and len(e.values) == 2 and const_int(e.values[1]) == 0:
                    inner = e.values[0]
                    if isinstance(inner, ast.BoolOp) and isinstance(inner.op, ast.And) and len(inner.values) == 2 and isinstance(inner.values[0], ast.Name):
                        name, weight = inner.values[0].id, const_int(inner.values[1])
                elif isinstance(e, ast.IfExp) and isinstance(e.test, ast.Name) and const_int(e.orelse) == 0:
                    name, weight = e.test.id, const_int(e.body)
            where = f"{sm.relpath}:{e.lineno}"
            if name is None or weight is None:
                raise AnalysisError(f"Style.__init__ {which} term not understood: {norm(e)}")
            if name not in bits:
                ctx.violation(init.fq, f"{which} term {norm(e)}", where, f"term tests `{name}`, which is not a _Bit attribute")
                continue
            seen[name] = weight
            ctx.check(weight == 1 << bits[name], init.fq, f"{which} term {norm(e)}", where,
                      f"{which}: {name} weighs 2^{bits[name]}",
                      f"{which}: `{name}` contributes weight {weight} but its _Bit descriptor reads bit {bits[name]} (weight {1 << bits[name]})")
        missing = sorted(set(bits) - set(seen))
        ctx.check(not missing, init.fq, f"{which} terms", f"{sm.relpath}:{node.lineno}", f"{which}: all {len(bits)} attributes present",
                  f"{which}: attributes never encoded: {missing}")
    # (4) __str__
    strm = _method(ctx, "__str__")
    count = 0
    aliases = {}
    for n in walk_local(strm.node):
        if isinstance(n, ast.Assign) and len(n.targets) == 1 and isinstance(n.targets[0], ast.Name):
            aliases[n.targets[0].id] = n.value
    bits_names = {k for k, v in aliases.items() if is_attr_of(v, "self", "_set_attributes")} | set()
    vals_names = {k for k, v in aliases.items() if is_attr_of(v, "self", "_attributes")}
    words_emitted = set()
    for n in walk_local(strm.node):
        if not isinstance(n, ast.If):
            continue
        t = n.test
        if not (isinstance(t, ast.BinOp) and isinstance(t.op, ast.BitAnd)):
            continue
        lhs_ok = (isinstance(t.left, ast.Name) and t.left.id in bits_names) or is_attr_of(t.left, "self", "_set_attributes")
        if not lhs_ok:
            continue
        mask = const_int(t.right)
        if mask is None:
            raise AnalysisError(f"Style.__str__ mask not constant: {norm(t)}")
        # direct appends in this if-body (not nested ifs)
        for b in n.body:
            if isinstance(b, ast.Expr) and isinstance(b.value, ast.Call) and b.value.args and isinstance(b.value.args[0], ast.IfExp):
                ie = b.value.args[0]
                # the value of the attribute: the descriptor read self.<name>, or its bit in the value mask (vals & 2**k)
                tname = ie.test.attr if is_attr_of(ie.test, "self") else None
                if tname is None and isinstance(ie.test, ast.BinOp) and isinstance(ie.test.op, ast.BitAnd):
                    l_, r_ = ie.test.left, ie.test.right
                    if const_int(l_) is not None:
                        l_, r_ = r_, l_
                    kbit = const_int(r_)
                    if ((isinstance(l_, ast.Name) and l_.id in vals_names) or is_attr_of(l_, "self", "_attributes")) and kbit is not None and kbit > 0 and kbit & (kbit - 1) == 0:
                        inv = {v_: k_ for k_, v_ in bits.items()}
                        tname = inv.get(kbit.bit_length() - 1, f"<bit {kbit.bit_length() - 1}>")
                if tname is not None and isinstance(ie.body, ast.Constant) and isinstance(ie.orelse, ast.Constant):
                    name = tname
                    where = f"{sm.relpath}:{b.lineno}"
                    count += 1
                    if name not in bits:
                        ctx.violation(strm.fq, norm(b), where, f"__str__ tests self.{name} which is not a _Bit attribute")
                        continue
                    ok = mask == 1 << bits[name] and ie.body.value == name and ie.orelse.value == "not " + name
                    words_emitted.add(ie.body.value)
                    ctx.check(ok, strm.fq, f"if {norm(t)}: {norm(b)}", where, f"__str__: bit {bits[name]} -> '{name}' / 'not {name}'",
                              f"__str__: under mask {mask:#x} emits '{ie.body.value}'/'{ie.orelse.value}' for self.{name} (bit {bits[name]}): word or bit mismatch")
                    # enclosing group masks must include this bit
                    for anc in _if_ancestors(sm, n, strm.node):
                        at = anc.test
                        if isinstance(at, ast.BinOp) and isinstance(at.op, ast.BitAnd):
                            am = const_int(at.right)
                            if am is not None and b in _descendants(anc.body):
                                ctx.check(bool(am & (1 << bits[name])), strm.fq, f"group mask {norm(at)} around {name}", f"{sm.relpath}:{anc.lineno}",
                                          f"group mask covers bit {bits[name]}", f"group mask {am:#b} does not include bit {bits[name]} ({name}): the attribute is silently omitted from str()")
            elif isinstance(b, ast.If):
                # nested: also check outer group covers nested
                nt = b.test
                if isinstance(nt, ast.BinOp) and isinstance(nt.op, ast.BitAnd):
                    im = const_int(nt.right)
                    if im is not None:
                        ctx.check(im & mask == im, strm.fq, f"group {norm(t)} contains {norm(nt)}", f"{sm.relpath}:{b.lineno}",
                                  "inner bit test lies inside its group mask",
                                  f"inner mask {im:#b} is not covered by its group mask {mask:#b}: attribute omitted from str()")
    if count == 0:
        count = _str_table_driven(ctx, strm, bits)
    ctx.floor(count, 13, "__str__ attribute word emitters")
    # (5) parse vocabulary
    parse = _method(ctx, "parse")
    from .common import style_parse_vocabulary
    table = style_parse_vocabulary(ctx)
    if table is None:
        raise AnchorVanished("Style.parse attribute vocabulary dict not found")
    vocab, tnode = table
    for name in bits:
        ctx.check(vocab.get(name) == name, parse.fq, f"style_attributes[{name!r}]", f"{sm.relpath}:{tnode.lineno}",
                  f"parse: word '{name}' -> attribute {name}",
                  f"parse vocabulary maps '{name}' to {vocab.get(name)!r}: str(style) emits '{name}' and would not round-trip")
    for k, v in vocab.items():
        ctx.check(v in bits and v in init.params, parse.fq, f"style_attributes[{k!r}] = {v!r}", f"{sm.relpath}:{tnode.lineno}",
                  f"parse: alias '{k}' -> {v}", f"parse vocabulary value {v!r} (key {k!r}) is not a Style attribute keyword")
    # keywords emitted by __str__ must be handled: on / link / none / not
    consts = {c.value for c in ast.walk(parse.node) if isinstance(c, ast.Constant) and isinstance(c.value, str)}
    str_consts = {c.value for c in ast.walk(strm.node) if isinstance(c, ast.Constant) and isinstance(c.value, str)}
    for kw in ("on", "link", "none", "not"):
        emitted = kw in str_consts or any(s.startswith(kw + " ") for s in str_consts)
        if emitted:
            ctx.check(kw in consts, parse.fq, f"keyword {kw!r}", parse.where, f"parse handles keyword '{kw}' that __str__ emits",
                      f"__str__ emits keyword '{kw}' but parse() has no case for it")
    # (6) _make_ansi_codes bit tests
    mk = _method(ctx, "_make_ansi_codes")
    smap_node = _style(ctx).class_assign("_style_map")
    if smap_node is None:
        raise AnchorVanished("Style._style_map not found")
    smap = literal(smap_node)
    ctx.check(sorted(smap) == sorted(bits.values()), F, "_style_map keys", f"{sm.relpath}:{smap_node.lineno}", "_style_map has one entry per attribute bit",
              f"_style_map keys {sorted(smap)} != attribute bits {sorted(bits.values())}")
    covered: Dict[int, int] = {}

    def scan(body, outer_masks):
        for st in body:
            if isinstance(st, ast.If):
                t = st.test
                m = None
                if isinstance(t, ast.BinOp) and isinstance(t.op, ast.BitAnd):
                    m = t.right
                scan_if(st, m, outer_masks)
            elif isinstance(st, ast.For):
                # for bit in range(a, b): if attributes & (1 << bit): append(_style_map[bit])
                it = st.iter
                if isinstance(it, ast.Call) and isinstance(it.func, ast.Name) and it.func.id == "range" and isinstance(st.target, ast.Name):
                    rng = [const_int(a) for a in it.args]
                    if None in rng:
                        raise AnalysisError(f"_make_ansi_codes: non-constant range {norm(it)}")
                    for bit in range(*rng):
                        scan_loop_body(st.body, st.target.id, bit, outer_masks, st)

    def scan_loop_body(body, var, bit, outer_masks, forst):
        for st in body:
            if isinstance(st, ast.If) and isinstance(st.test, ast.BinOp) and isinstance(st.test.op, ast.BitAnd):
                m = const_int(st.test.right, {var: bit})
                for b in st.body:
                    k = _appended_key(b, {var: bit})
                    if k is not None:
                        record(k, m, outer_masks, st)

    def _appended_key(b, env):
        if isinstance(b, ast.Expr) and isinstance(b.value, ast.Call) and b.value.args and isinstance(b.value.args[0], ast.Subscript):
            sub = b.value.args[0]
            if "_style_map" in norm(sub.value):
                return const_int(sub.slice, env)
        return None

    def record(key, mask, outer_masks, st):
        where = f"{sm.relpath}:{st.lineno}"
        covered[key] = covered.get(key, 0) + 1
        ctx.check(mask == 1 << key, mk.fq, f"if {norm(st.test)}: append(_style_map[{key}])", where,
                  f"_make_ansi_codes: bit {key} -> _style_map[{key}]", f"_make_ansi_codes tests mask {mask} but appends the SGR code of bit {key}")
        for om, ost in outer_masks:
            ctx.check(bool(om & (1 << key)), mk.fq, f"group mask {om:#b} around bit {key}", f"{sm.relpath}:{ost.lineno}",
                      f"group mask covers bit {key}", f"group mask {om:#b} excludes bit {key}: that attribute is never emitted")

    def scan_if(st, mask_node, outer_masks):
        mask = const_int(mask_node) if mask_node is not None else None
        direct = False
        for b in st.body:
            k = _appended_key(b, {})
            if k is not None:
                direct = True
                record(k, mask, outer_masks, st)
        if not direct:
            new_outer = outer_masks + ([(mask, st)] if mask is not None else [])
            scan(st.body, new_outer)

    scan(mk.node.body, [])
    # comprehension form:  [_style_map[bit] for bit in range(a, b) if attributes & (1 << bit)]
    for lc in walk_local(mk.node):
        if isinstance(lc, (ast.ListComp, ast.GeneratorExp)) and len(lc.generators) == 1 and isinstance(lc.elt, ast.Subscript) and "_style_map" in norm(lc.elt.value):
            ge = lc.generators[0]
            it = ge.iter
            if isinstance(it, ast.Call) and isinstance(it.func, ast.Name) and it.func.id == "range" and isinstance(ge.target, ast.Name) and len(ge.ifs) == 1 and isinstance(ge.ifs[0], ast.BinOp) and isinstance(ge.ifs[0].op, ast.BitAnd):
                rng = [const_int(a) for a in it.args]
                if None in rng:
                    raise AnalysisError(f"_make_ansi_codes: non-constant range {norm(it)}")
                for bit in range(*rng):
                    env = {ge.target.id: bit}
                    key = const_int(lc.elt.slice, env)
                    mask = const_int(ge.ifs[0].right, env)
                    if key is None:
                        raise AnalysisError(f"_make_ansi_codes: comprehension element index not evaluable: {norm(lc.elt)}")
                    fake = ast.If(test=ge.ifs[0], body=[], orelse=[])
                    fake.lineno = lc.lineno
                    record(key, mask, [], fake)
    if not covered:
        raise AnalysisError("Style._make_ansi_codes: no `if attributes & <mask>: append(_style_map[k])` emission was recognised (bit tests, masked loops or a comprehension over range()); the attribute loop is written in a form this rule does not interpret")
    missing = sorted(set(bits.values()) - set(covered))
    dup = sorted(k for k, c in covered.items() if c > 1)
    ctx.check(not missing and not dup, mk.fq, "attribute bit coverage", mk.where, f"_make_ansi_codes emits each of the {len(bits)} attribute bits exactly once",
              f"_make_ansi_codes: bits never emitted {missing}, emitted twice {dup}")
    # tri-state: tests are applied to _attributes & _set_attributes
    masked = False
    for n in walk_local(mk.node):
        if isinstance(n, ast.Assign) and isinstance(n.value, ast.BinOp) and isinstance(n.value.op, ast.BitAnd):
            def leaves(e):
                if isinstance(e, ast.BinOp) and isinstance(e.op, ast.BitAnd):
                    return leaves(e.left) + leaves(e.right)
                return [norm(e)]
            s = set(leaves(n.value))
            if {"self._attributes", "self._set_attributes"} <= s and all(x in ("self._attributes", "self._set_attributes") or const_int(ast.parse(x, mode="eval").body) is not None for x in s):
                masked = True
    ctx.check(masked, mk.fq, "attributes = self._attributes & self._set_attributes", mk.where,
              "bit tests use value∧set (unset / False attributes emit nothing)", "bit tests are not applied to _attributes & _set_attributes")
    # _Bit.__get__ reads set then value
    bitcls = ctx.repo.cls("style:_Bit")
    g = bitcls.method("__get__")
    if g is None:
        raise AnchorVanished("style:_Bit.__get__ not found")
    from ..astutil import inline as _inl, single_defs as _sdf
    _gsd = _sdf(g.node)
    src = " ; ".join(norm(_inl(x, _gsd)) for x in walk_local(g.node) if isinstance(x, ast.expr) and isinstance(x, (ast.BinOp, ast.Compare, ast.IfExp)))
    ctx.shape("_set_attributes & self.bit" in src and "_attributes & self.bit" in src, g.fq, "_Bit.__get__", g.where,
              "_Bit.__get__ tests the set-mask then the value bit", "_Bit.__get__ no longer reads both masks with self.bit")


def _if_ancestors(module, node, stop):
    cur = module.parent_of.get(node)
    while cur is not None and cur is not stop:
        if isinstance(cur, ast.If):
            yield cur
        cur = module.parent_of.get(cur)


def _descendants(body):
    out = set()
    for b in body:
        for x in ast.walk(b):
            out.add(x)
    return out


def r6_6(ctx):
    from .c18 import r18_7
    r18_7(ctx)
    ctx.rules_applied["R6.6"] = ctx.rules_applied.pop("R18.7") + " (needed for str()/parse round trip of color(n) and named colours)"
    ctx.rule_counts["R6.6"] = ctx.rule_counts.pop("R18.7", 0)
    for o in ctx.obligations:
        if o["rule"] == "R18.7":
            o["rule"] = "R6.6"
    for v in ctx.violations:
        if v.rule == "R18.7":
            v.rule = "R6.6"


def r6_8(ctx):
    from .common import memo_rule
    memo_rule(ctx, "R6.8", ["style"], 4, only={"Style.__str__", "Style.__hash__", "Style.parse", "Style.normalize", "Style.get_html_style"})


def r6_9(ctx):
    ctx.rule("R6.9", "colour names are normalised in every branch of Color.parse (sibling agreement): the name stored in the returned Color - which takes part in equality and is what str(style) prints - is the lower-cased, stripped spelling that Style.parse will read back, never the caller's original spelling")
    f = ctx.repo.fn("color:Color.parse")
    m = f.module
    param = f.params[1]
    # the normalised spelling: a name assigned from <param>.lower()/.strip() chains
    normalised = set()
    for x in walk_local(f.node):
        if isinstance(x, ast.Assign) and len(x.targets) == 1 and isinstance(x.targets[0], ast.Name) and isinstance(x.value, ast.Call) and isinstance(x.value.func, ast.Attribute) and x.value.func.attr in ("lower", "strip", "casefold"):
            chain_txt = norm(x.value)
            if ".lower()" in chain_txt or ".casefold()" in chain_txt:
                normalised.add(x.targets[0].id)
    originals = {x.targets[0].id for x in walk_local(f.node) if isinstance(x, ast.Assign) and len(x.targets) == 1 and isinstance(x.targets[0], ast.Name) and norm(x.value) == param} | ({param} - normalised)
    n = 0
    for c in walk_local(f.node):
        if isinstance(c, ast.Call) and norm(c.func) in ("cls", "Color") and c.args:
            n += 1
            a0 = c.args[0]
            where = f"{m.relpath}:{c.lineno}"
            used = {x.id for x in ast.walk(a0) if isinstance(x, ast.Name)}
            if isinstance(a0, ast.Name) and a0.id in normalised and a0.id not in originals:
                ctx.ok(where, f"colour named `{norm(a0)}` (normalised spelling)", f.fq)
            elif used & originals:
                ctx.violation(f.fq, short(c), where, f"`{short(c)}` names the colour `{norm(a0)}`, not the lower-cased spelling the other branches use: Color('#FF0000') != Color('#ff0000') although they are the same colour, and str(style) no longer parses back to an equal style")
            else:
                # a name rebuilt from the parsed numbers (triplet.rgb, triplet.hex, f"color({number})") is canonical by construction
                numeric = {x.targets[0].id for x in walk_local(f.node) if isinstance(x, ast.Assign) and len(x.targets) == 1 and isinstance(x.targets[0], ast.Name) and isinstance(x.value, ast.Call) and norm(x.value.func) in ("ColorTriplet", "int")}
                if used and used <= numeric and not isinstance(a0, ast.Name):
                    ctx.ok(where, f"colour named `{norm(a0)}` (rebuilt from the parsed numbers)", f.fq)
                else:
                    raise AnalysisError(f"Color.parse: `{short(c)}` names the colour `{norm(a0)}`; cannot tell whether that is a normalised spelling")
    ctx.floor(n, 4, "Color constructions in Color.parse")


def r6_10(ctx):
    from .c04 import r4_5
    from .common import borrow
    borrow(ctx, r4_5, "R4.5", "R6.10", " [normalising a definition does not change what it parses to: case is folded in the attribute / colour words only, never in a link URL]")


def _sub_accepts(sub, ch: str) -> bool:
    """can a string matched by the sub-pattern contain `ch`?"""
    from .. import regexast as rxa
    sre_c = rxa.sre_c
    for op, av in sub:
        if op in (sre_c.MAX_REPEAT, sre_c.MIN_REPEAT):
            if _sub_accepts(av[2], ch):
                return True
        elif op is sre_c.SUBPATTERN:
            if _sub_accepts(av[3], ch):
                return True
        elif op is sre_c.BRANCH:
            if any(_sub_accepts(a, ch) for a in av[1]):
                return True
        elif op is sre_c.AT:
            continue
        else:
            r = rxa.class_accepts(op, av, ch)
            if r is None:
                raise AnalysisError("RE_COLOR: an item of the pattern is not a character class this rule reads")
            if r:
                return True
    return False


def r6_11(ctx):
    ctx.rule("R6.11", "a colour's name is one word of a style definition: Style.__str__ writes Color.name verbatim and Style.parse splits the definition on white space. Where RE_COLOR lets a group contain white space (rgb(r, g, b)), the branch of Color.parse that handles that group must not keep the user's text as the name, or str() of the style cannot be parsed back and the same colour spelt with and without spaces compares unequal")
    from .. import regexast as rxa
    cm = ctx.repo.mod("color")
    rx = rxa.compile_call(cm.global_assign("RE_COLOR"))
    if rx is None:
        raise AnchorVanished("color.RE_COLOR not found")
    sp = rxa.parse_call(rx)
    f = ctx.repo.fn("color:Color.parse")
    m = f.module
    # premise: the name is written verbatim by Style.__str__
    st = ctx.repo.fn("style:Style.__str__")
    if not any(isinstance(n, ast.Attribute) and n.attr == "name" and "color" in norm(n.value) for n in walk_local(st.node)):
        raise AnalysisError("Style.__str__ no longer writes Color.name; the premise of this rule changed")
    groups = None
    for n in walk_local(f.node):
        if isinstance(n, ast.Assign) and isinstance(n.targets[0], ast.Tuple) and isinstance(n.value, ast.Call) and norm(n.value.func).endswith(".groups"):
            groups = [norm(e) for e in n.targets[0].elts]
    if groups is None or len(groups) != rxa.group_count(sp):
        raise AnalysisError("Color.parse: the groups of RE_COLOR are not unpacked into one name each")
    spacey = []
    for i, g in enumerate(groups, 1):
        sub = rxa.group_subpattern(sp, i)
        if sub is not None and any(_sub_accepts(sub, c) for c in " \t"):
            spacey.append(g)
    if not spacey:
        ctx.ok(f"{m.relpath}:{rx.lineno}", "no group of RE_COLOR admits white space", "color:RE_COLOR")
        return
    parents = {}
    for p_ in ast.walk(f.node):
        for fld in ("body", "orelse"):
            for c_ in getattr(p_, fld, []) if isinstance(getattr(p_, fld, None), list) else []:
                parents[id(c_)] = (p_, fld)
    sd_raw = {}
    for n in walk_local(f.node):
        if isinstance(n, ast.Assign) and len(n.targets) == 1 and isinstance(n.targets[0], ast.Name):
            sd_raw.setdefault(n.targets[0].id, []).append(n.value)
    pname = f.params[1] if len(f.params) > 1 else None
    n_inst = 0
    for g in spacey:
        for ret in walk_local(f.node):
            if not (isinstance(ret, ast.Return) and isinstance(ret.value, ast.Call) and norm(ret.value.func) in ("cls", "Color")):
                continue
            # the innermost block holding the return: does it read the group?
            blk_owner = parents.get(id(ret))
            node_ = ret
            reads = False
            while blk_owner is not None:
                owner, fld = blk_owner
                block = getattr(owner, fld)
                if any(isinstance(x, ast.Name) and x.id == g and isinstance(x.ctx, ast.Load) for b in block for x in ast.walk(b)):
                    reads = True
                    break
                if isinstance(owner, ast.FunctionDef):
                    break
                node_ = owner
                blk_owner = parents.get(id(owner))
                # an elif chain: owner sits in the orelse of the previous If, keep climbing only through try/with wrappers
                if isinstance(owner, ast.If):
                    break
            if not reads:
                continue
            n_inst += 1
            call = ret.value
            name_arg = call.args[0] if call.args else next((k.value for k in call.keywords if k.arg == "name"), None)
            where = f"{m.relpath}:{ret.lineno}"
            if name_arg is None:
                raise AnalysisError(f"Color.parse: `{short(ret)}` builds a colour without a name")
            raw_names = set()
            for x in ast.walk(name_arg):
                if isinstance(x, ast.Name):
                    if x.id == g or x.id == pname:
                        raw_names.add(x.id)
                    for d in sd_raw.get(x.id, []):
                        dn = norm(d)
                        if x.id != pname and pname and dn in (f"{pname}.lower().strip()", f"{pname}.strip().lower()", f"{pname}.lower()", f"{pname}.strip()", pname):
                            raw_names.add(x.id)
            if raw_names:
                # is the raw text cleaned of white space anywhere?
                cleaned = any(isinstance(c, ast.Call) and ((isinstance(c.func, ast.Attribute) and c.func.attr in ("replace", "translate", "split", "sub")) or norm(c.func) in ("re.sub",)) and any(isinstance(y, ast.Name) and y.id in raw_names | {pname} for y in ast.walk(c)) and not (isinstance(c.func, ast.Attribute) and c.func.attr == "split" and norm(c.func.value) == g) for c in walk_local(f.node))
                if cleaned:
                    raise AnalysisError(f"Color.parse: the name `{norm(name_arg)}` comes from the user's text, which is also rewritten somewhere in parse(); cannot tell whether white space survives in the name")
                ctx.violation(f.fq, short(ret), where, f"the `{g}` group of RE_COLOR admits white space and this branch keeps the text as typed for the colour's name (`{norm(name_arg)}`): str(Style(color='rgb(1, 2, 3)')) is 'rgb(1, 2, 3)', which Style.parse reads as three words and rejects; Color.parse('rgb(1, 2, 3)') != Color.parse('rgb(1,2,3)')")
            else:
                ctx.ok(where, f"the name of a `{g}` colour is rebuilt (`{norm(name_arg)}`), not the text as typed", f.fq)
    ctx.floor(n_inst, 1, "colour constructions in the branch of a white-space admitting group of RE_COLOR")


def r6_12(ctx):
    ctx.rule("R6.12", "combining many styles is combining them pairwise: Style.combine / Style.chain reduce their operands with `+` (sum, functools.reduce, a loop of `a + b` / `a += b`), whose algebra R6.4 decides. A merge written out again inside them must still let a later operand CLEAR a bit an earlier one set: an accumulator of attribute bits that is only ever or-ed (`bits |= s._attributes & s._set_attributes`, no `& ~s._set_attributes` on the accumulator) can switch attributes on but never off - combine([bold, not bold]) stays bold while bold + not bold is not")
    c = _style(ctx)
    n = 0
    for name in ("combine", "chain"):
        f = c.method(name)
        if f is None:
            continue
        n += 1
        ors = [x for x in walk_local(f.node) if isinstance(x, ast.AugAssign) and isinstance(x.op, ast.BitOr) and isinstance(x.target, ast.Name) and any(isinstance(y, ast.Attribute) and y.attr == "_attributes" for y in ast.walk(x.value))]
        ors += [x for x in walk_local(f.node) if isinstance(x, ast.Assign) and len(x.targets) == 1 and isinstance(x.targets[0], ast.Name) and isinstance(x.value, ast.BinOp) and isinstance(x.value.op, ast.BitOr)
                and any(isinstance(y, ast.Name) and y.id == x.targets[0].id for y in ast.walk(x.value)) and any(isinstance(y, ast.Attribute) and y.attr == "_attributes" for y in ast.walk(x.value))]
        if not ors:
            ctx.ok(f.where, f"{name}() has no attribute arithmetic of its own", f.fq)
            continue
        for x in ors:
            acc = x.target.id if isinstance(x, ast.AugAssign) else x.targets[0].id
            clears = any(isinstance(y, ast.BinOp) and isinstance(y.op, ast.BitAnd) and any(isinstance(z, ast.UnaryOp) and isinstance(z.op, ast.Invert) for z in (y.left, y.right)) and any(isinstance(z, ast.Name) and z.id == acc for z in ast.walk(y))
                         for st in walk_local(f.node) for y in ast.walk(st))
            ctx.check(clears, f.fq, short(x), f"{f.module.relpath}:{x.lineno}", f"the accumulator `{acc}` is also cleared by later operands",
                      f"`{short(x)}` only ever ORs bits into `{acc}`: a later style that switches an attribute OFF (`not bold`) cannot clear a bit an earlier style set, so {name}([a, b, c]) differs from a + b + c - the right-hand operand no longer wins")
    ctx.floor(n, 1, "n-ary combination methods of Style")


RULES = [r6_1, r6_2, r6_3, r6_4, r6_7, r6_5, r6_6, r6_8, r6_9, r6_10, r6_11, r6_12]
