"""C02 Word wrapping keeps every character, in order, with its own style (structural necessary conditions)."""
from __future__ import annotations

import ast
from typing import Dict, Optional, Set

from ..astutil import alias_map, call_name, expand_alias, kwarg
from ..index import AnalysisError, AnchorVanished, norm, short, walk_local
from .common import borrow

LEVEL = "other"
UNDECIDED = [
    "the break positions chosen by divide_line for all strings and widths (that every produced line fits, that words are only broken when too long given the indentation on their line)",
    "justification padding arithmetic (Lines.justify) and truncate() never cutting a non-whitespace character for overflow='fold'",
    "per-character style equality after wrapping (only span clipping order and offset units are decided)",
]
TRUSTED = ["CPython ast parser", "str slicing: consecutive slices text[a:b], text[b:c] of a partition [0, .., len] concatenate to text", "re.match(pattern, text, pos) anchors at pos"]


def r2_1(ctx):
    ctx.rule("R2.1", "Text.divide partitions the text: the pieces are text[start:end] over consecutive pairs of [0, *offsets, len(text)] of the plain string, so for in-range non-decreasing offsets they concatenate to the original - no character dropped, duplicated or reordered by the division itself")
    f = ctx.repo.fn("text:Text.divide")
    src = norm(f.node)
    checks = [
        ("text = self.plain", "pieces are cut from the plain string"),
        ("text_length = len(text)", "the last boundary is the text's length"),
        ("divide_offsets = [0, *_offsets, text_length]", "boundaries are 0, the offsets in the given order, and the end"),
        ("line_ranges = list(zip(divide_offsets, divide_offsets[1:]))", "ranges are consecutive boundary pairs"),
        ("_offsets = list(offsets)", "offsets are used in the order given"),
    ]
    for frag, what in checks:
        ctx.check(frag in src, f.fq, frag, f.where, what, f"Text.divide no longer has `{frag}`: the pieces are not the consecutive slices of the plain text between the given offsets (characters can be lost, repeated or reordered when wrapping)")
    ok = False
    for x in ast.walk(f.node):
        if isinstance(x, ast.GeneratorExp) and norm(x.generators[0].iter) == "line_ranges":
            tv = [norm(t) for t in x.generators[0].target.elts] if isinstance(x.generators[0].target, ast.Tuple) else []
            el = x.elt
            if isinstance(el, ast.Call) and el.args and len(tv) == 2 and norm(el.args[0]) == f"text[{tv[0]}:{tv[1]}]" and not x.generators[0].ifs:
                ok = True
    ctx.check(ok, f.fq, "_Text(text[start:end], ...) for start, end in line_ranges", f.where, "one piece per range, holding exactly that slice", "the new lines are not built as text[start:end] for every range in order")
    # span clipping is relative to the piece start
    ctx.check("_Span(span_start - start, span_end - start, span_style)" in src, f.fq, "line_span offsets", f.where, "clipped spans are re-based to the start of their line", "clipped spans are not shifted by the start offset of their line: styles land on the wrong characters after wrapping")
    sp = ctx.repo.fn("text:Span.split")
    s2 = norm(sp.node)
    ctx.check("span1 = Span(start, min(end, offset), style)" in s2 and "span2 = Span(span1.end, end, style)" in s2, sp.fq, "Span.split", sp.where, "a span is cut at the offset into two abutting parts with the same style", "Span.split no longer cuts a span into two abutting parts at the offset")


def r2_2(ctx):
    ctx.rule("R2.2", "Text.wrap computes break offsets on the very string it then divides: for each line from split(allow_blank=True) the offsets come from divide_line(str(line), width, fold=...) and are applied with line.divide(offsets); tabs are expanded before measuring; every resulting line is collected in order")
    f = ctx.repo.fn("text:Text.wrap")
    m = f.module
    loops = [x for x in walk_local(f.node) if isinstance(x, ast.For) and "self.split(" in norm(x.iter)]
    ctx.check(len(loops) == 1 and "allow_blank=True" in norm(loops[0].iter), f.fq, "for line in self.split(allow_blank=True)", f.where, "every source line (incl. trailing blank) is wrapped", "wrap does not iterate self.split(allow_blank=True): blank lines or whole lines are lost")
    if not loops:
        return
    lp = loops[0]
    var = norm(lp.target)
    dl = [c for c in ast.walk(lp) if isinstance(c, ast.Call) and call_name(c) == "divide_line"]
    dv = [c for c in ast.walk(lp) if isinstance(c, ast.Call) and isinstance(c.func, ast.Attribute) and c.func.attr == "divide"]
    ok = len(dl) == 1 and len(dv) == 1 and dl[0].args and norm(dl[0].args[0]) in (f"str({var})", f"{var}.plain") and norm(dv[0].func.value) == var
    if ok:
        # the offsets passed to divide are the result of divide_line
        arg = dv[0].args[0]
        ok = arg is dl[0] or (isinstance(arg, ast.Name) and any(isinstance(a, ast.Assign) and norm(a.targets[0]) == arg.id and a.value is dl[0] for a in ast.walk(lp)))
    ctx.check(ok, f.fq, f"offsets = divide_line(str({var}), ...); {var}.divide(offsets)", f"{m.relpath}:{lp.lineno}", "offsets are computed on and applied to the same line",
              "the break offsets are computed on a different string than the Text that is divided: offsets no longer fall between the intended characters")
    if dl:
        w = dl[0].args[1] if len(dl[0].args) > 1 else kwarg(dl[0], "width")
        ctx.check(w is not None and norm(w) == "width", f.fq, short(dl[0]), f"{m.relpath}:{dl[0].lineno}", "break computation uses the requested width", "divide_line is not given the requested width")
        fo = kwarg(dl[0], "fold")
        ctx.check(fo is not None and norm(fo) == "wrap_overflow == 'fold'", f.fq, short(dl[0]), f"{m.relpath}:{dl[0].lineno}", "long words are folded exactly for overflow='fold'", "fold is not tied to overflow == 'fold'")
    src = norm(lp)
    ctx.check(src.index("expand_tabs(") < src.index("divide_line(") if "expand_tabs(" in src and "divide_line(" in src else False, f.fq, "expand_tabs before divide_line", f"{m.relpath}:{lp.lineno}", "tabs are expanded before widths are measured", "tabs are not expanded before the break offsets are computed")
    # every produced line is truncated to the width, inside the per-paragraph loop, before it is collected
    trunc_ok = False
    for b in lp.body:
        if isinstance(b, ast.For) and norm(b.iter) == "new_lines":
            if any(isinstance(c, ast.Call) and isinstance(c.func, ast.Attribute) and c.func.attr == "truncate" and norm(c.func.value) == norm(b.target) and c.args and norm(c.args[0]) == "width" for c in ast.walk(b)):
                trunc_ok = True
    ext_idx = [i for i, b in enumerate(lp.body) if "lines.extend(new_lines)" in norm(b)]
    ctx.check(trunc_ok and bool(ext_idx), f.fq, "for line in new_lines: line.truncate(width, ...)", f"{m.relpath}:{lp.lineno}", "the lines of every paragraph are truncated to the width before being collected",
              "the final truncate-to-width pass does not run over the lines of every paragraph (it is outside the per-paragraph loop or missing): lines of earlier paragraphs keep over-long words / trailing cells and exceed the width")
    ctx.check("lines.extend(new_lines)" in src and "return lines" in norm(f.node), f.fq, "lines.extend(new_lines)", f.where, "all produced lines are returned in order", "wrap does not collect every produced line in order")


def r2_3(ctx):
    from .c05 import r5_4
    borrow(ctx, r5_4, "R5.4", "R2.3", " [each output character keeps its effective style: divide() clips spans per line and restores their source order]")


def r2_4(ctx):
    ctx.rule("R2.4", "units in the break computation: divide_line compares cell widths with cell widths (cell_len of words vs width, running line_position) and appends character offsets (regex span starts advanced by len(piece)); it never mixes the two; chop_cells is used only for words wider than the width under fold, starting at the current line position")
    f = ctx.repo.fn("_wrap:divide_line")
    m = f.module
    aliases = alias_map(f.node)
    unit: Dict[str, str] = {"width": "cells"}

    def u(e) -> Optional[str]:
        if isinstance(e, ast.Constant):
            return "const"
        if isinstance(e, ast.Name):
            return unit.get(e.id)
        if isinstance(e, ast.Call):
            cn = norm(expand_alias(e.func, aliases))
            if cn in ("cell_len",):
                return "cells"
            if cn == "len":
                return "chars"
            return None
        if isinstance(e, ast.BinOp) and isinstance(e.op, (ast.Add, ast.Sub)):
            us = {u(e.left), u(e.right)} - {"const", None}
            return us.pop() if len(us) == 1 else ("mixed" if len(us) == 2 else None)
        return None

    # loop targets: for start, _end, word in words(text): start/_end are character offsets
    for x in walk_local(f.node):
        if isinstance(x, ast.For) and call_name(x.iter) == "words" and isinstance(x.target, ast.Tuple) and len(x.target.elts) == 3:
            unit[norm(x.target.elts[0])] = "chars"
            unit[norm(x.target.elts[1])] = "chars"
    for _ in range(3):
        for x in walk_local(f.node):
            if isinstance(x, ast.Assign) and len(x.targets) == 1 and isinstance(x.targets[0], ast.Name):
                uu = u(x.value)
                if uu in ("cells", "chars") and unit.get(x.targets[0].id) in (None, uu):
                    unit[x.targets[0].id] = uu
    n = 0
    for x in walk_local(f.node):
        if isinstance(x, ast.Compare) and len(x.ops) == 1 and isinstance(x.ops[0], (ast.Lt, ast.Gt, ast.LtE, ast.GtE)):
            a, b = u(x.left), u(x.comparators[0])
            n += 1
            ctx.check(not ({a, b} == {"cells", "chars"} or "mixed" in (a, b)), f.fq, norm(x), f"{m.relpath}:{x.lineno}", f"comparison of {a or 'unitless'} with {b or 'unitless'}",
                      f"`{norm(x)}` compares a cell width with a character count: lines overflow (or break early) for double-width / zero-width characters")
        if isinstance(x, ast.AugAssign) and isinstance(x.target, ast.Name):
            a, b = unit.get(x.target.id), u(x.value)
            n += 1
            ctx.check(not ({a, b} == {"cells", "chars"}), f.fq, norm(x), f"{m.relpath}:{x.lineno}", f"{x.target.id} ({a}) advanced by a {b or 'unitless'} quantity",
                      f"`{norm(x)}` advances a {a} quantity by a {b} quantity: break offsets must be counted in characters and line positions in cells")
        if isinstance(x, ast.Call) and norm(expand_alias(x.func, aliases)) == "divides.append" and x.args:
            n += 1
            ctx.check(u(x.args[0]) == "chars", f.fq, norm(x), f"{m.relpath}:{x.lineno}", "a character offset is recorded as break position",
                      f"`{norm(x)}` records `{norm(x.args[0])}` ({u(x.args[0]) or 'unknown unit'}) as a break offset; offsets index characters of the text")
    ctx.floor(n, 5, "unit-sensitive sites in divide_line")
    # chop only for over-wide words under fold
    chops = [c for c in walk_local(f.node) if isinstance(c, ast.Call) and call_name(c) == "chop_cells"]
    ctx.check(len(chops) == 1, f.fq, "chop_cells", f.where, "one fold site", f"{len(chops)} chop_cells calls in divide_line")
    for c in chops:
        guards = []
        cur = m.parent_of.get(c)
        while cur is not None and cur is not f.node:
            if isinstance(cur, ast.If):
                guards.append(norm(cur.test))
            cur = m.parent_of.get(cur)
        ok = "fold" in guards and "word_length > width" in guards and "line_position + word_length > width" in guards
        ctx.check(ok, f.fq, short(c), f"{m.relpath}:{c.lineno}", "a word is chopped only when it alone is wider than the width, under fold", f"chop_cells is called under {guards}: words are broken although they would fit on a line of their own")
        pos = kwarg(c, "position")
        ctx.check(len(c.args) >= 2 and norm(c.args[0]) == "word" and norm(c.args[1]) == "width" and pos is not None and norm(pos) == "line_position", f.fq, short(c), f"{m.relpath}:{c.lineno}",
                  "the word is chopped to the width, continuing at the current line position", "chop_cells is not called as chop_cells(word, width, position=line_position)")
    # words(): consecutive matches, each anchored where the previous one ended
    w = ctx.repo.fn("_wrap:words")
    s = norm(w.node)
    ctx.check("word_match = re_word.match(text, end)" in s and "yield (start, end, word)" in s and "word_match = re_word.match(text, position)" in s, w.fq, "words()", w.where, "words are consecutive regex matches (each starts where the previous ended)", "words() no longer yields consecutive matches anchored at the previous end")


def r2_5(ctx):
    from .c13 import r13_9
    borrow(ctx, r13_9, "R13.9", "R2.5", " [a folded word's pieces concatenate to the word and each fits the width]")


def r2_6(ctx):
    ctx.rule("R2.6", "only trailing whitespace is removed at line ends: rstrip_end crops at most the length of the trailing-whitespace regex match (\\\\s+$) and at most the excess; Text.rstrip is str.rstrip")
    f = ctx.repo.fn("text:Text.rstrip_end")
    s = norm(f.node)
    ok = "whitespace_match = _re_whitespace.search(self.plain)" in s and "whitespace_count = len(whitespace_match.group(0))" in s and "self.right_crop(min(whitespace_count, excess))" in s and "excess = text_length - size" in s
    ctx.check(ok, f.fq, "right_crop(min(whitespace_count, excess))", f.where, "crop is bounded by the trailing whitespace run and by the excess", "rstrip_end can remove more than the trailing whitespace (or more than the excess): non-whitespace characters are dropped at line ends")
    import re as _re
    from .. import regexast
    m = f.module
    rx = regexast.compile_call(m.global_assign("_re_whitespace"))
    ctx.check(rx is not None and rx.args[0].value == "\\s+$", "text:_re_whitespace", rx.args[0].value if rx else "?", f.where, "the regex matches only a whitespace run at the very end", "the trailing-whitespace regex is no longer \\\\s+$")
    r = ctx.repo.fn("text:Text.rstrip")
    ctx.check("self.plain = self.plain.rstrip()" in norm(r.node), r.fq, "self.plain = self.plain.rstrip()", r.where, "rstrip removes trailing whitespace only", "Text.rstrip is not str.rstrip of the plain text")


def r2_7(ctx):
    from .common import justify_full_units
    ctx.rule("R2.7", "full justification: the gap distribution in Lines.justify measures the words in cells (cell_len) - the unit of `width` - never in characters, and rebuilds the line from every word, in order; otherwise a line with double-width characters is padded past the width and the final truncate crops characters")
    justify_full_units(ctx)


def r2_8(ctx):
    from .c05 import r5_1
    from .common import borrow
    borrow(ctx, r5_1, "R5.1", "R2.8", " [premise of style-carrying through wrap: tab expansion, append and join keep len() equal to the stored characters, so span offsets stay on their characters]")


RULES = [r2_1, r2_2, r2_3, r2_4, r2_5, r2_6, r2_7, r2_8]
