"""C07 Tables are rectangles that show every cell in its own column (structural conditions)."""
from __future__ import annotations

import ast
from typing import Dict, List, Optional, Set

from .. import cfg as cfgmod
from ..astutil import alias_map, arg_of, call_name, expand_alias, kwarg, literal
from ..index import AnalysisError, AnchorVanished, norm, short, walk_local

LEVEL = "other"
UNDECIDED = [
    "that _calculate_column_widths / _collapse_widths / ratio_reduce / ratio_distribute return widths that sum to the budget (integer solver arithmetic over all inputs)",
    "expand gives exactly the available width; characters of a folded cell stay inside their column (wrapping arithmetic)",
]
TRUSTED = ["CPython ast parser", "zip / enumerate / list semantics", "cell widths of box glyphs according to rich's own CELL_WIDTHS table"]


def _cell_width_fn(ctx):
    table = literal(ctx.repo.mod("_cell_widths").global_assign("CELL_WIDTHS"))

    def cw(ch: str) -> int:
        cp = ord(ch)
        if 31 < cp < 127:
            return 1
        for s, e, w in table:
            if s <= cp <= e:
                return 0 if w == -1 else w
        return 1

    return cw


def r7_1(ctx):
    ctx.rule("R7.1", "one width vector: the list returned by _calculate_column_widths flows unchanged into _render and (summed, plus _extra_width) into the render options; inside _render every width sink - per-cell options.update(width=), set_shape, box.get_top/get_row/get_bottom - receives the `widths` parameter itself or an element obtained by iterating it, with no arithmetic")
    rc = ctx.repo.fn("table:Table.__rich_console__")
    m = rc.module
    g = cfgmod.build(rc.node)
    rd = g.reaching_defs(weak=True)
    wdef = [n for n in g.stmt_nodes() if n.kind == "stmt" and isinstance(n.stmt, ast.Assign) and norm(n.stmt.targets[0]) == "widths"]
    ok = len(wdef) == 1 and "self._calculate_column_widths(" in norm(wdef[0].stmt.value)
    ctx.check(ok, rc.fq, short(wdef[0].stmt) if wdef else "widths = ?", rc.where, "widths computed once by _calculate_column_widths", "Table.__rich_console__ does not take its widths from a single _calculate_column_widths call")
    calls = [c for c in walk_local(rc.node) if isinstance(c, ast.Call) and norm(c.func) == "self._render"]
    ok = len(calls) == 1 and len(calls[0].args) == 3 and norm(calls[0].args[2]) == "widths"
    if ok and wdef:
        st = calls[0]
        while not isinstance(st, ast.stmt):
            st = m.parent_of[st]
        for nid in g.nodes_of(st):
            ok = ok and rd.get(nid, {}).get("widths", set()) == {wdef[0].id}
    ctx.check(ok, rc.fq, short(calls[0]) if calls else "self._render(?)", rc.where, "_render receives exactly that list", "the widths handed to _render are not the unmodified result of _calculate_column_widths")
    tw = [n for n in walk_local(rc.node) if isinstance(n, ast.Assign) and norm(n.targets[0]) == "table_width"]
    ok = len(tw) == 1 and norm(tw[0].value) in ("sum(widths) + extra_width", "extra_width + sum(widths)")
    upd = [c for c in walk_local(rc.node) if isinstance(c, ast.Call) and norm(c.func) == "options.update" and kwarg(c, "width") is not None]
    ok = ok and bool(upd) and all(norm(kwarg(c, "width")) == "table_width" for c in upd)
    ctx.check(ok, rc.fq, "table_width = sum(widths) + extra_width -> options.update(width=table_width)", rc.where, "title/caption/body are rendered at sum(widths) + borders", "the table's render width is not sum(widths) + _extra_width")
    ctx.check(any(isinstance(n, ast.Assign) and norm(n.targets[0]) == "extra_width" and norm(n.value) == "self._extra_width" for n in walk_local(rc.node)), rc.fq, "extra_width = self._extra_width", rc.where, "border allowance is _extra_width", "extra_width is not self._extra_width")
    # _render sinks
    f = ctx.repo.fn("table:Table._render")
    wp = f.params[3]
    g = cfgmod.build(f.node)
    rd = g.reaching_defs(weak=True)
    elem_names: Set[str] = set()
    for n in ast.walk(f.node):
        it = None
        tgt = None
        if isinstance(n, (ast.For, ast.comprehension)):
            it, tgt = n.iter, n.target
        if isinstance(it, ast.Call) and call_name(it) == "zip" and it.args and norm(it.args[0]) == wp and isinstance(tgt, ast.Tuple):
            elem_names.add(norm(tgt.elts[0]))
    sinks = []
    for c in ast.walk(f.node):
        if not isinstance(c, ast.Call):
            continue
        fn = norm(c.func)
        if fn.endswith("options.update") and kwarg(c, "width") is not None:
            sinks.append((c, kwarg(c, "width"), "per-cell options.update(width=)", "elem"))
        elif fn.endswith(".set_shape") and len(c.args) >= 2:
            sinks.append((c, c.args[1], "set_shape width", "elem"))
        elif fn.endswith(".get_top") or fn.endswith(".get_bottom") or fn.endswith(".get_row"):
            sinks.append((c, c.args[0] if c.args else None, fn.split(".")[-1], "vector"))
    ctx.floor(len(sinks), 4, "width sinks in Table._render")
    for c, arg, what, kind in sinks:
        where = f"{f.module.relpath}:{c.lineno}"
        if kind == "vector":
            ok = arg is not None and norm(arg) == wp
        else:
            ok = arg is not None and isinstance(arg, ast.Name) and arg.id in elem_names
        ctx.check(ok, f.fq, short(c), where, f"{what} uses the shared width vector" + ("" if kind == "vector" else " element"),
                  f"{what} receives `{norm(arg) if arg is not None else None}`, which is not the `{wp}` vector{' or an element iterated from it' if kind == 'elem' else ''}: borders, cells and padding no longer share one width")
    # the parameter is never rebound / mutated
    for nd in g.stmt_nodes():
        s, w = g.defs_at(nd, weak=True)
        if nd.kind != "entry" and (wp in s or wp in w):
            ctx.violation(f.fq, short(nd.stmt) if nd.stmt is not None else nd.kind, f"{f.module.relpath}:{nd.lineno}", f"`{wp}` is modified inside _render")


def r7_2(ctx):
    ctx.rule("R7.2", "accounting = emission: _extra_width adds 2 exactly under `box and show_edge` and (columns - 1) exactly under `box`; _render emits one left and one right edge segment per line under the same predicate and one divider between adjacent cells under `box`; box rows get edge=show_edge")
    c = ctx.repo.cls("table:Table")
    ew = c.method("_extra_width")
    if ew is None:
        raise AnchorVanished("Table._extra_width not found")
    # decided per path: the value returned under every combination of (box, show_edge), as a linear form
    from ..linear import eq as _leq, lin as _lin, show as _show
    from ..yieldpaths import consistent
    from .common import return_forms
    forms = return_forms(ew)
    adds = {}
    ok = bool(forms)
    for scen, want in (({"self.box": False}, {}), ({"self.box": True, "self.show_edge": True}, {"len(self.columns)": 1, "": 1}), ({"self.box": True, "self.show_edge": False}, {"len(self.columns)": 1, "": -1})):
        sel = [(fa, v) for fa, v in forms if consistent(tuple(("cond", k, tv) for k, tv in fa.items()), scen)]
        if not sel:
            ok = False
        for fa, v in sel:
            got = _lin(v)
            adds[str(scen)] = _show(got)
            if not _leq(got, want):
                ok = False
    ctx.check(ok, ew.fq, str(adds), ew.where, "+2 under box and show_edge; +(n-1) under box", f"_extra_width accounts {adds}: not `2 if box and show_edge` plus `columns-1 if box`; the width budget no longer matches the border cells emitted")
    f = ctx.repo.fn("table:Table._render")
    m = f.module

    def guards(node) -> List[str]:
        out = []
        cur = m.parent_of.get(node)
        prev = node
        while cur is not None and cur is not f.node:
            if isinstance(cur, ast.If):
                if any(prev is s or prev in list(ast.walk(s)) for s in cur.body):
                    out.append(norm(cur.test))
                else:
                    out.append("not " + norm(cur.test))
            prev = cur
            cur = m.parent_of.get(cur)
        return out

    # per-line loops: `for .. in range(<height>)` whose body yields the cells of the row and ends the line.  In each of them, under
    # `_box and show_edge` exactly one left and one right edge are yielded, without them none; under `_box` exactly one divider is
    # yielded inside the loop over the cells, guarded so that it falls between adjacent cells (not last / index > 0), without a box none
    line_loops = []
    for lp in walk_local(f.node):
        if isinstance(lp, ast.For) and isinstance(lp.iter, ast.Call) and norm(lp.iter.func) == "range":
            ys = [y for b_ in lp.body for y in ast.walk(b_) if isinstance(y, (ast.Yield, ast.YieldFrom))]
            if any(isinstance(y, ast.YieldFrom) and isinstance(y.value, ast.Subscript) for y in ys) and any(isinstance(y, ast.Yield) and y.value is not None and norm(y.value) == "new_line" for y in ys):
                line_loops.append(lp)
    if not line_loops:
        raise AnalysisError("Table._render: the per-line loops that emit the cells of a row were not found")

    def canon(gs):
        out = set()
        for g_ in gs:
            for part in g_.split(" and "):
                out.add(part.strip().strip("()"))
        return out
    for lp in line_loops:
        gl = canon(guards(lp))
        box = "_box" in gl
        edge = box and "show_edge" in gl
        inner = [y for b_ in lp.body for y in ast.walk(b_) if isinstance(y, ast.Yield) and y.value is not None]
        n_left = sum(1 for y in inner if norm(y.value) == "left")
        n_right = sum(1 for y in inner if norm(y.value) == "right")
        dvs = [y for y in inner if norm(y.value) == "divider"]
        where = f"{m.relpath}:{lp.lineno}"
        undecided_edge = box and "show_edge" not in gl and "not show_edge" not in gl
        if undecided_edge:
            # the loop serves both cases: the edge yields carry the show_edge test themselves
            el = [y for y in inner if norm(y.value) in ("left", "right")]
            oke = n_left == 1 and n_right == 1 and all("show_edge" in canon(guards(y)) for y in el)
            ctx.check(oke, f.fq, "if show_edge: yield left / right", where, "one left and one right edge per line, each under show_edge",
                      f"the line loop at line {lp.lineno} (under `_box`) does not yield exactly one left and one right edge under `show_edge` (found {n_left} / {n_right}): the lines are not as wide as _extra_width accounts for")
            want = None
        else:
            want = 1 if edge else 0
        if want is not None:
          ctx.check(n_left == want and n_right == want, f.fq, f"line loop under {sorted(gl & {'_box', 'show_edge', 'not show_edge', 'not _box'})}", where,
                    f"{want} left and {want} right edge per line {'under box and show_edge' if edge else 'without box / show_edge'}",
                    f"the line loop at line {lp.lineno} runs {'under' if edge else 'without'} `_box and show_edge` but yields {n_left} left and {n_right} right edge segment(s) per line: the lines are not as wide as _extra_width accounts for")
        wantd = 1 if box else 0
        okd = len(dvs) == wantd
        if okd and box:
            local = canon(g_ for g_ in guards(dvs[0]) if g_ not in guards(lp))
            local -= {"divider is not None"}
            cell_loops = [x for b_ in lp.body for x in ast.walk(b_) if isinstance(x, ast.For) and any(y is dvs[0] for y in ast.walk(x))]
            adj = False
            if len(cell_loops) == 1 and isinstance(cell_loops[0].target, ast.Tuple) and len(cell_loops[0].target.elts) == 2:
                first_t = norm(cell_loops[0].target.elts[0])
                itf = norm(cell_loops[0].iter.func) if isinstance(cell_loops[0].iter, ast.Call) else ""
                adj = (itf == "loop_last" and local == {f"not {first_t}"}) or (itf == "loop_first" and local == {f"not {first_t}"}) or (itf == "enumerate" and local in ({first_t}, {f"{first_t} > 0"}, {f"{first_t} != 0"}, {f"{first_t} >= 1"}))
            okd = adj
        ctx.check(okd, f.fq, "divider between adjacent cells", where, f"{wantd} divider between adjacent cells {'under box' if box else 'without box'}",
                  f"the line loop at line {lp.lineno} {'under' if box else 'without'} `_box` does not yield exactly one divider between adjacent cells (found {len(dvs)}): column dividers are missing, doubled or emitted at a row's end")
    ctx.shape("left, right, _divider = box_segments[" in norm(f.node), f.fq, "box_segments", f.where, "edge/divider segments come from the box", "edge and divider segments are not taken from box_segments")
    ctx.check(any(isinstance(n, ast.Assign) and norm(n.targets[0]) == "show_edge" and norm(n.value) == "self.show_edge" for n in walk_local(f.node)), f.fq, "show_edge = self.show_edge", f.where, "emission uses the same show_edge flag", "show_edge in _render is not self.show_edge")
    for cl in walk_local(f.node):
        if isinstance(cl, ast.Call) and norm(cl.func).endswith(".get_row"):
            e = kwarg(cl, "edge")
            ctx.check(e is not None and norm(e) == "show_edge", f.fq, short(cl), f"{m.relpath}:{cl.lineno}", "separator rows drawn with edge=show_edge", "a separator row is drawn without edge=show_edge: it is 2 cells wider/narrower than the cell lines")
        if isinstance(cl, ast.Call) and (norm(cl.func).endswith(".get_top") or norm(cl.func).endswith(".get_bottom")):
            gs = set(guards(cl))
            ctx.check("show_edge" in gs or "_box and show_edge" in gs, f.fq, short(cl), f"{m.relpath}:{cl.lineno}", "top/bottom border only with show_edge", "top/bottom border drawn without checking show_edge")


def r7_3(ctx):
    ctx.rule("R7.3", "box glyphs: every Box literal has 8 rows of exactly 4 characters, each of cell width 1 by rich's own width table; Box.__init__ unpacks 8 lines x 4 glyphs; get_top/get_row/get_bottom emit edge + (glyph * width per column, one divider between columns) + edge; legacy substitutions map boxes to boxes")
    bm = ctx.repo.mod("box")
    cw = _cell_width_fn(ctx)
    boxes = {}
    for st in bm.tree.body:
        v = st.value if isinstance(st, (ast.Assign, ast.AnnAssign)) else None
        tgt = (st.targets[0] if isinstance(st, ast.Assign) else st.target) if v is not None else None
        if isinstance(v, ast.Call) and norm(v.func) == "Box" and v.args and isinstance(v.args[0], ast.Constant):
            boxes[norm(tgt)] = (v.args[0].value, st)
    ctx.floor(len(boxes), 15, "Box literals")
    for name, (text, st) in boxes.items():
        rows = text.splitlines()
        bad = []
        if len(rows) != 8:
            bad.append(f"{len(rows)} rows")
        for i, r in enumerate(rows):
            if len(r) != 4:
                bad.append(f"row {i + 1} has {len(r)} characters")
            for ch in r:
                if cw(ch) != 1:
                    bad.append(f"glyph {ch!r} is {cw(ch)} cells wide")
        ctx.check(not bad, f"box:{name}", f"{name} literal", f"{bm.relpath}:{st.lineno}", f"{name}: 8x4 glyphs of width 1", f"box {name} is malformed: {bad[:3]} - borders drawn with it are not the width the table accounts for")
    init = ctx.repo.fn("box:Box.__init__")
    src = norm(init.node)
    n_unpack = sum(1 for n in walk_local(init.node) if isinstance(n, ast.Assign) and isinstance(n.targets[0], ast.Tuple) and len(n.targets[0].elts) == 4 and norm(n.value).startswith("iter(line"))
    ctx.shape(n_unpack == 8 and "line1, line2, line3, line4, line5, line6, line7, line8 = box.splitlines()" in src, init.fq, "8 x 4 unpack", init.where, "Box.__init__ unpacks 8 lines of 4 glyphs", "Box.__init__ no longer unpacks 8 lines of 4 glyphs")
    for name in ("get_top", "get_bottom", "get_row"):
        f = ctx.repo.fn(f"box:Box.{name}")
        aliases = alias_map(f.node)
        body = [s for s in f.node.body if not (isinstance(s, ast.Expr) and isinstance(s.value, ast.Constant))]
        loops = [s for s in body if isinstance(s, ast.For)]
        ok = len(loops) == 1 and "loop_last(widths)" in norm(loops[0].iter)
        if not loops:
            # shape B (possibly through a shared helper): [left +] D.join([H * w for w in widths]) [+ right]
            from ..astutil import concat_parts
            from .common import return_forms
            forms = return_forms(f)
            okb = bool(forms)
            for facts, v in forms:
                parts = concat_parts(v)
                exprs = [p_[1] for p_ in parts if isinstance(p_, tuple)]
                lits = [p_ for p_ in parts if isinstance(p_, str)]
                joins = [e for e in exprs if ".join(" in e]
                if lits or len(joins) != 1:
                    okb = False
                    continue
                j = ast.parse(joins[0], mode="eval").body
                good_join = (isinstance(j, ast.Call) and isinstance(j.func, ast.Attribute) and j.func.attr == "join" and len(j.args) == 1 and isinstance(j.args[0], (ast.ListComp, ast.GeneratorExp)) and len(j.args[0].generators) == 1
                             and not j.args[0].generators[0].ifs and norm(j.args[0].generators[0].iter) == "widths" and isinstance(j.args[0].elt, ast.BinOp) and isinstance(j.args[0].elt.op, ast.Mult)
                             and norm(j.args[0].generators[0].target) in (norm(j.args[0].elt.left), norm(j.args[0].elt.right)))
                edges = [e for e in exprs if e != joins[0]]
                pos = exprs.index(joins[0])
                if name == "get_row":
                    want_edges = 2 if facts.get("edge") is True else (0 if facts.get("edge") is False else None)
                else:
                    want_edges = 2
                good_edges = want_edges is not None and len(edges) == want_edges and (want_edges == 0 or (pos == 1 and len(exprs) == 3))
                if name != "get_row" and good_edges:
                    side = "top" if name == "get_top" else "bottom"
                    good_edges = edges == [f"self.{side}_left", f"self.{side}_right"] and norm(j.func.value) == f"self.{side}_divider" and f"self.{side}" in (norm(j.args[0].elt.left), norm(j.args[0].elt.right))
                if not (good_join and good_edges):
                    okb = False
            ok = okb
        elif ok:
            lp = loops[0]
            wv = norm(lp.target.elts[1])
            lastv = norm(lp.target.elts[0])
            stmts = [norm(s) for s in lp.body]
            ok = len(lp.body) == 2 and stmts[0].startswith("append(") and stmts[0].endswith(f" * {wv})") and isinstance(lp.body[1], ast.If) and norm(lp.body[1].test) == f"not {lastv}" and len(lp.body[1].body) == 1 and norm(lp.body[1].body[0]).startswith("append(")
            # edges
            i = body.index(lp)
            before, after = body[i - 1], body[i + 1]
            # the loop form builds the row in one place: a return anywhere else hands out a row that was not built this way
            early = [r_ for r_ in walk_local(f.node) if isinstance(r_, ast.Return) and r_ is not body[-1]]
            for r_ in early:
                ctx.violation(f.fq, short(r_), f"{f.module.relpath}:{r_.lineno}", f"Box.{name} returns `{short(r_.value) if r_.value is not None else None}` before the row is assembled: this row bypasses the edge handling (and the per-column loop), so it is not as wide as the other lines of the table whenever edges are drawn")
            if name == "get_row":
                ok = ok and isinstance(before, ast.If) and norm(before.test) == "edge" and isinstance(after, ast.If) and norm(after.test) == "edge" and norm(before.body[0]).startswith("append(") and norm(after.body[0]).startswith("append(")
            else:
                ok = ok and norm(before).startswith("append(self.") and norm(after).startswith("append(self.")
        ctx.check(ok, f.fq, name, f.where, f"{name}: edge + per-column run + divider between columns + edge", f"Box.{name} no longer builds edge + glyph*width per column + one divider between columns + edge: its length differs from sum(widths) + borders")
    subs = bm.global_assign("LEGACY_WINDOWS_SUBSTITUTIONS")
    if isinstance(subs, ast.Dict):
        for k, v in zip(subs.keys, subs.values):
            ctx.check(norm(k) in boxes and norm(v) in boxes, "box:LEGACY_WINDOWS_SUBSTITUTIONS", f"{norm(k)}: {norm(v)}", f"{bm.relpath}:{subs.lineno}", "substitution maps a box to a box", f"substitution {norm(k)} -> {norm(v)} does not name two Box constants")


def r7_4(ctx):
    ctx.rule("R7.4", "rows in insertion order: add_row appends to every column's cell list and to rows; _render zips the columns' cells in order; nothing sorts or reverses rows, cells or columns")
    ar = ctx.repo.fn("table:Table.add_row")
    src = norm(ar.node)
    ctx.shape("self.rows.append(" in src and ("column._cells.append(" in src or "add_cell(" in src), ar.fq, "append", ar.where, "add_row appends to each column and to rows", "add_row no longer appends the new cells/row at the end")
    tm = ctx.repo.mod("table")
    bad = []
    for f in tm.functions.values():
        if tm.in_main_guard(f.node):
            continue
        for x in walk_local(f.node):
            if isinstance(x, ast.Call):
                fn = norm(x.func)
                if (fn in ("sorted", "reversed") and x.args and any(k in norm(x.args[0]) for k in ("rows", "_cells", "columns", "row_cells", "raw_cells"))) or (isinstance(x.func, ast.Attribute) and x.func.attr in ("sort", "reverse", "insert") and any(k in norm(x.func.value) for k in ("rows", "_cells", "columns", "row_cells", "raw_cells"))):
                    bad.append(f"{f.fq}:{x.lineno} {short(x)}")
    ctx.check(not bad, "table:Table", "no reordering", "rich/table.py", "no sort/reverse/insert on rows, cells or columns", f"rows/cells/columns are reordered: {bad}")
    r = ctx.repo.fn("table:Table._render")
    ctx.check("row_cells: List[Tuple[_Cell, ...]] = list(zip(*_column_cells))" in norm(r.node) and "for column_index, column in enumerate(self.columns)" in norm(r.node), r.fq, "zip(*_column_cells)", r.where, "rows are formed by zipping the columns' cells in order", "_render does not build rows by zipping the columns' cell lists in order")
    gc = ctx.repo.fn("table:Table._get_cells")
    s = norm(gc.node)
    ok = s.index("column.header") < s.index("for cell in column.cells") < s.index("column.footer")
    ctx.check(ok, gc.fq, "header, cells, footer", gc.where, "header first, then cells in order, then footer", "_get_cells no longer yields header, then the cells in order, then footer")


def r7_5(ctx):
    ctx.rule("R7.5", "each row occupies at least one line: the row height handed to set_shape starts at 1 and only grows with the tallest cell (a row whose cells all render to nothing still gets its own line)")
    f = ctx.repo.fn("table:Table._render")
    m = f.module
    shapes = [c for c in ast.walk(f.node) if isinstance(c, ast.Call) and norm(c.func).endswith(".set_shape") and len(c.args) >= 3]
    ctx.floor(len(shapes), 1, "set_shape calls in _render")
    for c in shapes:
        h = c.args[2]
        where = f"{m.relpath}:{c.lineno}"
        if not isinstance(h, ast.Name):
            ctx.violation(f.fq, short(c), where, f"row height `{norm(h)}` is not the running maximum variable")
            continue
        defs = [x for x in walk_local(f.node) if isinstance(x, ast.Assign) and len(x.targets) == 1 and norm(x.targets[0]) == h.id]
        init = [d for d in defs if isinstance(d.value, ast.Constant) and isinstance(d.value.value, int) and d.value.value >= 1]
        grow = [d for d in defs if isinstance(d.value, ast.Call) and norm(d.value.func) == "max" and any(norm(a) == h.id for a in d.value.args)]
        def at_least_one(v):
            """max(...) with a constant >= 1 among its arguments / list elements: max(1, x), max([..] + [1]), max(xs, default=1) is not (empty -> default only)"""
            if not (isinstance(v, ast.Call) and norm(v.func) == "max"):
                return False
            def has_const(e):
                if isinstance(e, ast.Constant) and isinstance(e.value, int) and not isinstance(e.value, bool) and e.value >= 1:
                    return True
                if isinstance(e, (ast.List, ast.Tuple)):
                    return any(has_const(x) for x in e.elts)
                if isinstance(e, ast.BinOp) and isinstance(e.op, ast.Add):
                    return has_const(e.left) or has_const(e.right)
                if isinstance(e, ast.Starred):
                    return False
                return False
            if len(v.args) >= 2:
                return any(isinstance(a, ast.Constant) and isinstance(a.value, int) and a.value >= 1 for a in v.args)
            return len(v.args) == 1 and has_const(v.args[0])
        single = [d for d in defs if at_least_one(d.value)]
        other = [d for d in defs if d not in init and d not in grow and d not in single]
        ok = (bool(init) or bool(single)) and not other
        ctx.check(ok, f.fq, "; ".join(norm(d) for d in defs), where, f"`{h.id}` starts at >= 1 and only grows by max({h.id}, ...)",
                  f"row height `{h.id}` is defined by {[norm(d) for d in defs]}: it can be 0 when every cell of a row renders to no lines, so that row vanishes instead of occupying a line of its own")
        # the same height is used for every cell of the row and for the line loop
        ctx.shape(f"for line_no in range({h.id})" in norm(f.node), f.fq, f"range({h.id})", where, "the row's lines are emitted for exactly that height", f"the emitted line count is not range({h.id})")


def r7_6(ctx):
    from .c02 import r2_4
    from .common import borrow
    borrow(ctx, r2_4, "R2.4", "R7.6", " [a folded cell shows every character only if the break computation keeps its units and its running position right]")


def r7_7(ctx):
    ctx.rule("R7.7", "one box row per line: in Table._render every Segment whose text comes from box.get_top / get_row / get_bottom holds exactly that one row - the row string is never repeated (`row * n`) or concatenated with another row inside a segment - so `leading` blank rows are emitted as separate lines, each as wide as the table")
    f = ctx.repo.fn("table:Table._render")
    m = f.module
    from ..astutil import inline as _inl, single_defs as _sdf
    sd = _sdf(f.node)
    n = 0
    for x in walk_local(f.node):
        if not (isinstance(x, ast.Call) and norm(x.func) in ("_Segment", "Segment") and x.args):
            continue
        a0 = _inl(x.args[0], sd)
        rows = [c for c in ast.walk(a0) if isinstance(c, ast.Call) and isinstance(c.func, ast.Attribute) and c.func.attr in ("get_top", "get_row", "get_bottom")]
        if not rows:
            continue
        n += 1
        where = f"{m.relpath}:{x.lineno}"
        if a0 is rows[0] or (isinstance(a0, ast.Call) and a0 in rows):
            ctx.ok(where, f"`{short(x.args[0])}` is emitted as one line", f.fq)
        elif isinstance(a0, ast.BinOp) and isinstance(a0.op, (ast.Mult, ast.Add)):
            ctx.violation(f.fq, short(x), where, f"`{short(x.args[0])}` puts several copies of a box row into ONE segment with no new line between them: that line is a multiple of the table's width (Table(leading=2) draws its blank separator rows twice as wide as the table)")
        else:
            raise AnalysisError(f"Table._render: box row used inside `{short(a0)}`; not a plain row, not a repetition - not decided")
    ctx.floor(n, 3, "box rows emitted by Table._render")


def r7_8(ctx):
    from ..yieldpaths import Enumerator, Unsupported, resolve, select, show
    ctx.rule("R7.8", "an expanding table is padded out to the available width: on every path of Table._calculate_column_widths that is consistent with `self.expand` and reaches the final distribution `ratio_distribute(T - table_width, widths)`, the target T is the function's own max_width parameter (path normal form with the conditional expression forked; the non-expand / min_width paths may use a smaller target)")
    f = ctx.repo.fn("table:Table._calculate_column_widths")
    m = f.module
    mw = f.params[2] if len(f.params) > 2 else "max_width"
    try:
        from ..yieldpaths import feasible as _feasible
        P = [q_ for q_ in (resolve(p_, keep=("table_width", "widths")) for p_ in Enumerator(f.node, inline_temps=False).run()) if _feasible(q_)]
    except Unsupported as u:
        raise AnalysisError(f"Table._calculate_column_widths uses a statement the path normal form does not cover ({u})")
    n = 0
    bad = None
    for p_ in select(P, {"self.expand": True}):
        for ev in p_:
            txt = ev[2] if ev[0] == "set" else (ev[1] if ev[0] in ("do", "return") else None)
            if not txt or "ratio_distribute(" not in txt:
                continue
            try:
                e = ast.parse(txt, mode="eval").body
            except SyntaxError:
                continue
            for c in ast.walk(e):
                if isinstance(c, ast.Call) and norm(c.func) == "ratio_distribute" and len(c.args) == 2 and isinstance(c.args[0], ast.BinOp) and isinstance(c.args[0].op, ast.Sub) and "table_width" in norm(c.args[0].right):
                    n += 1
                    tgt = norm(c.args[0].left)
                    if tgt != mw:
                        bad = (tgt, p_)
    # on every path (expanding or not) the target never exceeds the width that is available: it is max_width itself or a
    # min(.., max_width); padding out to min_width alone renders a table wider than its own measurement
    over = None
    for p_ in P:
        for ev in p_:
            txt = ev[2] if ev[0] == "set" else (ev[1] if ev[0] in ("do", "return") else None)
            if not txt or "ratio_distribute(" not in txt:
                continue
            try:
                e = ast.parse(txt, mode="eval").body
            except SyntaxError:
                continue
            for c in ast.walk(e):
                if isinstance(c, ast.Call) and norm(c.func) == "ratio_distribute" and len(c.args) == 2 and isinstance(c.args[0], ast.BinOp) and isinstance(c.args[0].op, ast.Sub) and "table_width" in norm(c.args[0].right):
                    t_ = c.args[0].left
                    bounded = norm(t_) == mw or (isinstance(t_, ast.Call) and norm(t_.func) == "min" and any(norm(a_) == mw for a_ in t_.args))
                    if not bounded:
                        over = (norm(t_), p_)
    if over is not None:
        ctx.violation(f.fq, f"ratio_distribute({over[0]} - table_width, widths)", f.where, f"the columns are padded out to `{over[0]}`, which is not bounded by the available width `{mw}`: Table(min_width=50) on a 30-cell console renders 50 cells wide while it measures 30")
    if n == 0:
        raise AnalysisError("Table._calculate_column_widths: no final `ratio_distribute(T - table_width, widths)` on a path with self.expand - the expansion step is written in a form this rule does not read")
    ctx.check(bad is None, f.fq, f"ratio_distribute({bad[0] if bad else mw} - table_width, widths)", f.where, f"with expand, the columns are padded out to `{mw}` on all {n} paths",
              f"with expand=True the columns are padded out to `{bad[0] if bad else ''}` rather than to the available width `{mw}`: Table(expand=True, min_width=20) stays at its content width instead of filling the console" + (f" [path: {show(bad[1])[-400:]}]" if bad else ""))


def r7_9(ctx):
    ctx.rule("R7.9", "no stale total: in Table._calculate_column_widths `table_width` always is the sum of the `widths` in force - from every (re)definition or element store of `widths`, no path reaches a read of `table_width` without passing `table_width = sum(widths)` first (CFG reachability with the recomputations and the other definitions as barriers); a stale total makes the expand / min_width decision for a table whose columns were just re-measured")
    f = ctx.repo.fn("table:Table._calculate_column_widths")
    m = f.module
    g = cfgmod.build(f.node)
    wdefs, recompute, reads = set(), set(), {}
    for nd in g.nodes:
        if nd.id not in g.reachable:
            continue
        if nd.kind == "stmt" and isinstance(nd.stmt, (ast.Assign, ast.AugAssign, ast.AnnAssign)):
            tgts = nd.stmt.targets if isinstance(nd.stmt, ast.Assign) else [nd.stmt.target]
            val = nd.stmt.value
            for t in tgts:
                base = t.value if isinstance(t, ast.Subscript) else t
                if isinstance(base, ast.Name) and base.id == "widths":
                    wdefs.add(nd.id)
                if isinstance(t, ast.Name) and t.id == "table_width" and val is not None and norm(val) == "sum(widths)":
                    recompute.add(nd.id)
        e = nd.stmt if nd.kind == "stmt" else nd.expr
        if e is None or nd.kind not in ("stmt", "test", "for"):
            continue
        src = e
        if nd.kind == "stmt" and isinstance(e, (ast.Assign, ast.AnnAssign, ast.AugAssign)):
            src = e.value if not isinstance(e, ast.AugAssign) else e
        if nd.kind == "stmt" and isinstance(e, (ast.If, ast.While, ast.For, ast.With, ast.Try)):
            continue
        if src is not None and any(isinstance(x, ast.Name) and x.id == "table_width" and isinstance(x.ctx, ast.Load) for x in ast.walk(src)):
            reads[nd.id] = nd
    if not wdefs or not recompute or not reads:
        raise AnalysisError("Table._calculate_column_widths: `widths` / `table_width = sum(widths)` / reads of table_width not found in the expected roles")
    n = 0
    for d in sorted(wdefs):
        r = g.reach([d], avoid=(recompute | wdefs) - {d})
        stale = [reads[x] for x in r if x in reads and x != d]
        n += 1
        dn = g.nodes[d]
        ctx.check(not stale, f.fq, short(dn.stmt), f"{m.relpath}:{dn.lineno}", "every read of table_width after this definition of widths sees a recomputed sum",
                  f"after `{short(dn.stmt)}` the total `table_width` is read at line {stale[0].lineno if stale else 0} (`{short(stale[0].stmt if stale and stale[0].kind == 'stmt' else stale[0].expr) if stale else ''}`) without `table_width = sum(widths)` in between: the decision uses the width of the columns BEFORE they were re-measured - an expanding table with ratio columns that overshoot stays at its content width",
                  g.describe_path(g.path(d, {stale[0].id}, avoid=(recompute | wdefs) - {d}) or []) if stale else None)
    ctx.floor(n, 3, "definitions of widths in _calculate_column_widths")


def r7_15(ctx, rule_id="R7.15", suffix=""):
    ctx.rule(rule_id, "every width vector is put to the budget test: in Table._calculate_column_widths each definition or element store of `widths` that is not itself inside the reduction stage reaches a `return` only through the test that compares the total with max_width (`table_width > max_width`) - ratio_distribute with per-column minimums can hand out more than it was given, and columns enter at their natural width, so a path that returns before the test hands _render a table wider than the console" + suffix)
    from ..yieldpaths import canon_test
    f = ctx.repo.fn("table:Table._calculate_column_widths")
    m = f.module
    g = cfgmod.build(f.node)
    mw = f.params[2] if len(f.params) > 2 else "max_width"
    tests = set()
    for nd in g.nodes:
        if nd.id in g.reachable and nd.kind == "test" and nd.expr is not None:
            for a, tv in canon_test(nd.expr, True):
                t = a.replace(" ", "")
                if t in (f"table_width>{mw}", f"sum(widths)>{mw}", f"{mw}<table_width", f"{mw}<sum(widths)") or (tv is False and t in (f"table_width<={mw}", f"sum(widths)<={mw}")):
                    tests.add(nd.id)
            if not tests or nd.id not in tests:
                for a, tv in canon_test(nd.expr, False):
                    t = a.replace(" ", "")
                    if t in (f"table_width<={mw}", f"sum(widths)<={mw}", f"{mw}>=table_width"):
                        tests.add(nd.id)
    if not tests:
        raise AnalysisError("Table._calculate_column_widths: no test of the total against max_width found; the reduction stage is written in a form this rule does not read")
    dom = g.dominators()
    rets = {nd.id for nd in g.nodes if nd.id in g.reachable and nd.kind == "stmt" and isinstance(nd.stmt, ast.Return) and nd.stmt.value is not None and not (isinstance(nd.stmt.value, ast.List) and not nd.stmt.value.elts)}
    n = 0
    for nd in g.nodes:
        if nd.id not in g.reachable or nd.kind != "stmt" or not isinstance(nd.stmt, (ast.Assign, ast.AugAssign, ast.AnnAssign)):
            continue
        tgts = nd.stmt.targets if isinstance(nd.stmt, ast.Assign) else [nd.stmt.target]
        if not any(isinstance((t.value if isinstance(t, ast.Subscript) else t), ast.Name) and (t.value if isinstance(t, ast.Subscript) else t).id == "widths" for t in tgts):
            continue
        if dom.get(nd.id, set()) & tests:
            continue  # inside / after the reduction stage (the final padding target is R7.8's subject)
        n += 1
        w = g.must_pass(nd.id, tests, rets)
        ctx.check(w is None, f.fq, short(nd.stmt), f"{m.relpath}:{nd.lineno}", "these widths reach a return only through the budget test",
                  f"after `{short(nd.stmt)}` a path returns the widths without comparing their total with {mw}: the collapse / reduce stage is skipped and the table is rendered wider than the width it was given (Table(expand=True) with ratio columns 10:1 at width 30, or any fixed column holding text wider than the console)",
                  g.describe_path(w) if w else None)
    ctx.floor(n, 1, "definitions of widths before the budget test")


def r7_16(ctx):
    ctx.rule("R7.16", "a share is never below its slot's minimum: in ratio_distribute every value appended to the result on a path with ratio left (`total_ratio > 0`) is max(minimum, <share>), the minimum itself, or a share the path has compared and found not below the minimum. The caller passes `width + padding` of each flexible column as minimum; a share below it leaves a column with no room for its content while the shares still sum to the total, so nothing downstream repairs it and the column's text vanishes")
    from ..yieldpaths import Enumerator, Unsupported, resolve, canon_test
    f = ctx.repo.fn("_ratio:ratio_distribute")
    m = f.module
    def zip_loops(fn_):
        return [x for x in walk_local(fn_.node) if isinstance(x, ast.For) and isinstance(x.target, ast.Tuple) and len(x.target.elts) == 2 and isinstance(x.iter, ast.Call) and norm(x.iter.func) == "zip"]
    host = f
    loops = zip_loops(f)
    if not loops:
        # the accumulation moved into a generator the function drains (`return list(_iter_distributed(..))`)
        for c in walk_local(f.node):
            if isinstance(c, ast.Call) and isinstance(c.func, ast.Name) and c.func.id in m.functions and m.functions[c.func.id] is not f and zip_loops(m.functions[c.func.id]):
                host = m.functions[c.func.id]
                loops = zip_loops(host)
    if len(loops) != 1:
        raise AnalysisError("ratio_distribute: the loop over zip(ratios, minimums) was not found")
    lp = loops[0]
    mn = norm(lp.target.elts[1])
    try:
        bodies = Enumerator(host.node).block(lp.body)
    except Unsupported as u:
        raise AnalysisError(f"ratio_distribute: {u}")
    n = 0
    for ev, _t in bodies:
        ev = list(resolve(tuple(ev)))
        facts = {}
        for e in ev:
            if e[0] == "cond":
                for a, v in canon_test(ast.parse(e[1], mode="eval").body, e[2]):
                    facts[a.replace(" ", "")] = v
        if facts.get("total_ratio>0") is not True and facts.get("total_ratio<=0") is not False:
            continue
        for e in ev:
            if e[0] == "yield" and host is not f:
                v = ast.parse(e[1], mode="eval").body
            elif e[0] == "do" and ".append(" in e[1]:
                c = ast.parse(e[1], mode="eval").body
                if not (isinstance(c, ast.Call) and len(c.args) == 1):
                    continue
                v = c.args[0]
            else:
                continue
            n += 1
            vt = norm(v).replace(" ", "")
            ok = (isinstance(v, ast.Call) and norm(v.func) == "max" and any(norm(a) == mn for a in v.args)) or norm(v) == mn
            ok = ok or facts.get(f"{vt}<{mn}") is False or facts.get(f"{vt}>={mn}") is True or facts.get(f"{mn}>{vt}") is False or facts.get(f"{mn}<={vt}") is True
            conds = " & ".join(f"{'' if tv else 'not '}{a}" for a, tv in facts.items())
            ctx.check(ok, f.fq, f"append({norm(v)[:70]}) [{conds[:80]}]", f"{m.relpath}:{lp.lineno}", f"the share is at least `{mn}` on path [{conds[:60]}]",
                      f"on the path [{conds}] ratio_distribute appends `{norm(v)}`, which can be smaller than the slot's `{mn}`: a flexible column whose share is below its padding + 1 gets no room for its content (Table(expand=True) with ratio columns 1:6:6 at width 28 loses the first column's text)")
    ctx.floor(n, 1, "shares appended by ratio_distribute with ratio left")


def r7_17(ctx):
    ctx.rule("R7.17", "no line of the table is empty: in Table._render a new line always closes a line that was emitted before it - walking backwards from every `yield new_line` each path meets an emission of line content (a box row, the cells of a row) before it meets another new line or the start of the function, and new lines are never emitted in bulk (`[new_line] * n`): a bare new line is a zero-width row in what must be a rectangle")
    f = ctx.repo.fn("table:Table._render")
    m = f.module
    g = cfgmod.build(f.node)
    nl_names = {"new_line"}
    for x in walk_local(f.node):
        if isinstance(x, ast.Assign) and isinstance(x.targets[0], ast.Name) and isinstance(x.value, ast.Call) and (norm(x.value.func).endswith(".line") or (norm(x.value.func) in ("Segment", "_Segment") and x.value.args and isinstance(x.value.args[0], ast.Constant) and x.value.args[0].value == "\n")):
            nl_names.add(x.targets[0].id)
    NL, CONTENT = set(), set()
    n = 0
    for nd in g.nodes:
        if nd.id not in g.reachable or nd.kind != "stmt" or not isinstance(nd.stmt, ast.Expr) or not isinstance(nd.stmt.value, (ast.Yield, ast.YieldFrom)):
            continue
        v = nd.stmt.value.value
        if isinstance(nd.stmt.value, ast.Yield) and isinstance(v, ast.Name) and v.id in nl_names:
            NL.add(nd.id)
        elif any(isinstance(y, ast.Name) and y.id in nl_names for y in ast.walk(v)) and isinstance(nd.stmt.value, ast.YieldFrom):
            n += 1
            ctx.violation(f.fq, short(nd.stmt), f"{m.relpath}:{nd.lineno}", f"`{short(nd.stmt)}` emits new lines in bulk: the lines between them are empty, zero cells wide, inside a table whose lines must all have the table's width")
        else:
            CONTENT.add(nd.id)
    if not NL:
        raise AnalysisError("Table._render: no `yield new_line` found; line ends are written in a form this rule does not read")
    # a loop over the cells of a row whose body emits content runs at least once: a row exists only if there is a column
    # (rows are zip(*column cells)), so its exit edge counts as content
    for lp in walk_local(f.node):
        if isinstance(lp, ast.For) and not (isinstance(lp.iter, ast.Call) and norm(lp.iter.func) == "range"):
            inner = {i for st in lp.body for x in ast.walk(st) if isinstance(x, ast.stmt) for i in g.nodes_of(x)}
            if inner & CONTENT and not (inner & NL):
                CONTENT |= set(g.nodes_of(lp)) - inner
    for nl in sorted(NL):
        n += 1
        nd = g.nodes[nl]
        starts = [x for x in g.pred[nl] if x not in CONTENT]
        back = g.reach(starts, avoid=CONTENT, forward=False) if starts else set()
        bad = [x for x in back if x in NL or x == g.entry]
        ctx.check(not bad, f.fq, short(nd.stmt), f"{m.relpath}:{nd.lineno}", "this new line closes a line with content",
                  f"`{short(nd.stmt)}` at line {nd.lineno} can follow {'another new line (line ' + str(g.nodes[bad[0]].lineno) + ')' if bad and bad[0] != g.entry else 'the start of the table'} with no content in between: an empty line in the table body")
    ctx.floor(n, 3, "line ends in Table._render")


def r7_10(ctx):
    from .common import memo_rule
    memo_rule(ctx, "R7.10", ["table", "_ratio", "box"], 0)


def r7_11(ctx):
    ctx.rule("R7.11", "content widths vs padded widths: the measurement Table._measure_column returns includes the cell padding (cells are measured inside their Padding), while column.width / min_width / max_width are widths of the CONTENT; wherever one of them enters the measurement (Measurement(..), .clamp(..), min / max with it) it is `column.<w> + padding_width` with padding_width = self._get_padding_width(column._index) - a cap applied without the padding leaves no room for the content (max_width <= padding renders the column empty)")
    from ..astutil import inline as _inl, single_defs as _sdf
    f = ctx.repo.fn("table:Table._measure_column")
    m = f.module
    colp = f.params[2]
    sd = _sdf(f.node)
    n = 0
    for x in walk_local(f.node):
        if not (isinstance(x, ast.Attribute) and isinstance(x.value, ast.Name) and x.value.id == colp and x.attr in ("width", "min_width", "max_width") and isinstance(x.ctx, ast.Load)):
            continue
        par = m.parent_of.get(x)
        # tests of presence:  column.w is None / is not None / truthiness in a condition
        if isinstance(par, ast.Compare) and all(isinstance(o, (ast.Is, ast.IsNot)) for o in par.ops):
            continue
        if isinstance(par, (ast.If, ast.IfExp, ast.While)) and par.test is x:
            continue
        n += 1
        where = f"{m.relpath}:{x.lineno}"
        ok = False
        if isinstance(par, ast.BinOp) and isinstance(par.op, ast.Add):
            other = par.right if par.left is x else par.left
            ok = norm(_inl(other, sd)) == f"self._get_padding_width({colp}._index)"
        if not ok and isinstance(par, ast.Assign) and par.value is x and len(par.targets) == 1 and isinstance(par.targets[0], ast.Name):
            # copied into a local that gets the padding added (under its not-None test) before it is used
            loc = par.targets[0].id
            augs = [a for a in walk_local(f.node) if isinstance(a, ast.AugAssign) and isinstance(a.op, ast.Add) and isinstance(a.target, ast.Name) and a.target.id == loc and norm(_inl(a.value, sd)) == f"self._get_padding_width({colp}._index)"]
            others = [a for a in walk_local(f.node) if isinstance(a, (ast.Assign, ast.AugAssign)) and a is not par and a not in augs and any(isinstance(t, ast.Name) and t.id == loc for t in (a.targets if isinstance(a, ast.Assign) else [a.target]))]
            if len(augs) == 1 and not others:
                g711 = cfgmod.build(f.node)
                uses = [u for u in walk_local(f.node) if isinstance(u, ast.Name) and u.id == loc and isinstance(u.ctx, ast.Load) and not isinstance(m.parent_of.get(u), ast.Compare)]
                aug_nodes = set(g711.nodes_of(augs[0]))

                def stmt_of_(u):
                    while not isinstance(u, ast.stmt):
                        u = m.parent_of[u]
                    return u
                facts_ok = True
                for u in uses:
                    su = stmt_of_(u)
                    if su is augs[0]:
                        continue
                    # reachable from the copy without the += only when the value is None (the not-None branch always adds)
                    r_ = g711.reach(g711.nodes_of(par), avoid=aug_nodes)
                    if set(g711.nodes_of(su)) & r_:
                        fa = {(norm(t0), v0) for t0, v0 in g711.branch_facts(g711.nodes_of(augs[0])[0])}
                        if not ({(f"{loc} is not None", True), (f"{loc} is None", False)} & fa):
                            facts_ok = False
                ok = facts_ok
        ctx.check(ok, f.fq, short(par if isinstance(par, ast.AST) else x), where, f"`{norm(x)}` enters the measurement with the padding added",
                  f"`{norm(x)}` is used as a padded width in `{short(par) if par is not None else norm(x)}`: the column's configured width is the width of its content, the measurement includes the padding - a column with max_width=1 and the default padding is rendered with no room for its content and every character of the cell disappears")
    ctx.floor(n, 3, "uses of column.width / min_width / max_width in _measure_column")


def r7_12(ctx):
    from .c13 import r13_7
    from .common import borrow
    borrow(ctx, r13_7, "R13.7", "R7.12", " [every line of a row has the column's width only if cells are cropped / padded in cells]")


def r7_13(ctx):
    from .c13 import r13_9
    from .common import borrow
    borrow(ctx, r13_9, "R13.9", "R7.13", " [a folded cell shows every character: the pieces chop_cells returns concatenate to the word]")


def r7_14(ctx):
    from .c13 import r13_6
    from .common import borrow
    borrow(ctx, r13_6, "R13.6", "R7.14", " [the folding of a cell depends on the position in the line: caches of the cell helpers must cover every argument]")


def r7_18(ctx):
    from .c05 import r5_8
    from .common import borrow
    borrow(ctx, r5_8, "R5.8", "R7.18", " [every character of a folded cell stays in its column: cell lines are justified by Lines.justify and cut by truncate / set_length in cells - padding computed from a character count over-pads a line of double-width characters, and the final truncate drops its last characters]")


def r7_19(ctx):
    ctx.rule("R7.19", "every width vector is put to the expand test: in Table._calculate_column_widths each definition or element store of `widths` outside the final padding block reaches a `return` only through the test that pads the columns out (`table_width < max_width and self.expand`, or the min_width clause) - the collapse stage re-measures the columns and a column can come back narrower than it was reduced to, so a path that skips the padding after a collapse leaves an expand=True table narrower than the width it was asked to fill")
    from ..yieldpaths import canon_test
    f = ctx.repo.fn("table:Table._calculate_column_widths")
    m = f.module
    g = cfgmod.build(f.node)
    mw = f.params[2] if len(f.params) > 2 else "max_width"
    tests = set()
    # the padding stage: the statement that distributes the missing cells over the columns (ratio_distribute(.., widths)); the test
    # that decides it is the innermost `if` around it - whatever temporaries the condition is computed through
    pads = [c for c in walk_local(f.node) if isinstance(c, ast.Call) and norm(c.func).endswith("ratio_distribute") and len(c.args) >= 2 and norm(c.args[1]) == "widths"]
    for c in pads:
        cur = m.parent_of.get(c)
        prev = c
        while cur is not None and cur is not f.node:
            if isinstance(cur, ast.If) and any(prev is b_ or prev in list(ast.walk(b_)) for b_ in cur.body):
                for nd in g.nodes:
                    if nd.id in g.reachable and nd.kind == "test" and nd.stmt is cur:
                        tests.add(nd.id)
                break
            prev = cur
            cur = m.parent_of.get(cur)
    if not tests:
        for nd in g.nodes:
            if nd.id in g.reachable and nd.kind == "test" and nd.expr is not None:
                txt = norm(nd.expr).replace(" ", "")
                if "self.expand" in txt and (f"table_width<{mw}" in txt or f"sum(widths)<{mw}" in txt or f"{mw}>table_width" in txt):
                    tests.add(nd.id)
    if not tests:
        raise AnalysisError("Table._calculate_column_widths: no test `table_width < max_width and self.expand` found; the padding stage is written in a form this rule does not read")
    dom = g.dominators()
    rets = {nd.id for nd in g.nodes if nd.id in g.reachable and nd.kind == "stmt" and isinstance(nd.stmt, ast.Return) and nd.stmt.value is not None and not (isinstance(nd.stmt.value, ast.List) and not nd.stmt.value.elts)}
    n = 0
    for nd in g.nodes:
        if nd.id not in g.reachable or nd.kind != "stmt" or not isinstance(nd.stmt, (ast.Assign, ast.AugAssign, ast.AnnAssign)):
            continue
        tgts = nd.stmt.targets if isinstance(nd.stmt, ast.Assign) else [nd.stmt.target]
        if not any(isinstance((t.value if isinstance(t, ast.Subscript) else t), ast.Name) and (t.value if isinstance(t, ast.Subscript) else t).id == "widths" for t in tgts):
            continue
        if dom.get(nd.id, set()) & tests:
            continue  # the padding block itself
        n += 1
        w = g.must_pass(nd.id, tests, rets)
        ctx.check(w is None, f.fq, short(nd.stmt), f"{m.relpath}:{nd.lineno}", "these widths reach a return only through the expand / min_width test",
                  f"after `{short(nd.stmt)}` a path returns the widths without the test that pads an expanding table out to {mw}: when the collapse stage leaves the columns narrower than the available width (ratio columns 10:1:1 at width 15-19) the table stays short of the width it was asked to fill",
                  g.describe_path(w) if w else None)
    ctx.floor(n, 2, "definitions of widths before the padding test")


def r7_20(ctx):
    ctx.rule("R7.20", "every column has one cell per row (sibling agreement between the two ways a column comes into being): the cells of row k are the k-th entries of each column's cell list and _render zips the columns, so a Column appended to Table.columns while rows exist must first be given one blank cell per existing row - add_row does so for the columns it creates implicitly, add_column must too; otherwise zip() cuts every row at the shortest column (rows added before vanish) and later cells pair with the wrong row")
    c = ctx.repo.cls("table:Table")
    m = c.module
    n = 0
    for name, lst in c.methods.items():
        for f in lst:
            apps = [x for x in walk_local(f.node) if isinstance(x, ast.Call) and norm(x.func) == "self.columns.append" and len(x.args) == 1 and isinstance(x.args[0], ast.Name)]
            if not apps:
                continue
            al = alias_map(f.node)
            nested = {q.node.name: q for k, q in m.functions.items() if k.startswith(f.qualname + ".<locals>.")}
            g = cfgmod.build(f.node)
            for x in apps:
                n += 1
                col = x.args[0].id
                st = x
                while not isinstance(st, ast.stmt):
                    st = m.parent_of[st]
                # loops over self.rows whose body adds a cell to `col`
                fills = set()
                for lp in walk_local(f.node):
                    if isinstance(lp, ast.For) and norm(lp.iter) == "self.rows":
                        for y in ast.walk(lp):
                            if isinstance(y, ast.Call):
                                fn_ = norm(expand_alias(y.func, al)) if isinstance(y.func, ast.Name) else norm(y.func)
                                direct = fn_ in (f"{col}._cells.append",)
                                via = isinstance(y.func, ast.Name) and y.func.id in nested and y.args and norm(y.args[0]) == col and any(
                                    isinstance(z, ast.Call) and norm(z.func).endswith("._cells.append") for z in ast.walk(nested[y.func.id].node))
                                if direct or via:
                                    fills |= set(g.nodes_of(lp))
                    if isinstance(lp, ast.Call) and norm(lp.func) == f"{col}._cells.extend" and lp.args and any(isinstance(z, (ast.GeneratorExp, ast.ListComp)) and any(norm(g_.iter) == "self.rows" for g_ in z.generators) for z in ast.walk(lp.args[0])):
                        st2 = lp
                        while not isinstance(st2, ast.stmt):
                            st2 = m.parent_of[st2]
                        fills |= set(g.nodes_of(st2))
                    if isinstance(lp, ast.Call) and norm(lp.func) == f"{col}._cells.extend" and lp.args and isinstance(lp.args[0], ast.BinOp) and isinstance(lp.args[0].op, ast.Mult) and "len(self.rows)" in norm(lp.args[0]):
                        st2 = lp
                        while not isinstance(st2, ast.stmt):
                            st2 = m.parent_of[st2]
                        fills |= set(g.nodes_of(st2))
                creates = [nd.id for nd in g.stmt_nodes() if nd.kind == "stmt" and isinstance(nd.stmt, ast.Assign) and any(isinstance(t_, ast.Name) and t_.id == col for t_ in nd.stmt.targets)]
                tgt = set(g.nodes_of(st))
                ok = bool(fills) and bool(creates) and not any(tgt & g.reach([c_], avoid=fills) for c_ in creates)
                ctx.check(ok, f.fq, short(st), f"{m.relpath}:{x.lineno}", f"`{col}` gets one blank cell per existing row before it joins the table",
                          f"`{short(st)}` adds a column to a table that may already have rows without giving it a cell for each of them (add_row back-fills the columns it creates): Table('a'); add_row('r1'); add_row('r2'); add_column('b') renders no rows at all, and the next add_row('r3', 'x') shows `r1 | x`")
    ctx.floor(n, 2, "sites that append a Column to Table.columns")


def r7_21(ctx):
    from .c02 import r2_2
    from .common import borrow
    borrow(ctx, r2_2, "R2.2", "R7.21", " [every character of a folded cell stays in its column: the cell text is wrapped by Text.wrap, which must expand tabs BEFORE the break offsets are measured - expanded afterwards, a wrapped line grows past the column and the final truncate drops its last characters]")


RULES = [r7_1, r7_2, r7_3, r7_4, r7_5, r7_6, r7_7, r7_8, r7_9, r7_10, r7_11, r7_12, r7_13, r7_14, r7_15, r7_16, r7_17, r7_18, r7_19, r7_20, r7_21]
