"""A small path-forking abstract interpreter over the Python subset used by rich's colour code.

Domains: constants, IntEnum members, integer / float intervals, tuples, records (NamedTuple
instances with field values and an identity tag), palettes (literal tables), opaque.
Unknown branch conditions fork the path and refine interval-valued operands.
Only ever interprets the AST; never imports or executes rich.
"""
from __future__ import annotations

import ast
import math
from typing import Any, Dict, List, Optional, Tuple

from .index import AnalysisError, AnchorVanished, FuncInfo, norm

MAX_PATHS = 4000


# ---------------------------------------------------------------------------
# values
# ---------------------------------------------------------------------------
class Val:
    pass


class Const(Val):
    def __init__(self, v):
        self.v = v

    def __repr__(self):
        return f"{self.v!r}"


class EnumV(Val):
    def __init__(self, cls, name, val):
        self.cls, self.name, self.val = cls, name, val

    def __repr__(self):
        return f"{self.cls}.{self.name}"


class IntIv(Val):
    def __init__(self, lo, hi, sym: Optional[str] = None):
        self.lo, self.hi, self.sym = lo, hi, sym  # sym: identity of an unmodified source value

    def __repr__(self):
        s = f"[{self.lo},{self.hi}]" if self.lo != self.hi else f"{self.lo}"
        return s + (f"@{self.sym}" if self.sym else "")


class FloatIv(Val):
    def __init__(self, lo, hi):
        self.lo, self.hi = lo, hi

    def __repr__(self):
        return f"[{self.lo:g}..{self.hi:g}]f"


class Tup(Val):
    def __init__(self, items):
        self.items = list(items)

    def __repr__(self):
        return "(" + ", ".join(map(repr, self.items)) + ")"


class Rec(Val):
    def __init__(self, cls: str, fields: Dict[str, Val], order: List[str], ident: Optional[str] = None):
        self.cls, self.fields, self.order, self.ident = cls, fields, order, ident

    def with_field(self, k, v):
        f = dict(self.fields)
        f[k] = v
        return Rec(self.cls, f, self.order, self.ident)

    def __repr__(self):
        tag = f"<{self.ident}>" if self.ident else ""
        return f"{self.cls}{tag}(" + ", ".join(f"{k}={self.fields[k]!r}" for k in self.order if k in self.fields) + ")"


class StrOf(Val):
    """str(x) of an abstract value."""

    def __init__(self, inner: Val):
        self.inner = inner

    def __repr__(self):
        return f"str({self.inner!r})"


class PaletteV(Val):
    def __init__(self, name, n, bounds):
        self.name, self.n, self.bounds = name, n, bounds  # bounds: [(lo,hi)]*3

    def __repr__(self):
        return f"Palette<{self.name}:{self.n}>"


class Opaque(Val):
    def __init__(self, desc=""):
        self.desc = desc

    def __repr__(self):
        return f"?{self.desc}"


NONE = Const(None)


def is_none(v):
    return isinstance(v, Const) and v.v is None


def as_iv(v) -> Optional[Tuple[float, float, bool]]:
    """(lo, hi, is_int) for numeric abstract values."""
    if isinstance(v, IntIv):
        return v.lo, v.hi, True
    if isinstance(v, FloatIv):
        return v.lo, v.hi, False
    if isinstance(v, Const) and isinstance(v.v, bool):
        return int(v.v), int(v.v), True
    if isinstance(v, Const) and isinstance(v.v, int):
        return v.v, v.v, True
    if isinstance(v, Const) and isinstance(v.v, float):
        return v.v, v.v, False
    if isinstance(v, EnumV):
        return v.val, v.val, True
    return None


class Path:
    def __init__(self, env: Dict[str, Val], conds: List[str]):
        self.env = env
        self.conds = conds

    def fork(self, cond: Optional[str] = None) -> "Path":
        return Path(dict(self.env), self.conds + ([cond] if cond else []))


class Outcome:
    def __init__(self, kind: str, value: Optional[Val], path: Path, node=None):
        self.kind, self.value, self.path, self.node = kind, value, path, node  # kind: return | raise | fall

    def __repr__(self):
        return f"{self.kind} {self.value!r} if {' & '.join(self.path.conds) or 'True'}"


class Interp:
    def __init__(self, repo, module):
        self.repo = repo
        self.module = module
        self.enums: Dict[str, Dict[str, int]] = {}
        self.records: Dict[str, Tuple[List[str], Dict[str, ast.AST]]] = {}
        self.npaths = 0
        self.hazards: List[str] = []
        self.summaries: Dict[str, Any] = {}
        self._load_classes()

    # -- class tables ---------------------------------------------------
    def _load_classes(self):
        for c in self.repo.all_classes():
            bases = [b.split(".")[-1] for b in c.bases]
            if "IntEnum" in bases or "Enum" in bases:
                members = {}
                for st in c.node.body:
                    if isinstance(st, ast.Assign) and len(st.targets) == 1 and isinstance(st.targets[0], ast.Name):
                        if isinstance(st.value, ast.Constant) and isinstance(st.value.value, int):
                            members[st.targets[0].id] = st.value.value
                self.enums[c.name] = members
            if "NamedTuple" in bases:
                order, defaults = [], {}
                for st in c.node.body:
                    if isinstance(st, ast.AnnAssign) and isinstance(st.target, ast.Name):
                        order.append(st.target.id)
                        if st.value is not None:
                            defaults[st.target.id] = st.value
                self.records[c.name] = (order, defaults)

    def class_of(self, name) -> Optional[Any]:
        for c in self.repo.all_classes():
            if c.name == name:
                return c
        return None

    # -- entry ----------------------------------------------------------
    def run(self, fn: FuncInfo, args: Dict[str, Val], module=None) -> List[Outcome]:
        mod = module or fn.module
        saved = self.module
        self.module = mod
        try:
            p = Path(dict(args), [])
            outs = self.block(fn.node.body, p)
            res = []
            for o in outs:
                if o.kind == "fall":
                    res.append(Outcome("return", NONE, o.path))
                else:
                    res.append(o)
            return res
        finally:
            self.module = saved

    # -- statements -------------------------------------------------------
    def block(self, stmts, path: Path) -> List[Outcome]:
        paths = [path]
        done: List[Outcome] = []
        for st in stmts:
            nxt: List[Path] = []
            for p in paths:
                for o in self.stmt(st, p):
                    if o.kind == "fall":
                        nxt.append(o.path)
                    else:
                        done.append(o)
            paths = nxt
            self.npaths = max(self.npaths, len(paths) + len(done))
            if len(paths) + len(done) > MAX_PATHS:
                raise AnalysisError("abstract interpreter: path explosion")
            if not paths:
                break
        return done + [Outcome("fall", None, p) for p in paths]

    def stmt(self, st, path: Path) -> List[Outcome]:
        if isinstance(st, ast.Expr):
            if isinstance(st.value, ast.Constant):
                return [Outcome("fall", None, path)]
            return [Outcome("fall", None, p) for _v, p in self.eval(st.value, path)]
        if isinstance(st, ast.Return):
            if st.value is None:
                return [Outcome("return", NONE, path, st)]
            return [Outcome("return", v, p, st) for v, p in self.eval(st.value, path)]
        if isinstance(st, ast.Assign):
            outs = []
            for v, p in self.eval(st.value, path):
                p2 = p.fork()
                for t in st.targets:
                    self.assign(t, v, p2)
                outs.append(Outcome("fall", None, p2))
            return outs
        if isinstance(st, ast.AnnAssign):
            if st.value is None:
                return [Outcome("fall", None, path)]
            outs = []
            for v, p in self.eval(st.value, path):
                p2 = p.fork()
                self.assign(st.target, v, p2)
                outs.append(Outcome("fall", None, p2))
            return outs
        if isinstance(st, ast.AugAssign):
            fake = ast.BinOp(left=_load(st.target), op=st.op, right=st.value)
            ast.copy_location(fake, st)
            outs = []
            for v, p in self.eval(fake, path):
                p2 = p.fork()
                self.assign(st.target, v, p2)
                outs.append(Outcome("fall", None, p2))
            return outs
        if isinstance(st, ast.If):
            outs = []
            for truth, p in self.cond(st.test, path):
                outs += self.block(st.body if truth else st.orelse, p)
            return outs
        if isinstance(st, ast.Assert):
            outs = []
            for truth, p in self.cond(st.test, path):
                if truth:
                    outs.append(Outcome("fall", None, p))
                else:
                    outs.append(Outcome("raise", Const("AssertionError"), p, st))
            return outs
        if isinstance(st, ast.Raise):
            name = "Exception"
            if st.exc is not None:
                e = st.exc.func if isinstance(st.exc, ast.Call) else st.exc
                name = norm(e)
            return [Outcome("raise", Const(name), path, st)]
        if isinstance(st, ast.Pass):
            return [Outcome("fall", None, path)]
        if isinstance(st, (ast.Import, ast.ImportFrom, ast.FunctionDef)):
            if isinstance(st, ast.FunctionDef):
                p2 = path.fork()
                p2.env[st.name] = Opaque("localdef:" + st.name)
                return [Outcome("fall", None, p2)]
            return [Outcome("fall", None, path)]
        raise AnalysisError(f"abstract interpreter: unsupported statement {st.__class__.__name__} at line {st.lineno}")

    def assign(self, target, v: Val, p: Path):
        if isinstance(target, ast.Name):
            p.env[target.id] = v
        elif isinstance(target, (ast.Tuple, ast.List)):
            items = self.unpack(v, len(target.elts))
            for t, it in zip(target.elts, items):
                self.assign(t, it, p)
        else:
            raise AnalysisError(f"abstract interpreter: unsupported assignment target {norm(target)}")

    def unpack(self, v: Val, n: int) -> List[Val]:
        if isinstance(v, Tup) and len(v.items) == n:
            return v.items
        if isinstance(v, Rec) and len(v.order) == n:
            return [v.fields.get(k, Opaque(k)) for k in v.order]
        if isinstance(v, Opaque):
            return [Opaque(f"{v.desc}[{i}]") for i in range(n)]
        raise AnalysisError(f"abstract interpreter: cannot unpack {v!r} into {n} names")

    # -- conditions -------------------------------------------------------
    def cond(self, e, path: Path) -> List[Tuple[bool, Path]]:
        """Evaluate a condition: list of (truth, refined path)."""
        if isinstance(e, ast.BoolOp):
            if isinstance(e.op, ast.And):
                res = [(True, path)]
                for sub in e.values:
                    nxt = []
                    for t, p in res:
                        if not t:
                            nxt.append((False, p))
                        else:
                            nxt += self.cond(sub, p)
                    res = nxt
                return res
            res = [(False, path)]
            for sub in e.values:
                nxt = []
                for t, p in res:
                    if t:
                        nxt.append((True, p))
                    else:
                        nxt += self.cond(sub, p)
                res = nxt
            return res
        if isinstance(e, ast.UnaryOp) and isinstance(e.op, ast.Not):
            return [(not t, p) for t, p in self.cond(e.operand, path)]
        if isinstance(e, ast.Compare):
            if len(e.ops) == 1:
                return self.compare(e.left, e.ops[0], e.comparators[0], path, norm(e))
            # chain a < b < c  ==  a < b and b < c
            parts = []
            left = e.left
            for op, right in zip(e.ops, e.comparators):
                parts.append(ast.Compare(left=left, ops=[op], comparators=[right]))
                left = right
            return self.cond(ast.BoolOp(op=ast.And(), values=parts), path)
        out = []
        for v, p in self.eval(e, path):
            t = self.truth(v)
            if t is None:
                out.append((True, p.fork(norm(e))))
                out.append((False, p.fork("not " + norm(e))))
            else:
                out.append((t, p))
        return out

    def truth(self, v: Val) -> Optional[bool]:
        if isinstance(v, Const):
            return bool(v.v)
        if isinstance(v, EnumV):
            return bool(v.val)
        if isinstance(v, (IntIv, FloatIv)):
            if v.lo > 0 or v.hi < 0:
                return True
            if v.lo == 0 and v.hi == 0:
                return False
            return None
        if isinstance(v, (Rec, Tup)):
            return True if not isinstance(v, Tup) or v.items else False
        if isinstance(v, StrOf):
            return True
        return None

    def compare(self, le, op, re_, path: Path, text: str) -> List[Tuple[bool, Path]]:
        out = []
        for lv, p1 in self.eval(le, path):
            for rv, p2 in self.eval(re_, p1):
                out += self._cmp(le, lv, op, re_, rv, p2, text)
        return out

    def _cmp(self, le, lv, op, re_, rv, p: Path, text: str):
        if isinstance(op, (ast.Is, ast.IsNot)):
            neg = isinstance(op, ast.IsNot)
            if is_none(rv) or is_none(lv):
                other = lv if is_none(rv) else rv
                if is_none(other):
                    return [(not neg, p)]
                if isinstance(other, Opaque):
                    return [(True, p.fork(text)), (False, p.fork("not (" + text + ")"))]
                return [(neg, p)]
            return [(True, p.fork(text)), (False, p.fork("not (" + text + ")"))]
        if isinstance(op, (ast.In, ast.NotIn)):
            neg = isinstance(op, ast.NotIn)
            if isinstance(rv, Tup):
                res = []
                any_unknown = False
                for it in rv.items:
                    r = self._eq(lv, it)
                    if r is True:
                        return [(not neg, p)]
                    if r is None:
                        any_unknown = True
                if not any_unknown:
                    return [(neg, p)]
            return [(True, p.fork(text)), (False, p.fork("not (" + text + ")"))]
        if isinstance(op, (ast.Eq, ast.NotEq)):
            r = self._eq(lv, rv)
            neg = isinstance(op, ast.NotEq)
            if r is not None:
                return [(r != neg, p)]
            # refine intervals on equality with a constant
            a, b = as_iv(lv), as_iv(rv)
            if a and b and a[2] and b[2]:
                outs = []
                for (expr, iv, c) in ((le, lv, b), (re_, rv, a)):
                    if c[0] == c[1] and isinstance(iv, IntIv):
                        k = c[0]
                        pt = p.fork(text if not neg else "not (" + text + ")")
                        self.refine(expr, IntIv(k, k, iv.sym), pt)
                        pf = p.fork(("not (" + text + ")") if not neg else text)
                        if k == iv.lo:
                            self.refine(expr, IntIv(iv.lo + 1, iv.hi, iv.sym), pf)
                        elif k == iv.hi:
                            self.refine(expr, IntIv(iv.lo, iv.hi - 1, iv.sym), pf)
                        return [(not neg, pt), (neg, pf)]
            return [(True, p.fork(text)), (False, p.fork("not (" + text + ")"))]
        # ordering
        a, b = as_iv(lv), as_iv(rv)
        # an unknown number compared with a numeric constant: treat it as the full float interval so the branches refine it
        # (NaN compares false with everything; a NaN value therefore only ever travels along "false" branches, where the
        # refined interval is not used to justify returning the value itself unless a later "true" comparison holds)
        inf = float("inf")
        if a is None and isinstance(lv, Opaque) and b is not None and b[0] == b[1]:
            lv = FloatIv(-inf, inf)
            a = as_iv(lv)
        if b is None and isinstance(rv, Opaque) and a is not None and a[0] == a[1]:
            rv = FloatIv(-inf, inf)
            b = as_iv(rv)
        if a is None or b is None:
            return [(True, p.fork(text)), (False, p.fork("not (" + text + ")"))]
        strict = isinstance(op, (ast.Lt, ast.Gt))
        swap = isinstance(op, (ast.Gt, ast.GtE))
        if swap:
            a, b = b, a
            le, re_, lv, rv = re_, le, rv, lv
        # now a (<|<=) b
        if strict:
            if a[1] < b[0]:
                return [(True, p)]
            if a[0] >= b[1]:
                return [(False, p)]
        else:
            if a[1] <= b[0]:
                return [(True, p)]
            if a[0] > b[1]:
                return [(False, p)]
        pt, pf = p.fork(text), p.fork("not (" + text + ")")
        # refine whichever side is an interval against a point on the other side
        if b[0] == b[1]:
            k = b[0]
            if isinstance(lv, IntIv):
                self.refine(le, IntIv(lv.lo, min(lv.hi, k - 1 if strict else k), lv.sym), pt)
                self.refine(le, IntIv(max(lv.lo, k if strict else k + 1), lv.hi, lv.sym), pf)
            elif isinstance(lv, FloatIv):
                self.refine(le, FloatIv(lv.lo, min(lv.hi, k)), pt)
                self.refine(le, FloatIv(max(lv.lo, k), lv.hi), pf)
        elif a[0] == a[1]:
            k = a[0]
            if isinstance(rv, IntIv):
                self.refine(re_, IntIv(max(rv.lo, k + 1 if strict else k), rv.hi, rv.sym), pt)
                self.refine(re_, IntIv(rv.lo, min(rv.hi, k if strict else k - 1), rv.sym), pf)
            elif isinstance(rv, FloatIv):
                self.refine(re_, FloatIv(max(rv.lo, k), rv.hi), pt)
                self.refine(re_, FloatIv(rv.lo, min(rv.hi, k)), pf)
        return [(True, pt), (False, pf)]

    def _eq(self, a: Val, b: Val) -> Optional[bool]:
        if isinstance(a, Const) and isinstance(b, Const):
            return a.v == b.v
        x, y = as_iv(a), as_iv(b)
        if x and y:
            if x[0] == x[1] == y[0] == y[1]:
                return True
            if x[1] < y[0] or y[1] < x[0]:
                return False
            return None
        if is_none(a) or is_none(b):
            other = b if is_none(a) else a
            if isinstance(other, Opaque):
                return None
            return is_none(other)
        if isinstance(a, Const) and isinstance(a.v, str) and isinstance(b, (IntIv, EnumV, Rec, Tup)):
            return False
        if isinstance(b, Const) and isinstance(b.v, str) and isinstance(a, (IntIv, EnumV, Rec, Tup)):
            return False
        return None

    def refine(self, expr, newv: Val, p: Path):
        """Narrow the value denoted by `expr` (Name or attribute chain rooted at a Name)."""
        if isinstance(expr, ast.Name):
            if expr.id in p.env:
                p.env[expr.id] = newv
            return
        if isinstance(expr, ast.Attribute):
            chain = []
            cur = expr
            while isinstance(cur, ast.Attribute):
                chain.append(cur.attr)
                cur = cur.value
            if not isinstance(cur, ast.Name) or cur.id not in p.env:
                return
            chain.reverse()

            def upd(obj, names):
                if not isinstance(obj, Rec) or names[0] not in obj.fields:
                    return None
                if len(names) == 1:
                    return obj.with_field(names[0], newv)
                inner = upd(obj.fields[names[0]], names[1:])
                return obj.with_field(names[0], inner) if inner is not None else None

            new = upd(p.env[cur.id], chain)
            if new is not None:
                p.env[cur.id] = new

    # -- expressions ------------------------------------------------------
    def eval(self, e, path: Path) -> List[Tuple[Val, Path]]:
        if isinstance(e, ast.Constant):
            v = e.value
            if isinstance(v, bool) or v is None or isinstance(v, (str, float)):
                return [(Const(v), path)]
            if isinstance(v, int):
                return [(IntIv(v, v), path)]
            return [(Const(v), path)]
        if isinstance(e, ast.Name):
            if e.id in path.env:
                return [(path.env[e.id], path)]
            return [(self.global_name(e.id), path)]
        if isinstance(e, ast.Attribute):
            out = []
            for base, p in self.eval(e.value, path):
                out += self.getattr(base, e.attr, p, e)
            return out
        if isinstance(e, ast.Tuple):
            res = [([], path)]
            for el in e.elts:
                nxt = []
                for items, p in res:
                    if isinstance(el, ast.Starred):
                        for v, p2 in self.eval(el.value, p):
                            if isinstance(v, Tup):
                                nxt.append((items + v.items, p2))
                            elif isinstance(v, Rec):
                                nxt.append((items + [v.fields[k] for k in v.order], p2))
                            else:
                                raise AnalysisError(f"cannot expand starred {v!r}")
                    else:
                        for v, p2 in self.eval(el, p):
                            nxt.append((items + [v], p2))
                res = nxt
            return [(Tup(items), p) for items, p in res]
        if isinstance(e, ast.IfExp):
            out = []
            for t, p in self.cond(e.test, path):
                out += self.eval(e.body if t else e.orelse, p)
            return out
        if isinstance(e, ast.BinOp):
            out = []
            for a, p1 in self.eval(e.left, path):
                for b, p2 in self.eval(e.right, p1):
                    out.append((self.binop(a, e.op, b, e), p2))
            return out
        if isinstance(e, ast.UnaryOp):
            out = []
            for a, p in self.eval(e.operand, path):
                if isinstance(e.op, ast.USub):
                    iv = as_iv(a)
                    if iv:
                        out.append(((IntIv(-iv[1], -iv[0]) if iv[2] else FloatIv(-iv[1], -iv[0])), p))
                        continue
                if isinstance(e.op, ast.Not):
                    t = self.truth(a)
                    out.append((Const(not t) if t is not None else Opaque("not"), p))
                    continue
                out.append((Opaque(norm(e)), p))
            return out
        if isinstance(e, ast.Compare) or isinstance(e, ast.BoolOp):
            if isinstance(e, ast.BoolOp):
                # value semantics of and/or: fork on truth of each operand
                return self._boolop_value(e, path)
            return [(Const(t), p) for t, p in self.cond(e, path)]
        if isinstance(e, ast.Subscript):
            out = []
            for base, p1 in self.eval(e.value, path):
                if isinstance(e.slice, ast.Slice):
                    out.append((Opaque(norm(e)), p1))
                    continue
                for idx, p2 in self.eval(e.slice, p1):
                    out.append((self.subscript(base, idx, e), p2))
            return out
        if isinstance(e, ast.Call):
            return self.call(e, path)
        if isinstance(e, ast.JoinedStr):
            return [(Opaque("fstring"), path)]
        if isinstance(e, ast.ListComp) and len(e.generators) == 1 and not e.generators[0].ifs and isinstance(e.generators[0].iter, (ast.Tuple, ast.List)) and isinstance(e.generators[0].target, ast.Name) and len(e.generators[0].iter.elts) <= 8:
            # [f(x) for x in (a, b, c)]  ==  (f(a), f(b), f(c))
            tname = e.generators[0].target.id
            res = [([], path)]
            for el in e.generators[0].iter.elts:
                nxt = []
                for items, p in res:
                    for xv, p2 in self.eval(el, p):
                        p3 = p2.fork()
                        saved = p3.env.get(tname, None)
                        p3.env[tname] = xv
                        for v, p4 in self.eval(e.elt, p3):
                            if saved is None:
                                p4.env.pop(tname, None)
                            else:
                                p4.env[tname] = saved
                            nxt.append((items + [v], p4))
                res = nxt
            return [(Tup(items), p) for items, p in res]
        if isinstance(e, (ast.GeneratorExp, ast.ListComp, ast.Lambda, ast.List, ast.Dict, ast.Set)):
            return [(Opaque(e.__class__.__name__), path)]
        raise AnalysisError(f"abstract interpreter: unsupported expression {e.__class__.__name__}: {norm(e)}")

    def _boolop_value(self, e: ast.BoolOp, path: Path):
        is_or = isinstance(e.op, ast.Or)
        res: List[Tuple[Val, Path]] = []
        pending = [path]
        for i, sub in enumerate(e.values):
            last = i == len(e.values) - 1
            nxt = []
            for p in pending:
                for v, p2 in self.eval(sub, p):
                    if last:
                        res.append((v, p2))
                        continue
                    t = self.truth(v)
                    if t is None:
                        res.append((v, p2.fork(("" if is_or else "not ") + norm(sub))))
                        nxt.append(p2.fork(("not " if is_or else "") + norm(sub)))
                    elif t == is_or:
                        res.append((v, p2))
                    else:
                        nxt.append(p2)
            pending = nxt
        return res

    def binop(self, a: Val, op, b: Val, node) -> Val:
        x, y = as_iv(a), as_iv(b)
        if x and y:
            isint = x[2] and y[2]
            if isinstance(op, ast.Add):
                lo, hi = x[0] + y[0], x[1] + y[1]
            elif isinstance(op, ast.Sub):
                lo, hi = x[0] - y[1], x[1] - y[0]
            elif isinstance(op, ast.Mult):
                c = [x[0] * y[0], x[0] * y[1], x[1] * y[0], x[1] * y[1]]
                lo, hi = min(c), max(c)
            elif isinstance(op, ast.Div):
                if y[0] <= 0 <= y[1]:
                    self.hazards.append(f"possible division by zero at line {node.lineno}: {norm(node)}")
                    return Opaque("div")
                c = [x[0] / y[0], x[0] / y[1], x[1] / y[0], x[1] / y[1]]
                return FloatIv(min(c), max(c))
            elif isinstance(op, ast.FloorDiv):
                if y[0] <= 0 <= y[1]:
                    self.hazards.append(f"possible division by zero at line {node.lineno}: {norm(node)}")
                    return Opaque("div")
                c = [x[0] // y[0], x[0] // y[1], x[1] // y[0], x[1] // y[1]]
                lo, hi = min(c), max(c)
            elif isinstance(op, ast.Mod) and y[0] == y[1] and y[0] > 0 and isint:
                if x[0] >= 0 and x[1] < y[0]:
                    lo, hi = x[0], x[1]
                else:
                    lo, hi = 0, y[0] - 1
            elif isinstance(op, ast.RShift) and isint and y[0] == y[1] and y[0] >= 0:
                lo, hi = x[0] >> y[0], x[1] >> y[0]
            elif isinstance(op, ast.LShift) and isint and y[0] == y[1] and y[0] >= 0:
                lo, hi = x[0] << y[0], x[1] << y[0]
            elif isinstance(op, ast.Pow) and y[0] == y[1] == 2:
                c = [x[0] * x[0], x[1] * x[1]]
                lo, hi = (0 if x[0] <= 0 <= x[1] else min(c)), max(c)
            else:
                return Opaque(norm(node))
            return IntIv(lo, hi) if isint else FloatIv(lo, hi)
        if isinstance(a, Const) and isinstance(b, Const) and isinstance(a.v, str) and isinstance(b.v, str) and isinstance(op, ast.Add):
            return Const(a.v + b.v)
        return Opaque(norm(node))

    def subscript(self, base: Val, idx: Val, node) -> Val:
        if isinstance(base, PaletteV):
            iv = as_iv(idx)
            if iv is None or iv[0] < 0 or iv[1] > base.n - 1:
                self.hazards.append(f"palette {base.name} (size {base.n}) indexed with {idx!r} at line {node.lineno}: may be out of range")
            order, _ = self.records.get("ColorTriplet", (["red", "green", "blue"], {}))
            return Rec("ColorTriplet", {k: IntIv(lo, hi) for k, (lo, hi) in zip(order, base.bounds)}, order)
        if isinstance(base, Tup):
            iv = as_iv(idx)
            if iv and iv[0] == iv[1] and -len(base.items) <= iv[0] < len(base.items):
                return base.items[int(iv[0])]
        if isinstance(base, Rec):
            iv = as_iv(idx)
            if iv and iv[0] == iv[1] and 0 <= iv[0] < len(base.order):
                return base.fields[base.order[int(iv[0])]]
        return Opaque(norm(node))

    def global_name(self, name: str) -> Val:
        if name in self.enums:
            return Opaque("enumclass:" + name)
        if name in self.records:
            return Opaque("recclass:" + name)
        if name in ("True", "False"):
            return Const(name == "True")
        # module-level constants / imported palettes
        mod = self.module
        target_mod, target_name = mod, name
        imp = mod.imports.get(name)
        if imp and imp[0].startswith("rich") and imp[1]:
            tm = self.repo.modules.get(imp[0])
            if tm is not None:
                target_mod, target_name = tm, imp[1]
        try:
            node = target_mod.global_assign(target_name)
        except AnchorVanished:
            return Opaque("global:" + name)
        if isinstance(node, ast.Call) and norm(node.func) == "Palette" and node.args:
            try:
                colors = ast.literal_eval(node.args[0])
            except Exception:
                return Opaque("palette:" + name)
            bounds = [(min(c[i] for c in colors), max(c[i] for c in colors)) for i in range(3)]
            return PaletteV(target_name, len(colors), bounds)
        if isinstance(node, ast.Constant):
            v = node.value
            if isinstance(v, int) and not isinstance(v, bool):
                return IntIv(v, v)
            return Const(v)
        return Opaque("global:" + name)

    def getattr(self, base: Val, attr: str, p: Path, node) -> List[Tuple[Val, Path]]:
        if isinstance(base, Opaque) and base.desc.startswith("enumclass:"):
            cls = base.desc.split(":", 1)[1]
            if attr in self.enums[cls]:
                return [(EnumV(cls, attr, self.enums[cls][attr]), p)]
            raise AnalysisError(f"enum {cls} has no member {attr}")
        if isinstance(base, Rec):
            if attr in base.fields:
                return [(base.fields[attr], p)]
            c = self.class_of(base.cls)
            if c is not None:
                m = c.method(attr)
                if m is not None and m.is_property:
                    outs = self.run(m, {"self": base}, c.module)
                    res = []
                    for o in outs:
                        if o.kind == "return":
                            res.append((o.value, Path(p.env, p.conds + o.path.conds)))
                        # a raising property path is dropped as infeasible only for asserts
                    return res
                if m is not None:
                    return [(Opaque(f"boundmethod:{base.cls}.{attr}"), p)]
            return [(Opaque(f"{base.cls}.{attr}"), p)]
        if isinstance(base, EnumV) and attr in ("value",):
            return [(IntIv(base.val, base.val), p)]
        if isinstance(base, EnumV) and attr == "name":
            return [(Const(base.name), p)]
        if isinstance(base, PaletteV):
            return [(Opaque(f"palettemethod:{attr}:{base.name}"), p)]
        return [(Opaque(norm(node)), p)]

    def call(self, e: ast.Call, path: Path) -> List[Tuple[Val, Path]]:
        # evaluate callee
        fname = norm(e.func)
        # evaluate args (with forking)
        def eval_args(p):
            res = [([], {}, p)]
            for a in e.args:
                nxt = []
                for pos, kw, pp in res:
                    if isinstance(a, ast.Starred):
                        for v, p2 in self.eval(a.value, pp):
                            if isinstance(v, Tup):
                                nxt.append((pos + v.items, kw, p2))
                            elif isinstance(v, Rec):
                                nxt.append((pos + [v.fields[k] for k in v.order], kw, p2))
                            else:
                                nxt.append((pos + [Opaque("*" + norm(a.value))], kw, p2))
                    else:
                        for v, p2 in self.eval(a, pp):
                            nxt.append((pos + [v], kw, p2))
                res = nxt
            for k in e.keywords:
                nxt = []
                for pos, kw, pp in res:
                    for v, p2 in self.eval(k.value, pp):
                        kw2 = dict(kw)
                        kw2[k.arg] = v
                        nxt.append((pos, kw2, p2))
                res = nxt
            return res

        out = []
        hooks = getattr(self, "call_hooks", {})
        if fname in hooks:
            for pos, kw, p in eval_args(path):
                out.append((hooks[fname](pos, kw), p))
            return out
        # <module constant dict of ints>.get(k, default): some value of the table, or the default
        if isinstance(e.func, ast.Attribute) and e.func.attr == "get" and isinstance(e.func.value, ast.Name) and e.func.value.id not in path.env and len(e.args) == 2 and not e.keywords:
            tbl = self.module.module_const(e.func.value.id) if hasattr(self.module, "module_const") else None
            if isinstance(tbl, ast.Dict) and tbl.keys and all(isinstance(k, ast.Constant) and isinstance(k.value, int) for k in tbl.keys) and all(isinstance(v, ast.Constant) and isinstance(v.value, int) for v in tbl.values):
                table = {k.value: v.value for k, v in zip(tbl.keys, tbl.values)}
                for kv, p in self.eval(e.args[0], path):
                    ki = as_iv(kv)
                    if ki is None or not ki[2] or ki[1] - ki[0] > 4096:
                        vals = list(table.values())
                        for dv, p2 in self.eval(e.args[1], p):
                            d = as_iv(dv)
                            out.append((IntIv(min(vals + [int(d[0])]), max(vals + [int(d[1])])) if d is not None else Opaque("dict.get"), p2))
                        continue
                    lo, hi = int(ki[0]), int(ki[1])
                    hits = sorted(k for k in table if lo <= k <= hi)
                    for k in hits:
                        pk = p.fork(f"{norm(e.args[0])} == {k}")
                        self.refine(e.args[0], IntIv(k, k), pk)
                        out.append((IntIv(table[k], table[k]), pk))
                    # the key ranges that are not in the table: the default, evaluated with the key confined to that range
                    start = lo
                    ranges = []
                    for k in hits + [hi + 1]:
                        if start <= k - 1:
                            ranges.append((start, k - 1))
                        start = k + 1
                    for a, b in ranges:
                        pr = p.fork(f"{a} <= {norm(e.args[0])} <= {b}")
                        self.refine(e.args[0], IntIv(a, b), pr)
                        for dv, p2 in self.eval(e.args[1], pr):
                            out.append((dv, p2))
                return out
        # method calls on abstract receivers
        if isinstance(e.func, ast.Attribute):
            for recv, p0 in self.eval(e.func.value, path):
                for pos, kw, p in eval_args(p0):
                    if isinstance(recv, Rec):
                        c = self.class_of(recv.cls)
                        m = c.method(e.func.attr) if c is not None else None
                        if m is not None and not m.is_property:
                            params = m.params[1:]
                            args = {m.params[0]: recv}
                            for k_, v_ in zip(params, pos):
                                args[k_] = v_
                            args.update(kw)
                            from .astutil import default_args as _da
                            for k_, d_ in _da(m.node).items():
                                if k_ not in args:
                                    args[k_] = Const(d_.value) if isinstance(d_, ast.Constant) and not isinstance(d_.value, int) or isinstance(d_, ast.Constant) and isinstance(d_.value, bool) else (IntIv(d_.value, d_.value) if isinstance(d_, ast.Constant) and isinstance(d_.value, int) else Opaque("default"))
                            for o in self.run(m, args, c.module):
                                if o.kind == "return":
                                    out.append((o.value, Path(p.env, p.conds + o.path.conds)))
                            continue
                    out.append((self.method_call(recv, e.func.attr, pos, kw, e, p), p))
            return out
        # a module-level helper of the module being interpreted (not a class / builtin): interpret its body
        callee = None
        if isinstance(e.func, ast.Name) and getattr(self, "_depth", 0) < 3:
            cand = self.module.functions.get(e.func.id)
            if cand is not None and cand.cls is None and cand.parent is None and not cand.is_generator and e.func.id not in self.records and e.func.id not in self.enums:
                callee = cand
        if callee is not None:
            self._depth = getattr(self, "_depth", 0) + 1
            try:
                for pos, kw, p in eval_args(path):
                    a = callee.node.args
                    params = [x.arg for x in a.posonlyargs + a.args]
                    args = dict(zip(params, pos))
                    args.update(kw)
                    from .astutil import default_args as _da
                    for k_, d_ in _da(callee.node).items():
                        if k_ not in args:
                            args[k_] = Const(d_.value) if isinstance(d_, ast.Constant) and (not isinstance(d_.value, int) or isinstance(d_.value, bool)) else (IntIv(d_.value, d_.value) if isinstance(d_, ast.Constant) else Opaque("default"))
                    if set(params) - set(args):
                        out.append((self.func_call(fname, pos, kw, e, p), p))
                        continue
                    for o in self.run(callee, args, callee.module):
                        if o.kind == "return":
                            out.append((o.value, Path(p.env, p.conds + o.path.conds)))
                        else:
                            out.append((Opaque(f"raises in {callee.name}"), p))
            finally:
                self._depth -= 1
            return out
        for pos, kw, p in eval_args(path):
            out.append((self.func_call(fname, pos, kw, e, p), p))
        return out

    def method_call(self, recv: Val, name: str, pos, kw, node, p: Path) -> Val:
        if isinstance(recv, PaletteV) and name == "match":
            self.summaries.setdefault("Palette.match", []).append((recv.name, repr(pos)))
            return IntIv(0, recv.n - 1)
        if isinstance(recv, Opaque) and recv.desc.startswith("enumclass:"):
            pass
        if isinstance(recv, Opaque) and recv.desc.startswith("recclass:"):
            # classmethod constructors are not interpreted
            return Opaque(norm(node))
        return Opaque(norm(node))

    def func_call(self, fname: str, pos, kw, node, p: Path) -> Val:
        if fname in p.env and isinstance(p.env[fname], Opaque) and p.env[fname].desc.startswith("recclass:"):
            fname = p.env[fname].desc.split(":", 1)[1]
        if fname in self.records or (fname == "cls" and False):
            order, defaults = self.records[fname]
            fields: Dict[str, Val] = {}
            for k, v in zip(order, pos):
                fields[k] = v
            for k, v in kw.items():
                if k not in order:
                    raise AnalysisError(f"{fname}() has no field {k}")
                fields[k] = v
            for k in order:
                if k not in fields:
                    if k in defaults:
                        d = defaults[k]
                        fields[k] = Const(d.value) if isinstance(d, ast.Constant) else Opaque("default")
                    else:
                        raise AnalysisError(f"{fname}() missing field {k} at line {node.lineno}")
            return Rec(fname, fields, order)
        if fname in self.enums and len(pos) == 1:
            iv = as_iv(pos[0])
            if iv and iv[0] == iv[1]:
                for n, v in self.enums[fname].items():
                    if v == iv[0]:
                        return EnumV(fname, n, v)
                self.hazards.append(f"{fname}({iv[0]}) is not a member (ValueError) at line {node.lineno}")
            return Opaque(f"{fname}(?)")
        if fname == "round" and len(pos) == 1:
            iv = as_iv(pos[0])
            if iv:
                return IntIv(round(iv[0]), round(iv[1]))
        if fname == "int" and len(pos) == 1:
            iv = as_iv(pos[0])
            if iv:
                if iv[2]:
                    return pos[0] if isinstance(pos[0], IntIv) else IntIv(int(iv[0]), int(iv[1]))
                return IntIv(math.trunc(iv[0]), math.trunc(iv[1]))
        if fname == "str" and len(pos) == 1:
            if isinstance(pos[0], Const) and isinstance(pos[0].v, str):
                return pos[0]
            if isinstance(pos[0], Const) and type(pos[0].v) is int:
                return Const(str(pos[0].v))
            if isinstance(pos[0], IntIv) and pos[0].lo == pos[0].hi and getattr(pos[0], "sym", None) is None:
                return Const(str(pos[0].lo))  # str() of a known integer is that numeral
            return StrOf(pos[0])
        if fname == "rgb_to_hls" and len(pos) == 3:
            ivs = [as_iv(x) for x in pos]
            if all(iv and iv[0] >= 0 and iv[1] <= 1 for iv in ivs):
                return Tup([FloatIv(0.0, 1.0), FloatIv(0.0, 1.0), FloatIv(0.0, 1.0)])
            self.hazards.append(f"rgb_to_hls called with components outside [0,1] at line {node.lineno}")
            return Tup([Opaque("h"), Opaque("l"), Opaque("s")])
        if fname in ("min", "max") and len(pos) > 2:
            acc = pos[0]
            for nxt in pos[1:]:
                acc = self.func_call(fname, [acc, nxt], {}, node, p)
            return acc
        if fname in ("min", "max") and len(pos) == 2:
            a, b = as_iv(pos[0]), as_iv(pos[1])
            INF = float("inf")
            if a is None and b is not None and isinstance(pos[0], Opaque):
                a = (-INF, INF, False)
            if b is None and a is not None and isinstance(pos[1], Opaque):
                b = (-INF, INF, False)
            if a and b:
                f = min if fname == "min" else max
                isint = a[2] and b[2]
                lo, hi = f(a[0], b[0]), f(a[1], b[1])
                return IntIv(lo, hi) if isint else FloatIv(lo, hi)
        if fname == "abs" and len(pos) == 1:
            a = as_iv(pos[0])
            if a:
                lo = 0 if a[0] <= 0 <= a[1] else min(abs(a[0]), abs(a[1]))
                hi = max(abs(a[0]), abs(a[1]))
                return IntIv(lo, hi) if a[2] else FloatIv(lo, hi)
        if fname == "float" and len(pos) == 1:
            a = as_iv(pos[0])
            if a:
                return FloatIv(float(a[0]), float(a[1]))
        if fname == "len" and len(pos) == 1 and isinstance(pos[0], (Tup,)):
            return IntIv(len(pos[0].items), len(pos[0].items))
        return Opaque(norm(node))


def _load(target):
    t = ast.parse(norm(target), mode="eval").body
    return t
