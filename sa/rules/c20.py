"""C20 Named styles resolve through a well-behaved theme stack."""
from __future__ import annotations

import ast
from typing import List, Optional, Set

from .. import cfg as cfgmod
from ..astutil import alias_map, arg_of, call_name, expand_alias, is_attr_of, kwarg
from ..index import AnalysisError, AnchorVanished, norm, short, walk_local

LEVEL = "other"
UNDECIDED = [
    "configparser's own parsing of the config text (only that config emits `name = str(style)` lines that from_file feeds to Style.parse is checked; the str/parse round trip itself is C06)",
    "thread-sharing of the theme stack object",
]
TRUSTED = ["CPython ast parser", "dict display `{**a, **b}`: later keys win; list append/pop; context-manager protocol"]


def _ts(ctx):
    return ctx.repo.cls("theme:ThemeStack")


def _entries_mutations(f):
    """statements in f that change the list self._entries (also through a local alias `entries = self._entries`)."""
    from ..astutil import alias_map, expand_alias
    al = alias_map(f.node)
    out = []
    for n in walk_local(f.node):
        if isinstance(n, ast.Expr) and isinstance(n.value, ast.Call) and isinstance(n.value.func, ast.Attribute) and norm(expand_alias(n.value.func.value, al)) == "self._entries" and n.value.func.attr in cfgmod.MUTATOR_METHODS:
            out.append(n)
        elif isinstance(n, (ast.Assign, ast.AnnAssign, ast.AugAssign)):
            tg = n.targets if isinstance(n, ast.Assign) else [n.target]
            if any(norm(t) == "self._entries" for t in tg):
                out.append(n)
        elif isinstance(n, ast.Delete) and any("self._entries" in norm(t) for t in n.targets):
            out.append(n)
        elif isinstance(n, ast.Assign) and isinstance(n.value, ast.Call) and isinstance(n.value.func, ast.Attribute) and norm(n.value.func.value) == "self._entries" and n.value.func.attr in ("pop",):
            out.append(n)
    return out


def _is_rebind(st, cls=None, fn=None) -> bool:
    """`self.get = self._entries[-1].get` (temporaries inlined), or a call of a same-class helper that does this on every path"""
    from ..astutil import inline, single_defs
    if isinstance(st, ast.Assign) and len(st.targets) == 1 and norm(st.targets[0]) == "self.get":
        v = inline(st.value, single_defs(fn.node)) if fn is not None else st.value
        if norm(v) == "self._entries[-1].get":
            return True
        # `self.get = X.get` where X is the object that the most recent change of the entry list put on top:
        # `self._entries.append(X)` / `self._entries = [.., X]` directly before (same block, nothing in between touches the list)
        if fn is not None and isinstance(st.value, ast.Attribute) and st.value.attr == "get" and isinstance(st.value.value, ast.Name):
            x = st.value.value.id
            block = fn.module.parent_of.get(st)
            muts = [m_ for m_ in _entries_mutations(fn) if fn.module.parent_of.get(m_) is block and m_.lineno < st.lineno]
            if muts:
                last = max(muts, key=lambda m_: m_.lineno)
                if isinstance(last, ast.Expr) and isinstance(last.value, ast.Call) and last.value.func.attr == "append" and len(last.value.args) == 1 and norm(last.value.args[0]) == x:
                    return True
                val = last.value if isinstance(last, (ast.Assign, ast.AnnAssign)) else None
                if isinstance(val, ast.List) and val.elts and norm(val.elts[-1]) == x:
                    return True
        return False
    if cls is not None and isinstance(st, ast.Expr) and isinstance(st.value, ast.Call) and isinstance(st.value.func, ast.Attribute) and isinstance(st.value.func.value, ast.Name) and st.value.func.value.id == "self" and not st.value.args:
        h = cls.method(st.value.func.attr)
        if h is not None and h is not fn:
            g = cfgmod.build(h.node, lambda n: False)
            reb = {nd.id for nd in g.stmt_nodes() if nd.kind == "stmt" and _is_rebind(nd.stmt, None, h)}
            muts = _entries_mutations(h)
            return bool(reb) and not muts and g.must_pass(g.entry, reb, {g.exit}) is None
    return False


def r20_1(ctx):
    ctx.rule("R20.1", "lookup always aliases the top entry: after every mutation of ThemeStack._entries each normal path to the method's exit re-binds self.get to self._entries[-1].get (or get is a method reading the top entry)")
    c = _ts(ctx)
    getm = c.method("get")
    if getm is not None:
        src = norm(getm.node)
        ctx.shape("self._entries[-1]" in src, getm.fq, "def get", getm.where, "get() reads the top entry at call time", "ThemeStack.get does not read self._entries[-1]")
        return
    n = 0
    for name, lst in c.methods.items():
        for f in lst:
            muts = _entries_mutations(f)
            if not muts:
                continue
            g = cfgmod.build(f.node)
            rebinds = {nd.id for nd in g.stmt_nodes() if nd.kind == "stmt" and _is_rebind(nd.stmt, c, f)}
            for m in muts:
                n += 1
                for nid in g.nodes_of(m):
                    w = g.must_pass(nid, rebinds, {g.exit}) if rebinds else [nid]
                    ctx.check(w is None, f.fq, short(m), f"{f.module.relpath}:{m.lineno}", "followed by `self.get = self._entries[-1].get` on every normal path",
                              "the entry list changes here but a path leaves the method without re-binding self.get to the new top entry: lookups keep using the old (popped or shadowed) theme",
                              g.describe_path(w) if w else None)
            # nothing changes _entries after the last rebind
    ctx.floor(n, 3, "mutations of ThemeStack._entries")
    # nobody else rebinds get or touches _entries
    others = []
    for f in ctx.repo.all_functions():
        if f.cls is c:
            continue
        for x in walk_local(f.node):
            if isinstance(x, ast.Attribute) and x.attr == "_entries":
                others.append(f"{f.fq}:{x.lineno}")
    ctx.check(not others, c.fq, "_entries accesses outside ThemeStack", f"{c.module.relpath}:{c.node.lineno}", "ThemeStack._entries is private to ThemeStack", f"ThemeStack._entries is accessed from {others}")


def r20_2(ctx):
    ctx.rule("R20.2", "entries are never mutated in place: every pushed entry is a fresh dict (dict display or .copy()), and ThemeStack performs no subscript-store / update / del on an entry or on theme.styles - so pop restores every lookup")
    c = _ts(ctx)
    push = c.method("push_theme")
    if push is None:
        raise AnchorVanished("ThemeStack.push_theme not found")
    theme_p = push.params[1]
    g = cfgmod.build(push.node)
    rd = g.reaching_defs(weak=False)
    appends = [n for n in g.stmt_nodes() if n.kind == "stmt" and isinstance(n.stmt, ast.Expr) and isinstance(n.stmt.value, ast.Call) and norm(n.stmt.value.func) == "self._entries.append"]
    if not appends:
        ctx.violation(push.fq, "no append", push.where, "push_theme no longer appends an entry")
        return

    def fresh(e) -> bool:
        if isinstance(e, ast.Dict):
            return True
        if isinstance(e, ast.Call) and isinstance(e.func, ast.Attribute) and e.func.attr == "copy":
            return True
        if isinstance(e, ast.Call) and call_name(e) in ("dict", "ChainMap"):
            return call_name(e) == "dict"
        if isinstance(e, ast.IfExp):
            return fresh(e.body) and fresh(e.orelse)
        return False

    for a in appends:
        arg = a.stmt.value.args[0]
        exprs = []
        if isinstance(arg, ast.Name):
            for d in rd.get(a.id, {}).get(arg.id, set()):
                v = getattr(g.nodes[d].stmt, "value", None)
                if v is not None:
                    exprs.append(v)
                elif g.nodes[d].kind == "entry":
                    exprs.append(ast.Name(id=arg.id, ctx=ast.Load()))
        else:
            exprs.append(arg)
        ok = bool(exprs) and all(fresh(e) for e in exprs)
        ctx.check(ok, push.fq, short(a.stmt), f"{push.module.relpath}:{a.lineno}", "the pushed entry is a freshly built dict",
                  f"push_theme pushes `{'; '.join(norm(e) for e in exprs)}`, which aliases an existing dict (the previous entry or the theme's own styles): later pushes or edits show through after a pop")
    bad = []
    for name, lst in c.methods.items():
        for f in lst:
            for x in walk_local(f.node):
                if isinstance(x, ast.Subscript) and isinstance(x.ctx, (ast.Store, ast.Del)) and ("_entries[" in norm(x.value) or ".styles" in norm(x.value)):
                    bad.append((f, x))
                if isinstance(x, ast.Call) and isinstance(x.func, ast.Attribute) and x.func.attr in ("update", "setdefault", "clear", "pop", "popitem", "__setitem__") and ("_entries[" in norm(x.func.value) or norm(x.func.value).endswith(".styles")):
                    bad.append((f, x))
    for f, x in bad:
        ctx.violation(f.fq, short(x), f"{f.module.relpath}:{x.lineno}", "an existing stack entry / theme mapping is modified in place: popping no longer restores earlier lookups")
    if not bad:
        ctx.ok(f"{c.module.relpath}:{c.node.lineno}", "no in-place mutation of entries or theme.styles in ThemeStack")


def r20_3(ctx):
    from ..yieldpaths import Unsupported, paths_of, resolve, select
    ctx.rule("R20.3", "inheritance polarity and precedence (decided on the path normal form: conditional expression or if statement, with or without temporaries): with inherit the entry pushed is {**previous top, **theme.styles} (theme wins, earlier themes show through); without inherit it contains only the theme's styles")
    c = _ts(ctx)
    push = c.method("push_theme")
    theme_p, inh_p = push.params[1], push.params[2] if len(push.params) > 2 else None
    if inh_p is None:
        raise AnchorVanished("ThemeStack.push_theme has no inherit parameter")
    try:
        P = [resolve(p_) for p_ in paths_of(push.node)]
    except Unsupported as u:
        raise AnalysisError(f"ThemeStack.push_theme: statement outside the path normal form ({u})")

    def pushed(p_):
        out = []
        for e in p_:
            if e[0] == "do":
                try:
                    v = ast.parse(e[1], mode="eval").body
                except SyntaxError:
                    continue
                if isinstance(v, ast.Call) and norm(v.func) == "self._entries.append" and len(v.args) == 1:
                    out.append(v.args[0])
        return out
    where = push.where
    pos, neg = select(P, {inh_p: True}), select(P, {inh_p: False})
    both = [p_ for p_ in P if p_ in pos and p_ in neg]
    if both:
        ctx.violation(push.fq, "inherit unused", push.where, "push_theme does not branch on its `inherit` argument: inherit=False has no effect")
        return
    okp = bool(pos)
    detail = "?"
    for p_ in pos:
        vs = pushed(p_)
        detail = norm(vs[0]) if vs else "nothing pushed"
        v = vs[0] if len(vs) == 1 else None
        if not (isinstance(v, ast.Dict) and len(v.keys) == 2 and all(k is None for k in v.keys) and norm(v.values[0]) == "self._entries[-1]" and norm(v.values[1]) == f"{theme_p}.styles"):
            okp = False
    ctx.check(okp, push.fq, f"inherit: {detail}", where, "inherit=True: {**previous top, **theme.styles}",
              f"with inherit the entry is `{detail}`: not the previous top overlaid by the theme's styles (wrong precedence, or inheritance lost)")
    okn = bool(neg)
    detail = "?"
    for p_ in neg:
        vs = pushed(p_)
        detail = norm(vs[0]) if vs else "nothing pushed"
        if len(vs) != 1 or norm(vs[0]) not in (f"{theme_p}.styles.copy()", f"dict({theme_p}.styles)", "{**" + theme_p + ".styles}"):
            okn = False
    ctx.check(okn, push.fq, f"no inherit: {detail}", where, "inherit=False: only the theme's styles",
              f"without inherit the entry is `{detail}`: not exactly the theme's own styles")


def _base_polarity(test) -> Optional[str]:
    """'base' when the test holds exactly when only the base theme is left (len(self._entries) == 1, <= 1, < 2), 'more' when it
    holds exactly when something can be popped (!= 1, > 1, >= 2); operands in either order; None for any other test."""
    if isinstance(test, ast.UnaryOp) and isinstance(test.op, ast.Not):
        p = _base_polarity(test.operand)
        return None if p is None else ("more" if p == "base" else "base")
    if not (isinstance(test, ast.Compare) and len(test.ops) == 1):
        return None
    l, op, r = test.left, test.ops[0], test.comparators[0]
    flip = {ast.Lt: ast.Gt, ast.Gt: ast.Lt, ast.LtE: ast.GtE, ast.GtE: ast.LtE, ast.Eq: ast.Eq, ast.NotEq: ast.NotEq}
    if norm(r) == "len(self._entries)" and type(op) in flip:
        l, r, op = r, l, flip[type(op)]()
    if norm(l) != "len(self._entries)" or not (isinstance(r, ast.Constant) and type(r.value) is int):
        return None
    k = r.value
    table = {(ast.Eq, 1): "base", (ast.LtE, 1): "base", (ast.Lt, 2): "base", (ast.NotEq, 1): "more", (ast.Gt, 1): "more", (ast.GtE, 2): "more"}
    return table.get((type(op), k))


def r20_4(ctx):
    ctx.rule("R20.4", "the base theme can never be popped: every _entries.pop() is dominated by the false branch of a `len(self._entries) == 1` test whose true branch raises")
    c = _ts(ctx)
    n = 0
    for name, lst in c.methods.items():
        for f in lst:
            g = cfgmod.build(f.node)
            for nd in g.stmt_nodes():
                if nd.kind != "stmt":
                    continue
                from ..astutil import inline as _inl, single_defs as _sdf
                _sd = {k: v for k, v in _sdf(f.node).items() if norm(v) == "self._entries"}
                pops = [x for x in ast.walk(nd.stmt) if isinstance(x, ast.Call) and norm(_inl(x.func, _sd)) == "self._entries.pop"]
                dels = isinstance(nd.stmt, ast.Delete) and any("self._entries[" in norm(_inl(t, _sd)) for t in nd.stmt.targets)
                if not pops and not dels:
                    continue
                n += 1
                facts = g.branch_facts(nd.id)
                ok = False
                for t, v in facts:
                    pol = _base_polarity(_inl(t, _sd))
                    # the pop sits where "more than the base theme is left" holds
                    if pol is not None and ((pol == "base" and v is False) or (pol == "more" and v is True)):
                        ok = True
                ctx.check(ok, f.fq, short(nd.stmt), f"{f.module.relpath}:{nd.lineno}", "pop guarded by len(_entries) == 1 -> raise",
                          "an entry is popped without first refusing when only the base theme is left: the stack can become empty and every later lookup fails")
                # the branch on which only the base theme is left raises
                for parent in walk_local(f.node):
                    for fld in ("body", "orelse", "finalbody"):
                        sibs = getattr(parent, fld, None)
                        if not isinstance(sibs, list):
                            continue
                        for k, x in enumerate(sibs):
                            if not isinstance(x, ast.If):
                                continue
                            pol = _base_polarity(_inl(x.test, _sd))
                            if pol is None:
                                continue
                            if pol == "base":
                                raises = any(isinstance(b, ast.Raise) for b in x.body)
                            else:
                                raises = any(isinstance(b, ast.Raise) for b in x.orelse) or (
                                    not x.orelse and x.body and isinstance(x.body[-1], ast.Return) and any(isinstance(b, ast.Raise) for b in sibs[k + 1:]))
                            ctx.check(raises, f.fq, f"if {norm(x.test)}: raise", f"{f.module.relpath}:{x.lineno}", "refusal raises", "the base-theme guard does not raise")
    ctx.floor(n, 1, "pops of ThemeStack._entries")


def r20_5(ctx):
    ctx.rule("R20.5", "use_theme context manager: __enter__ pushes once, __exit__ pops on every path and returns falsy, and the `inherit` option accepted by Console.use_theme reaches ThemeStack.push_theme through every hop")
    cm_mod = ctx.repo.mod("console")
    if "ThemeContext" not in cm_mod.classes:
        # alternative form: Console.use_theme as a @contextmanager generator
        use = ctx.repo.cls("console:Console").method("use_theme")
        if use is None or not any("contextmanager" in d for d in use.decorators):
            raise AnchorVanished("neither console:ThemeContext nor a @contextmanager Console.use_theme found")
        g = cfgmod.build(use.node)
        pushes = [nd for nd in g.stmt_nodes() if nd.kind == "stmt" and any(isinstance(x, ast.Call) and norm(x.func).endswith("push_theme") for x in ast.walk(nd.stmt))]
        pops = {nd.id for nd in g.stmt_nodes() if nd.kind == "stmt" and any(isinstance(x, ast.Call) and norm(x.func).endswith("pop_theme") for x in ast.walk(nd.stmt))}
        yields = [nd for nd in g.stmt_nodes() if nd.kind == "stmt" and any(isinstance(x, ast.Yield) for x in ast.walk(nd.stmt))]
        ctx.check(len(pushes) == 1 and len(yields) == 1, use.fq, "push; yield", use.where, "pushes once, yields once", "use_theme does not push exactly once and yield exactly once")
        for y in yields:
            w = g.must_pass(y.id, pops, {g.exit, g.rexit}) if pops else [y.id]
            ctx.check(w is None, use.fq, "yield ... pop_theme()", f"{use.module.relpath}:{y.lineno}", "the theme is popped on every exit from the block, including by exception (try/finally around the yield)",
                      "use_theme pops the theme only when the with-block finishes normally: an exception thrown into the generator at the yield skips pop_theme(), so the temporary theme stays on the stack and later lookups are not restored",
                      g.describe_path(w) if w else None)
        for pnode in pushes:
            c = [x for x in ast.walk(pnode.stmt) if isinstance(x, ast.Call) and norm(x.func).endswith("push_theme")][0]
            v = kwarg(c, "inherit")
            ctx.check(v is not None and norm(v) == "inherit", use.fq, short(c), f"{use.module.relpath}:{c.lineno}", "inherit forwarded to push_theme", "use_theme does not forward `inherit` to push_theme")
        cons = ctx.repo.cls("console:Console")
        cpush = cons.method("push_theme")
        calls = [x for x in walk_local(cpush.node) if isinstance(x, ast.Call) and norm(x.func).endswith(".push_theme")]
        v = kwarg(calls[0], "inherit") if calls else None
        ctx.check(v is not None and norm(v) == "inherit", cpush.fq, short(calls[0]) if calls else "?", cpush.where, "Console.push_theme forwards inherit to the stack", "Console.push_theme does not forward `inherit` to ThemeStack.push_theme")
        return
    tc = ctx.repo.cls("console:ThemeContext")
    en, ex, init = tc.method("__enter__"), tc.method("__exit__"), tc.method("__init__")
    if not (en and ex and init):
        raise AnchorVanished("ThemeContext.__init__/__enter__/__exit__ not found")
    pushes = [x for x in walk_local(en.node) if isinstance(x, ast.Call) and norm(x.func).endswith(".push_theme")]
    ctx.check(len(pushes) == 1, en.fq, "push_theme", en.where, "__enter__ pushes exactly once", f"__enter__ pushes {len(pushes)} times")
    g = cfgmod.build(ex.node)
    pops = {nd.id for nd in g.stmt_nodes() if nd.kind == "stmt" and any(isinstance(x, ast.Call) and norm(x.func).endswith(".pop_theme") for x in ast.walk(nd.stmt))}
    w = g.must_pass(g.entry, pops, {g.exit}) if pops else [g.entry]
    ctx.check(w is None, ex.fq, "pop_theme", ex.where, "__exit__ pops on every path (also when the block raised)", "__exit__ can return without popping the theme (e.g. only when no exception occurred): the temporary theme leaks",
              g.describe_path(w) if w else None)
    rets = [r for r in walk_local(ex.node) if isinstance(r, ast.Return) and r.value is not None and not (isinstance(r.value, ast.Constant) and not r.value.value)]
    ctx.check(not rets, ex.fq, "return", ex.where, "__exit__ returns falsy", "__exit__ may swallow the exception")
    # option forwarding chain
    cons = ctx.repo.cls("console:Console")
    use, cpush = cons.method("use_theme"), cons.method("push_theme")
    if not (use and cpush):
        raise AnchorVanished("Console.use_theme/push_theme not found")
    ts_push = _ts(ctx).method("push_theme")

    def passed(call: ast.Call, callee, pname: str) -> Optional[ast.AST]:
        params = callee.params[1:] if callee.cls is not None else callee.params
        kw = kwarg(call, pname)
        if kw is not None:
            return kw
        if pname in params:
            i = params.index(pname)
            kwonly = {a.arg for a in callee.node.args.kwonlyargs}
            if pname not in kwonly and i < len(call.args):
                return call.args[i]
        return None

    # hop 1: use_theme -> ThemeContext(...)
    ctor = [x for x in walk_local(use.node) if isinstance(x, ast.Call) and call_name(x) == "ThemeContext"]
    v = passed(ctor[0], init, "inherit") if ctor else None
    from ..astutil import inline as _inl205a, single_defs as _sdf205a
    ctx.check(v is not None and norm(_inl205a(v, {k_: v_ for k_, v_ in _sdf205a(use.node).items() if k_ != "inherit"})) == "inherit", use.fq, short(ctor[0]) if ctor else "?", use.where, "use_theme passes inherit to ThemeContext", "Console.use_theme does not pass its `inherit` argument to ThemeContext")
    # hop 2: __init__ stores it
    slot = None
    for n in walk_local(init.node):
        if isinstance(n, ast.Assign) and is_attr_of(n.targets[0], "self") and norm(n.value) == "inherit":
            slot = n.targets[0].attr
    ctx.check(slot is not None, init.fq, "self.<slot> = inherit", init.where, f"ThemeContext stores inherit in self.{slot}", "ThemeContext.__init__ drops its `inherit` argument")
    # hop 3: __enter__ forwards it
    if pushes:
        v = passed(pushes[0], cpush, "inherit")
        from ..astutil import inline as _inl205, single_defs as _sdf205
        ok = v is not None and slot is not None and norm(_inl205(v, _sdf205(en.node))) == f"self.{slot}"
        ctx.check(ok, en.fq, short(pushes[0]), f"{en.module.relpath}:{pushes[0].lineno}", "__enter__ forwards the stored inherit option to push_theme",
                  f"ThemeContext.__enter__ calls `{short(pushes[0])}` without forwarding the stored `inherit` option: use_theme(theme, inherit=False) still inherits every style of the previous theme")
    # hop 4: Console.push_theme -> ThemeStack.push_theme
    calls = [x for x in walk_local(cpush.node) if isinstance(x, ast.Call) and norm(x.func).endswith(".push_theme")]
    v = passed(calls[0], ts_push, "inherit") if calls else None
    ctx.check(v is not None and norm(v) == "inherit", cpush.fq, short(calls[0]) if calls else "?", cpush.where, "Console.push_theme forwards inherit to the stack", "Console.push_theme does not forward `inherit` to ThemeStack.push_theme")
    cpop = cons.method("pop_theme")
    ctx.check(cpop is not None and any(isinstance(x, ast.Call) and norm(expand_alias(x.func, alias_map(cpop.node))).endswith("_theme_stack.pop_theme") for x in walk_local(cpop.node)), cons.fq, "pop_theme", cpop.where if cpop else cons.fq, "Console.pop_theme pops the stack", "Console.pop_theme does not pop the theme stack")


def r20_6(ctx):
    ctx.rule("R20.6", "lookup order: Console.get_style consults the theme stack first and parses the name as a style definition only when the stack has no entry; Theme.config emits `name = str(style)` lines and from_file parses each value with Style.parse")
    f = ctx.repo.fn("console:Console.get_style")
    name_p = f.params[1]
    g = cfgmod.build(f.node)
    al206 = alias_map(f.node)

    def _is_stack_get(v):
        return isinstance(v, ast.Call) and len(v.args) == 1 and norm(v.args[0]) == name_p and norm(expand_alias(v.func, al206)) == "self._theme_stack.get"
    stack_get = [nd for nd in g.stmt_nodes() if nd.kind == "stmt" and isinstance(nd.stmt, ast.Assign) and _is_stack_get(nd.stmt.value)]
    ctx.check(len(stack_get) == 1, f.fq, f"self._theme_stack.get({name_p})", f.where, "theme stack consulted with the name", "get_style no longer looks the name up in the theme stack")
    if stack_get:
        var = norm(stack_get[0].stmt.targets[0])
        parses = [nd for nd in g.stmt_nodes() if nd.kind == "stmt" and any(isinstance(x, ast.Call) and norm(x.func) == "Style.parse" for x in ast.walk(nd.stmt))]
        for p in parses:
            facts = g.branch_facts(p.id)
            ok = any(v is True and norm(t) == f"{var} is None" for t, v in facts) or any(v is False and norm(t) in (f"{var} is not None", var) for t, v in facts)
            dom = g.dominated_by(p.id, {stack_get[0].id})
            ctx.check(ok and dom, f.fq, short(p.stmt), f"{f.module.relpath}:{p.lineno}", "Style.parse only when no theme defines the name",
                      "Style.parse is consulted even when the theme stack defines the name (or before it): theme entries no longer take precedence")
        ctx.floor(len(parses), 1, "Style.parse fallbacks in get_style")
    th = ctx.repo.cls("theme:Theme")
    cfgp = th.method("config")
    from ..astutil import concat_parts, inline as _inl, single_defs as _sdf
    crets = [r for r in walk_local(cfgp.node) if isinstance(r, ast.Return) and r.value is not None]
    tmpl_ok = False
    if len(crets) == 1:
        mutable = {c.func.value.id for c in walk_local(cfgp.node) if isinstance(c, ast.Call) and isinstance(c.func, ast.Attribute) and isinstance(c.func.value, ast.Name) and c.func.attr in ("append", "extend")}
        parts = concat_parts(_inl(crets[0].value, {k: v for k, v in _sdf(cfgp.node).items() if k not in mutable}))
        tmpl_ok = len(parts) == 2 and parts[0] == "[styles]\n" and isinstance(parts[1], tuple) and parts[1][1].startswith("'\\n'.join(")
    # one line per entry: `<name> = <style>` built from the two loop targets (f-string, str.format, %, concatenation alike)
    item_ok = False
    for x in walk_local(cfgp.node):
        tgt_ = None
        if isinstance(x, (ast.GeneratorExp, ast.ListComp)) and len(x.generators) == 1 and isinstance(x.generators[0].target, ast.Tuple) and len(x.generators[0].target.elts) == 2:
            tgt_, elt_ = x.generators[0].target, x.elt
        elif isinstance(x, ast.For) and isinstance(x.target, ast.Tuple) and len(x.target.elts) == 2 and len(x.body) == 1 and isinstance(x.body[0], ast.Expr) and isinstance(x.body[0].value, ast.Call) and x.body[0].value.args:
            tgt_, elt_ = x.target, x.body[0].value.args[0]
        if tgt_ is None:
            # iteration over the names:  f"{name} = {styles[name]}" for name in sorted(styles)   (styles = self.styles)
            if isinstance(x, (ast.GeneratorExp, ast.ListComp)) and len(x.generators) == 1 and isinstance(x.generators[0].target, ast.Name):
                nm_ = x.generators[0].target.id
                pr_ = concat_parts(x.elt)
                if len(pr_) == 3 and pr_[0] == ("expr", nm_) and pr_[1] == " = " and isinstance(pr_[2], tuple):
                    v_ = pr_[2][1]
                    sd_ = {k: norm(v) for k, v in _sdf(cfgp.node).items()}
                    for d_ in ["self.styles"] + [k for k, v in sd_.items() if v == "self.styles"]:
                        if v_ in (f"{d_}[{nm_}]", f"str({d_}[{nm_}])"):
                            item_ok = True
            continue
        n_, s_ = (norm(e) for e in tgt_.elts)
        if concat_parts(elt_) in ([("expr", n_), " = ", ("expr", s_)], [("expr", n_), " = ", ("expr", f"str({s_})")]):
            item_ok = True
    ctx.check(tmpl_ok and item_ok, cfgp.fq, "config template", cfgp.where, "config writes a [styles] section of `name = style` lines", "Theme.config no longer emits `[styles]` + `name = str(style)` lines")
    # every entry is listed: the items iterated are self.styles.items() behind order-only wrappers (sorted / list / tuple / reversed,
    # a temporary that is only sorted or reversed in place); a filter (comprehension `if`, filter()) is a violation
    binds206 = {}
    for x in walk_local(cfgp.node):
        if isinstance(x, ast.Assign) and len(x.targets) == 1 and isinstance(x.targets[0], ast.Name):
            binds206.setdefault(x.targets[0].id, []).append(x.value)
    mut206 = {}
    for c in walk_local(cfgp.node):
        if isinstance(c, ast.Call) and isinstance(c.func, ast.Attribute) and isinstance(c.func.value, ast.Name):
            mut206.setdefault(c.func.value.id, set()).add(c.func.attr)

    def all_items(e, depth=0) -> str:
        """'yes' / 'filtered' / 'unknown'"""
        if depth > 6:
            return "unknown"
        if norm(e) in ("self.styles.items()", "self.styles", "self.styles.keys()"):
            return "yes"
        if isinstance(e, ast.Call) and norm(e.func) in ("sorted", "list", "tuple", "reversed", "iter") and e.args:
            return all_items(e.args[0], depth + 1)
        if isinstance(e, ast.Call) and norm(e.func) == "filter":
            return "filtered"
        if isinstance(e, (ast.ListComp, ast.GeneratorExp)) and len(e.generators) == 1:
            g0 = e.generators[0]
            if g0.ifs:
                return "filtered" if all_items(g0.iter, depth + 1) != "unknown" else "unknown"
            if norm(e.elt) == norm(g0.target) or (isinstance(e.elt, ast.Tuple) and isinstance(g0.target, ast.Tuple) and [norm(q) for q in e.elt.elts] == [norm(q) for q in g0.target.elts]):
                return all_items(g0.iter, depth + 1)
            return "unknown"
        if isinstance(e, ast.Name) and e.id in binds206:
            if mut206.get(e.id, set()) - {"sort", "reverse", "items", "copy"}:
                return "unknown"
            rs = {all_items(v, depth + 1) for v in binds206[e.id]}
            return "yes" if rs == {"yes"} else ("filtered" if "filtered" in rs else "unknown")
        return "unknown"
    gens = [x for x in walk_local(cfgp.node) if isinstance(x, (ast.GeneratorExp, ast.ListComp)) and len(x.generators) == 1 and ((isinstance(x.generators[0].target, ast.Tuple) and len(x.generators[0].target.elts) == 2) or isinstance(x.generators[0].target, ast.Name))]
    loops206 = [x for x in walk_local(cfgp.node) if isinstance(x, ast.For) and isinstance(x.target, ast.Tuple) and len(x.target.elts) == 2]
    verdicts = []
    for x in gens:
        verdicts.append(("filtered" if x.generators[0].ifs else all_items(x.generators[0].iter), x))
    for x in loops206:
        v_ = all_items(x.iter)
        if v_ == "yes" and not (len(x.body) == 1 and isinstance(x.body[0], ast.Expr) and isinstance(x.body[0].value, ast.Call) and norm(x.body[0].value.func).endswith(".append") and not x.orelse):
            v_ = "unknown" if not any(isinstance(y, (ast.If, ast.Continue, ast.Break)) for b_ in x.body for y in ast.walk(b_)) else "filtered"
        verdicts.append((v_, x))
    if any(v_ == "filtered" for v_, _x in verdicts):
        bad_ = next(x for v_, x in verdicts if v_ == "filtered")
        ctx.violation(cfgp.fq, short(bad_), cfgp.where, "Theme.config does not emit every (name, style) of self.styles (a filter sits between the styles and the text): entries such as null styles are missing from the text, so reading it back gives a theme with different styles")
    elif any(v_ == "yes" for v_, _x in verdicts):
        ctx.ok(cfgp.where, "config lists every entry of self.styles (no filter)", cfgp.fq)
    else:
        raise AnalysisError("Theme.config: the entries written are not read off self.styles.items() in a form this rule follows")
    ff = th.method("from_file")
    # the theme is built from the parsed styles AND the caller's inherit flag (else inherit=False themes come back with the defaults merged in)
    from ..astutil import inline as _inl2, single_defs as _sdf2
    ctor = [c for c in walk_local(ff.node) if isinstance(c, ast.Call) and norm(c.func) in ("Theme", "cls")]
    okf = len(ctor) == 1
    if okf:
        c0 = ctor[0]
        inh = kwarg(c0, "inherit") or (c0.args[1] if len(c0.args) > 1 else None)
        okf = inh is not None and norm(inh) == "inherit"
    ctx.check(okf, ff.fq, short(ctor[0]) if ctor else "Theme(...)", ff.where, "from_file forwards its inherit argument to the Theme it builds", "Theme.from_file does not forward `inherit` to the Theme constructor: a theme written with inherit=False reads back with all default styles merged in")
    rd_ = th.method("read")
    if rd_ is not None:
        calls_ = [c for c in walk_local(rd_.node) if isinstance(c, ast.Call) and norm(c.func).endswith("from_file")]
        okr = len(calls_) == 1 and ((kwarg(calls_[0], "inherit") is not None and norm(kwarg(calls_[0], "inherit")) == "inherit") or (len(calls_[0].args) > 2 and norm(calls_[0].args[2]) == "inherit"))
        ctx.check(okr, rd_.fq, short(calls_[0]) if calls_ else "from_file(...)", rd_.where, "Theme.read forwards inherit to from_file", "Theme.read does not forward `inherit` to from_file")
    src = norm(ff.node)
    ctx.shape("Style.parse(value)" in src and "config.items('styles')" in src, ff.fq, "from_file", ff.where, "from_file parses every value of [styles] with Style.parse", "Theme.from_file no longer parses the [styles] values with Style.parse")


def r20_7(ctx):
    ctx.rule("R20.7", "the config reader takes values verbatim: Theme.config writes `name = str(style)` and a style definition may contain `%` (percent-encoded link URLs) and ` #rrggbb` colours, so the parser built in Theme.from_file must neither interpolate (`interpolation=None`, or RawConfigParser) nor strip inline comments (no inline_comment_prefixes) - otherwise the config text does not read back as a theme with equal styles")
    th = ctx.repo.cls("theme:Theme")
    ff = th.method("from_file")
    m = ff.module
    ctors = [c for c in walk_local(ff.node) if isinstance(c, ast.Call) and norm(c.func).split(".")[-1] in ("ConfigParser", "RawConfigParser", "SafeConfigParser")]
    if len(ctors) != 1:
        raise AnalysisError("Theme.from_file: expected exactly one ConfigParser construction")
    c = ctors[0]
    where = f"{m.relpath}:{c.lineno}"
    raw = norm(c.func).split(".")[-1] == "RawConfigParser"
    ip = kwarg(c, "interpolation")
    if ip is None and len(c.args) > 7:
        raise AnalysisError("Theme.from_file: ConfigParser built with positional options; not read")
    ok_i = raw or (ip is not None and isinstance(ip, ast.Constant) and ip.value is None)
    ctx.check(ok_i, ff.fq, short(c), where, "values are read without interpolation",
              f"`{short(c)}` interpolates `%` in values: a style whose link is percent-encoded (Style(link='http://x/a%20b')) is written by Theme.config as `link http://x/a%20b` and reading it back raises InterpolationSyntaxError")
    ic = kwarg(c, "inline_comment_prefixes")
    ok_c = ic is None or (isinstance(ic, ast.Constant) and ic.value is None) or (isinstance(ic, (ast.Tuple, ast.List)) and not ic.elts)
    ctx.check(ok_c, ff.fq, short(c), where, "no inline comment stripping",
              f"`{short(c)}` strips inline comments: Theme.config writes truecolor as `#rrggbb`, so `bold #af00ff` reads back as `bold` and `red on #123456` as a syntax error")
    for k in c.keywords:
        if k.arg in ("delimiters", "comment_prefixes", "strict", "empty_lines_in_values", "default_section", "allow_no_value", "converters", "defaults", "dict_type"):
            raise AnalysisError(f"Theme.from_file: ConfigParser option `{k.arg}` changes the grammar; the round-trip clause is not decided for it")


def r20_8(ctx):
    ctx.rule("R20.8", "no stale lookups: if Console.get_style memoises resolved names in a container on the console (a subscript store into self.<attr> inside get_style), every Console method that changes the theme stack - a call of a state-changing ThemeStack method on self._theme_stack (push_theme, pop_theme, ...) - also empties that container on every path; a cache cleared on push but not on pop keeps answering with the popped theme's styles")
    cons = ctx.repo.cls("console:Console")
    gs = cons.method("get_style")
    ts = ctx.repo.cls("theme:ThemeStack")
    if gs is None or ts is None:
        raise AnchorVanished("Console.get_style / ThemeStack not found")
    caches = set()
    for x in walk_local(gs.node):
        if isinstance(x, ast.Assign):
            for t in x.targets:
                if isinstance(t, ast.Subscript) and is_attr_of(t.value, "self"):
                    caches.add(t.value.attr)
        if isinstance(x, ast.Call) and isinstance(x.func, ast.Attribute) and x.func.attr in ("setdefault", "update") and is_attr_of(x.func.value, "self"):
            caches.add(x.func.value.attr)
    if not caches:
        ctx.ok(gs.where, "get_style keeps no per-console cache of resolved names", gs.fq)
        return
    # state-changing methods of ThemeStack: store to a self attribute or mutate one of its containers
    MUT = ("append", "pop", "extend", "insert", "clear", "remove", "update")
    mutators = set()
    for name, lst in ts.methods.items():
        if name == "__init__":
            continue
        for q in lst:
            for x in walk_local(q.node):
                if isinstance(x, (ast.Assign, ast.AugAssign)) and any(is_attr_of(t, "self") or (isinstance(t, ast.Subscript) and is_attr_of(t.value, "self")) for t in (x.targets if isinstance(x, ast.Assign) else [x.target])):
                    mutators.add(name)
                if isinstance(x, ast.Call) and isinstance(x.func, ast.Attribute) and x.func.attr in MUT and is_attr_of(x.func.value, "self"):
                    mutators.add(name)
                if isinstance(x, ast.Delete):
                    mutators.add(name)
    ctx.floor(len(mutators), 2, "state-changing ThemeStack methods")
    n = 0
    for name, lst in cons.methods.items():
        for q in lst:
            g = None
            for x in walk_local(q.node):
                if isinstance(x, ast.Call) and isinstance(x.func, ast.Attribute) and x.func.attr in mutators and norm(x.func.value) == "self._theme_stack":
                    if g is None:
                        g = cfgmod.build(q.node)
                    st = x
                    while not isinstance(st, ast.stmt):
                        st = q.module.parent_of[st]
                    for cache in sorted(caches):
                        n += 1
                        clears = set()
                        for nd in g.stmt_nodes():
                            if nd.kind == "stmt" and nd.stmt is not None and not isinstance(nd.stmt, (ast.With, ast.Try, ast.If, ast.For, ast.While)):
                                for c in ast.walk(nd.stmt):
                                    if isinstance(c, ast.Call) and isinstance(c.func, ast.Attribute) and c.func.attr == "clear" and is_attr_of(c.func.value, "self", cache):
                                        clears.add(nd.id)
                                if isinstance(nd.stmt, ast.Assign) and any(is_attr_of(t, "self", cache) for t in nd.stmt.targets):
                                    clears.add(nd.id)
                                if isinstance(nd.stmt, ast.Delete) and any(isinstance(t, ast.Subscript) and is_attr_of(t.value, "self", cache) for t in nd.stmt.targets):
                                    clears.add(nd.id)
                        ok = bool(clears) and all(g.must_pass(nid, clears, {g.exit}) is None or any(nid in g.reach([c_]) for c_ in clears) for nid in g.nodes_of(st))
                        ctx.check(ok, q.fq, short(x), f"{q.module.relpath}:{x.lineno}", f"self.{cache} is emptied whenever `{short(x)}` changes the theme stack",
                                  f"`{short(x)}` changes the theme stack but Console.{name} does not empty self.{cache}, the cache get_style answers from: a name looked up while the theme was pushed keeps resolving to that theme's entry after the pop")
    ctx.floor(n, 1, "theme-stack changes in Console checked against the get_style cache")


def r20_9(ctx):
    from .c06 import r6_5
    from .common import borrow
    borrow(ctx, r6_5, "R6.5", "R20.9", " [Theme.config writes str(style) and from_file parses it back: the group masks of Style.__str__ cover every attribute bit, or a theme written to a file reads back with an attribute missing]")


RULES = [r20_1, r20_2, r20_3, r20_4, r20_5, r20_6, r20_7, r20_8, r20_9]
