"""C16 Pretty-printed data evaluates back to the data."""
from __future__ import annotations

import ast
import re
from typing import List, Optional

from .. import cfg as cfgmod
from ..astutil import alias_map, call_name, expand_alias, fstring_parts
from ..index import AnalysisError, AnchorVanished, norm, short, walk_local

LEVEL = "other"
UNDECIDED = [
    "that the representation evaluates to an equal value for every input (only the brace templates, separators and abbreviation counts are decided)",
    "single-line-iff-it-fits and indentation consistency of the expansion loop (cell-width arithmetic over all widths)",
]
TRUSTED = ["CPython ast parser", "repr() of leaves round-trips for the built-in literals"]

PAIRS = {"(": ")", "[": "]", "{": "}"}


def _braces_entries(ctx):
    """(type text, factory function node, where) for every entry of pretty._BRACES."""
    m = ctx.repo.mod("pretty")
    d = m.global_assign("_BRACES")
    if not isinstance(d, ast.Dict):
        raise AnchorVanished("pretty._BRACES dict literal not found")
    out = []
    for k, v in zip(d.keys, d.values):
        if isinstance(v, ast.Lambda):
            out.append((norm(k), v, v.args.args[0].arg if v.args.args else None, v.body))
        elif isinstance(v, ast.Name) and v.id in m.functions:
            fn = m.functions[v.id]
            rets = [r for r in walk_local(fn.node) if isinstance(r, ast.Return)]
            out.append((norm(k), fn.node, fn.params[0] if fn.params else None, rets[0].value if rets else None))
        else:
            raise AnalysisError(f"_BRACES[{norm(k)}] is neither a lambda nor a module function")
    return m, out


def _template_text(e) -> Optional[str]:
    """Constant skeleton of a str constant / f-string with fields replaced by \\0."""
    parts = fstring_parts(e)
    if parts is None:
        return None
    return "".join(p if isinstance(p, str) else "\0" for p in parts)


def r16_1(ctx):
    ctx.rule("R16.1", "brace templates: every _BRACES factory returns (open, close, empty) where no plain (non-f) string contains a replacement field naming the factory's parameter, the closing brackets mirror the opening ones, and the empty form is bracket-balanced on its own")
    m, entries = _braces_entries(ctx)
    ctx.floor(len(entries), 9, "_BRACES entries")
    for tname, node, param, ret in entries:
        where = f"{m.relpath}:{getattr(ret, 'lineno', getattr(node, 'lineno', 0))}"
        if not (isinstance(ret, ast.Tuple) and len(ret.elts) == 3):
            ctx.violation("pretty:_BRACES", f"{tname}: {short(ret) if ret is not None else None}", where, f"_BRACES[{tname}] does not return an (open, close, empty) triple")
            continue
        for i, el in enumerate(ret.elts):
            if isinstance(el, ast.Constant) and isinstance(el.value, str) and param:
                bad = re.search(r"\{\s*" + re.escape(param) + r"\b", el.value)
                ctx.check(bad is None, "pretty:_BRACES", f"{tname}[{i}] = {el.value!r}", where, f"{tname}: plain string has no unformatted field",
                          f"_BRACES[{tname}] element {i} is the plain string {el.value!r}, which contains the replacement field `{{{param}...}}` but is not an f-string: the literal text is shown instead of the value")
        o, c, e = (_template_text(x) for x in ret.elts)
        if o is None or c is None or e is None:
            raise AnalysisError(f"_BRACES[{tname}] elements are not string templates")
        opens = [ch for ch in o if ch in PAIRS]
        closes = [ch for ch in c if ch in PAIRS.values()]
        ok = [PAIRS[x] for x in reversed(opens)] == closes
        ctx.check(ok, "pretty:_BRACES", f"{tname}: {o!r} ... {c!r}", where, f"{tname}: closing brackets mirror the opening ones", f"_BRACES[{tname}]: close {c!r} does not mirror open {o!r}: the printed container is not a balanced expression")
        # empty form balanced
        st = []
        bal = True
        for ch in e:
            if ch in PAIRS:
                st.append(ch)
            elif ch in PAIRS.values():
                if not st or PAIRS[st.pop()] != ch:
                    bal = False
        ctx.check(bal and not st, "pretty:_BRACES", f"{tname}: empty {e!r}", where, f"{tname}: empty form balanced", f"_BRACES[{tname}]: empty form {e!r} is not bracket-balanced")
        # open and empty start with the same constructor name
        head_o = re.match(r"[A-Za-z_]*", o).group(0)
        head_e = re.match(r"[A-Za-z_]*", e).group(0)
        ctx.check(head_o == head_e or (head_o == "" and head_e in ("set",)), "pretty:_BRACES", f"{tname}: {head_o!r} vs {head_e!r}", where, f"{tname}: empty and non-empty forms name the same constructor",
                  f"_BRACES[{tname}]: non-empty form starts with {head_o!r} but the empty form with {head_e!r}: an empty container evaluates to a different type")


def r16_2(ctx):
    ctx.rule("R16.2", "cycle guard: every recursive _traverse call is dominated by the visited-id test and by push_visited of the container's id, and every normal path from the push to the function's exit passes pop_visited of that id (so only genuine cycles print '...')")
    m = ctx.repo.mod("pretty")
    f = m.functions.get("traverse.<locals>._traverse")
    if f is None:
        raise AnchorVanished("pretty.traverse.<locals>._traverse not found")
    outer = m.fn("traverse")
    aliases = alias_map(outer.node)
    g = cfgmod.build(f.node)

    def calls_to(nd, name):
        e = nd.stmt if nd.kind == "stmt" else nd.expr
        if e is None:
            return []
        return [c for c in ast.walk(e) if isinstance(c, ast.Call) and norm(expand_alias(c.func, aliases)) == name]

    pushes = [nd for nd in g.stmt_nodes() if nd.kind == "stmt" and calls_to(nd, "visited_ids.add")]
    pops = [nd for nd in g.stmt_nodes() if nd.kind == "stmt" and (calls_to(nd, "visited_ids.remove") or calls_to(nd, "visited_ids.discard"))]
    recs = [nd for nd in g.stmt_nodes() if nd.kind in ("stmt", "test", "for") and calls_to(nd, "_traverse")]
    ctx.check(len(pushes) >= 1 and len(pops) >= 1, f.fq, "push_visited / pop_visited", f.where, "visited set is pushed and popped", "_traverse no longer pushes and pops the visited-id set: cycles recurse forever or shared objects print as '...'")
    if not pushes or not pops:
        return
    for p in pushes:
        arg = norm(calls_to(p, "visited_ids.add")[0].args[0])
        same_pops = {q.id for q in pops if norm((calls_to(q, "visited_ids.remove") or calls_to(q, "visited_ids.discard"))[0].args[0]) == arg}
        w = g.must_pass(p.id, same_pops, {g.exit})
        ctx.check(w is None, f.fq, short(p.stmt), f"{m.relpath}:{p.lineno}", f"every normal path after push_visited({arg}) pops it again",
                  f"a path leaves _traverse after push_visited({arg}) without pop_visited({arg}): a container that merely occurs twice (e.g. the same empty tuple) is later reported as a cycle '...'", g.describe_path(w) if w else None)
        # the visited test dominates the push
        facts = g.branch_facts(p.id)
        ok = any(v is False and norm(t) == f"{arg} in visited_ids" for t, v in facts) or any(v is True and norm(t) == f"{arg} not in visited_ids" for t, v in facts)
        ctx.check(ok, f.fq, f"if {arg} in visited_ids", f"{m.relpath}:{p.lineno}", "push only after the id was found not to be on the current path", "push_visited is not guarded by the `in visited_ids` test")
    for r in recs:
        ok = all(g.dominated_by(r.id, {p.id}) for p in pushes)
        ctx.check(ok, f.fq, short(r.stmt) if r.kind == "stmt" else repr(r), f"{m.relpath}:{r.lineno}", "recursive descent happens with the container's id on the visited set",
                  "a recursive _traverse call is not dominated by push_visited: a self-referential container recurses without bound")
    ctx.floor(len(recs), 2, "recursive _traverse calls")
    # the cycle marker
    marker = any(isinstance(n, ast.Return) and "value_repr='...'" in norm(n) for n in walk_local(f.node))
    ctx.check(marker, f.fq, "return Node(value_repr='...')", f.where, "a revisited container yields the ellipsis marker", "a revisited container no longer yields the '...' marker node")


def r16_3(ctx):
    ctx.rule("R16.3", "abbreviation counts: the omitted-item count is num_items - N with the same N that bounds islice and num_items = len(obj); the omitted-character count is len(obj) - N with the same N that slices the string; both only when the size exceeds N")
    m = ctx.repo.mod("pretty")
    f = m.functions.get("traverse.<locals>._traverse")
    tr = m.functions.get("traverse.<locals>.to_repr")
    if f is None or tr is None:
        raise AnchorVanished("pretty.traverse inner functions not found")
    islices = [c for c in walk_local(f.node) if isinstance(c, ast.Call) and call_name(c) == "islice"]
    ctx.floor(len(islices), 2, "islice sites")
    bounds = {norm(c.args[1]) for c in islices if len(c.args) == 2}
    found = False
    for n in walk_local(f.node):
        if isinstance(n, ast.If) and "num_items >" in norm(n.test):
            for x in ast.walk(n):
                if isinstance(x, ast.JoinedStr):
                    parts = fstring_parts(x)
                    fields = [p for p in parts if isinstance(p, tuple)]
                    if fields:
                        found = True
                        expr = fields[0][1]
                        ok = isinstance(expr, ast.BinOp) and isinstance(expr.op, ast.Sub) and norm(expr.left) == "num_items" and {norm(expr.right)} == bounds
                        ok = ok and f"num_items > {norm(expr.right)}" in norm(n.test)
                        ctx.check(ok, f.fq, short(x), f"{m.relpath}:{x.lineno}", f"omitted items = num_items - {sorted(bounds)} (the islice bound), only when exceeded",
                                  f"the abbreviation marker reports `{norm(expr)}` omitted items, but the items shown are limited by islice(..., {sorted(bounds)}): the count does not match what was left out")
    ctx.check(found, f.fq, "abbreviation marker", f.where, "abbreviation marker present", "no '... +N' marker is appended when max_length cuts the container")
    ok = any(isinstance(n, ast.Assign) and norm(n.targets[0]) == "num_items" and norm(n.value) == "len(obj)" for n in walk_local(f.node))
    ctx.check(ok, f.fq, "num_items = len(obj)", f.where, "num_items is the container's size", "num_items is not len(obj)")
    # strings
    src = norm(tr.node)
    ok = False
    for n in walk_local(tr.node):
        if isinstance(n, ast.If) and "len(obj) > max_string" in norm(n.test):
            body = " ; ".join(norm(b) for b in n.body)
            ok = "truncated = len(obj) - max_string" in body and "obj[:max_string]!r" in body and "+{truncated}" in body
    ctx.check(ok, tr.fq, "string abbreviation", tr.where, "omitted characters = len(obj) - max_string with obj[:max_string] shown", "the string abbreviation does not report len(obj) - max_string characters for the obj[:max_string] prefix it shows")


def r16_4(ctx):
    ctx.rule("R16.4", "one-element tuples keep their trailing comma in both serialisers of Node.children: Node.iter_tokens (inline) and _Line.expand (expanded) both test is_tuple and len(children) == 1 and emit ','")
    m = ctx.repo.mod("pretty")
    it = m.fn("Node.iter_tokens")
    ex = m.fn("_Line.expand")
    ok = False
    for n in walk_local(it.node):
        if isinstance(n, ast.If) and "is_tuple" in norm(n.test) and "len(self.children) == 1" in norm(n.test):
            ok = any(isinstance(y, ast.Yield) and isinstance(y.value, ast.Constant) and y.value.value == "," for b in n.body for y in ast.walk(b))
    ctx.check(ok, it.fq, "if self.is_tuple and len(self.children) == 1: ... yield ','", it.where, "inline form of a 1-tuple ends with a comma", "Node.iter_tokens no longer adds the trailing comma for a one-element tuple: (1,) prints as (1), which evaluates to an int")
    src = norm(ex.node)
    ok = "tuple_of_one = node.is_tuple and len(node.children) == 1" in src and "',' if tuple_of_one else child.separator" in src
    ctx.check(ok, ex.fq, "tuple_of_one", ex.where, "expanded form of a 1-tuple keeps the comma after its element", "_Line.expand no longer gives the single element of a tuple its trailing comma")
    # separators between children: ', ' unless last
    ok = False
    for n in walk_local(it.node):
        if isinstance(n, ast.For) and norm(n.iter) == "self.children":
            body = " ; ".join(norm(b) for b in n.body)
            ok = "yield from child.iter_tokens()" in body and "if not child.last" in body and "yield ', '" in body
    ctx.check(ok, it.fq, "children separated by ', '", it.where, "children are emitted in order separated by ', ' (none after the last)", "Node.iter_tokens does not emit every child in order separated by ', '")
    # mapping keys
    ctx.check("yield self.key_repr" in norm(it.node) and "yield ': '" in norm(it.node), it.fq, "key: value", it.where, "dict items print as key: value", "dict items are no longer emitted as `key: value`")


def r16_5(ctx):
    ctx.rule("R16.5", "measure = render for the fits-on-one-line decision: Node.check_length adds up cell_len over the very tokens Node.iter_tokens yields (the tokens that are printed), starting from the line's prefix length, and _Line.check_length passes whitespace + text + suffix")
    m = ctx.repo.mod("pretty")
    f = m.fn("Node.check_length")
    loops = [x for x in walk_local(f.node) if isinstance(x, ast.For)]
    ok = len(loops) == 1 and norm(loops[0].iter) == "self.iter_tokens()" and any(isinstance(b, ast.AugAssign) and norm(b.value) == f"cell_len({norm(loops[0].target)})" for b in loops[0].body)
    ctx.check(ok, f.fq, "for token in self.iter_tokens(): total_length += cell_len(token)", f.where, "the length test walks the printed tokens",
              "Node.check_length no longer measures the tokens produced by iter_tokens(): a separately maintained length (e.g. a cached per-node width) can disagree with what is printed - such as the trailing comma of a one-element tuple - so a container stays on one line although it is wider than max_width")
    src = norm(f.node)
    ctx.check("total_length = start_length" in src and "if total_length > max_length" in src, f.fq, "start_length / max_length", f.where, "prefix counted and compared with the limit", "check_length does not start from start_length or compare with max_length")
    g = m.fn("_Line.check_length")
    ctx.check("len(self.whitespace) + cell_len(self.text) + cell_len(self.suffix)" in norm(g.node), g.fq, "start_length", g.where, "indent, text and suffix are counted", "_Line.check_length does not count whitespace + text + suffix")


RULES = [r16_1, r16_2, r16_3, r16_4, r16_5]
