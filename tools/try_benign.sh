#!/bin/bash
# usage: try_benign.sh <patch> <Cxx> [Cxx...]   -- applies the patch in a scratch worktree (never /repo) and runs the checks there
P=$1; shift
WT=/tmp/wt_tb_$$
git -C /repo worktree add --detach $WT HEAD -q 2>/dev/null
( cd $WT && git apply $P ) || { echo APPLY-FAILED; git -C /repo worktree remove --force $WT; exit 3; }
for c in "$@"; do
  RICH_REPO=$WT SA_NO_EVIDENCE=1 /venv/bin/python -m sa.check $c 2>&1 | grep -v "instances -" | grep -v "^    path" | cut -c1-${COLS:-330}
done
git -C /repo worktree remove --force $WT; git -C /repo worktree prune
