"""Static analyser for willmcgugan/rich properties C01-C20 (pure stdlib; never imports rich)."""
