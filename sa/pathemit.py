"""Path-sensitive symbolic emission: enumerate the paths of a Segment-yielding function with a
symbolic store of linear forms and compute, per path, the cell width of what is emitted.

Compared with linewidth.Emit (path-insensitive, reaching-definition based) this handles code
that updates counters along the way (`remaining -= 1`), optional segments that depend on a flag
(`pad = Segment(..) if self.pad else None`) and closures (a nested generator that uses the
enclosing function's locals).  No solver: equalities are syntactic on linear forms, helped by
the zero-facts learnt from falsy branches (`if n:` false  =>  n == 0).
"""
from __future__ import annotations

import ast
from typing import Dict, List, Optional, Tuple

from .astutil import call_name, kwarg
from .index import AnalysisError, norm, short
from .linear import Lin, eq as lin_eq, show

MAX_PATHS = 512


def _add(a: Lin, b: Lin, k: int = 1) -> Lin:
    out = dict(a)
    for x, v in b.items():
        out[x] = out.get(x, 0) + k * v
        if out[x] == 0:
            del out[x]
    return out


class Val:
    def __init__(self, kind: str, form: Optional[Lin] = None, extra=None):
        self.kind, self.form, self.extra = kind, form, extra  # int | seg | none | lines | line | str | opaque | tuple | segs

    def __repr__(self):
        return f"{self.kind}:{show(self.form) if self.form is not None else self.extra}"


class State:
    def __init__(self):
        self.store: Dict[str, Val] = {}
        self.cur: Lin = {}
        self.lines: List[Tuple[Lin, int]] = []
        self.conds: List[str] = []
        self.zero: List[Lin] = []
        self.returned = False
        self.problems: List[Tuple[int, str]] = []

    def fork(self) -> "State":
        s = State()
        s.store = dict(self.store)
        s.cur = dict(self.cur)
        s.lines = list(self.lines)
        s.conds = list(self.conds)
        s.zero = list(self.zero)
        s.returned = self.returned
        s.problems = list(self.problems)
        return s

    def equal(self, a: Lin, b: Lin) -> bool:
        """a == b given the zero facts of this path: (a - b) lies in the linear span of the zero forms."""
        from fractions import Fraction

        d = _add(a, b, -1)
        if not d:
            return True
        if not self.zero:
            return False
        atoms = sorted({k for z in self.zero for k in z} | set(d))
        rows = [[Fraction(z.get(k, 0)) for k in atoms] for z in self.zero]
        target = [Fraction(d.get(k, 0)) for k in atoms]
        # Gaussian elimination of the rows, reducing the target alongside
        piv_rows = []
        for col in range(len(atoms)):
            pr = None
            for r in rows:
                if r[col] != 0 and all(r is not p for p, _c in piv_rows):
                    pr = r
                    break
            if pr is None:
                continue
            piv_rows.append((pr, col))
            for r in rows:
                if r is not pr and r[col] != 0:
                    f_ = r[col] / pr[col]
                    for i in range(len(atoms)):
                        r[i] -= f_ * pr[i]
            if target[col] != 0:
                f_ = target[col] / pr[col]
                for i in range(len(atoms)):
                    target[i] -= f_ * pr[i]
        return all(x == 0 for x in target)


class PathEmit:
    def __init__(self, f, inner: Optional[str] = None, options_param: str = "options"):
        """f: FuncInfo. inner: name of a nested generator whose body is the emission (its closure is f's locals)."""
        self.f = f
        self.mod = f.module
        self.opt = options_param
        self.W = f"{options_param}.max_width"
        self.inner = inner
        self.counter = 0

    def fresh(self, name: str, lineno: int) -> Lin:
        return {f"{name}#L{lineno}": 1}

    # -- running ---------------------------------------------------------------
    def run(self) -> List[State]:
        states = [State()]
        body = self.f.node.body
        if self.inner:
            inner_def = None
            pre = []
            for st in body:
                if isinstance(st, ast.FunctionDef) and st.name == self.inner:
                    inner_def = st
                    break
                pre.append(st)
            if inner_def is None:
                # the emission generator under another name, or moved out of the function: a nested generator of any name, else a
                # generator method of the class / function of the module that the host calls - its parameters are bound to the
                # call's arguments in the host's state
                pre = []
                for st in body:
                    if isinstance(st, ast.FunctionDef) and any(isinstance(x, (ast.Yield, ast.YieldFrom)) for x in ast.walk(st)):
                        inner_def = st
                        break
                    pre.append(st)
            binds: List[ast.stmt] = []
            if inner_def is None:
                pre = []
                for st in body:
                    found = None
                    for c in ast.walk(st):
                        if not isinstance(c, ast.Call):
                            continue
                        cand = None
                        if isinstance(c.func, ast.Attribute) and isinstance(c.func.value, ast.Name) and c.func.value.id == "self" and self.f.cls is not None:
                            cand = self.f.cls.method(c.func.attr)
                        elif isinstance(c.func, ast.Name) and c.func.id in self.mod.functions:
                            cand = self.mod.functions[c.func.id]
                        if cand is not None and cand is not self.f and any(isinstance(x, (ast.Yield, ast.YieldFrom)) for x in ast.walk(cand.node)):
                            found = (c, cand)
                            break
                    if found:
                        call, callee = found
                        params = [a.arg for a in callee.node.args.args]
                        if params and params[0] in ("self", "cls") and isinstance(call.func, ast.Attribute):
                            params = params[1:]
                        if len(call.args) > len(params) or any(isinstance(a, ast.Starred) for a in call.args):
                            raise AnalysisError(f"{self.f.fq}: cannot bind the arguments of {norm(call.func)}")
                        bound = dict(zip(params, call.args))
                        for k in call.keywords:
                            if k.arg is None:
                                raise AnalysisError(f"{self.f.fq}: cannot bind the arguments of {norm(call.func)}")
                            bound[k.arg] = k.value
                        for pn, av in bound.items():
                            if not (isinstance(av, ast.Name) and av.id == pn):
                                binds.append(ast.copy_location(ast.Assign(targets=[ast.Name(id=pn, ctx=ast.Store())], value=av, lineno=call.lineno), call))
                        inner_def = callee.node
                        break
                    pre.append(st)
            if inner_def is None:
                raise AnalysisError(f"nested function {self.inner} not found in {self.f.fq}")
            states = self.block(pre, states, emit=False)
            if binds:
                states = self.block(binds, states, emit=False)
            for s in states:
                s.returned = False
            states = self.block(inner_def.body, states, emit=True)
        else:
            states = self.block(body, states, emit=True)
        return states

    def block(self, stmts, states: List[State], emit: bool) -> List[State]:
        for st in stmts:
            nxt: List[State] = []
            for s in states:
                if s.returned:
                    nxt.append(s)
                else:
                    nxt += self.stmt(st, s, emit)
            states = nxt
            if len(states) > MAX_PATHS:
                raise AnalysisError(f"{self.f.fq}: too many paths")
        return states

    def stmt(self, st, s: State, emit: bool) -> List[State]:
        if isinstance(st, ast.Expr) and isinstance(st.value, ast.Constant):
            return [s]
        if isinstance(st, (ast.Assign, ast.AnnAssign)):
            if isinstance(st, ast.AnnAssign) and st.value is None:
                return [s]
            tg = st.targets[0] if isinstance(st, ast.Assign) else st.target
            out = []
            for v, s2 in self.ev(st.value, s):
                self.bind(tg, v, s2, st.lineno)
                out.append(s2)
            return out
        if isinstance(st, ast.AugAssign) and isinstance(st.target, ast.Name):
            out = []
            for v, s2 in self.ev(st.value, s):
                old = s2.store.get(st.target.id)
                if old is not None and old.kind == "int" and v.kind == "int" and isinstance(st.op, (ast.Add, ast.Sub)):
                    s2.store[st.target.id] = Val("int", _add(old.form, v.form, 1 if isinstance(st.op, ast.Add) else -1))
                else:
                    s2.store[st.target.id] = Val("int", self.fresh(st.target.id, st.lineno))
                out.append(s2)
            return out
        if isinstance(st, ast.If):
            out = []
            for truth, s2 in self.cond(st.test, s):
                out += self.block(st.body if truth else st.orelse, [s2], emit)
            return out
        if isinstance(st, ast.For):
            # one symbolic iteration; the body must emit whole lines
            it = st.iter
            if isinstance(it, ast.Call) and it.args and call_name(it) in ("loop_last", "loop_first", "loop_first_last", "enumerate", "range"):
                it_e = it.args[0]
            else:
                it_e = it
            out = []
            for v, s2 in self.ev(it_e, s):
                start = dict(s2.cur)
                tgt = st.target.elts[-1] if isinstance(st.target, ast.Tuple) else st.target
                if v.kind == "lines":
                    self.bind(tgt, Val("line", v.form), s2, st.lineno)
                else:
                    self.bind(tgt, Val("opaque", None, norm(tgt)), s2, st.lineno)
                if isinstance(st.target, ast.Tuple):
                    for e in st.target.elts[:-1]:
                        self.bind(e, Val("opaque", None, norm(e)), s2, st.lineno)
                res = self.block(st.body, [s2], emit)
                for r in res:
                    if emit and not r.equal(r.cur, start) and not r.returned:
                        r.problems.append((st.lineno, f"loop body emits a partial line of width {show(_add(r.cur, start, -1))}"))
                        r.cur = start
                    out.append(r)
            return out
        if isinstance(st, ast.Return):
            s.returned = True
            return [s]
        if isinstance(st, ast.Expr) and isinstance(st.value, ast.Yield) and emit:
            out = []
            if st.value.value is None:
                return [s]
            for v, s2 in self.ev(st.value.value, s):
                self.emit_val(v, s2, st)
                out.append(s2)
            return out
        if isinstance(st, ast.Expr) and isinstance(st.value, ast.YieldFrom) and emit:
            out = []
            for v, s2 in self.ev(st.value.value, s):
                if v.kind in ("line", "segs"):
                    s2.cur = _add(s2.cur, v.form)
                elif v.kind == "lines":
                    s2.problems.append((st.lineno, "whole lines yielded without line breaks"))
                else:
                    s2.problems.append((st.lineno, f"cannot determine what `yield from {short(st.value.value)}` emits"))
                out.append(s2)
            return out
        if isinstance(st, ast.FunctionDef):
            s.store[st.name] = Val("opaque", None, "def")
            return [s]
        return [s]  # other statements do not affect widths

    def bind(self, tgt, v: Val, s: State, lineno: int):
        if isinstance(tgt, ast.Name):
            s.store[tgt.id] = v
        elif isinstance(tgt, ast.Tuple):
            if v.kind == "tuple" and len(v.extra) == len(tgt.elts):
                for t, x in zip(tgt.elts, v.extra):
                    self.bind(t, x, s, lineno)
            else:
                for t in tgt.elts:
                    if isinstance(t, ast.Name):
                        s.store[t.id] = Val("int", self.fresh(t.id, lineno))

    def emit_val(self, v: Val, s: State, st):
        if v.kind == "seg":
            if v.extra == "nl":
                s.lines.append((s.cur, st.lineno))
                s.cur = {}
            else:
                s.cur = _add(s.cur, v.form)
        elif v.kind == "none":
            s.problems.append((st.lineno, "None is yielded"))
        else:
            s.problems.append((st.lineno, f"cannot determine the width of yielded `{short(st.value.value)}`"))

    # -- conditions --------------------------------------------------------------
    def cond(self, e, s: State) -> List[Tuple[bool, State]]:
        if isinstance(e, ast.BoolOp) and isinstance(e.op, ast.And):
            res = [(True, s)]
            for sub in e.values:
                nxt = []
                for t, st in res:
                    if not t:
                        nxt.append((False, st))
                    else:
                        nxt += self.cond(sub, st)
                res = nxt
            return res
        if isinstance(e, ast.BoolOp) and isinstance(e.op, ast.Or):
            res = [(False, s)]
            for sub in e.values:
                nxt = []
                for t, st in res:
                    if t:
                        nxt.append((True, st))
                    else:
                        nxt += self.cond(sub, st)
                res = nxt
            return res
        if isinstance(e, ast.UnaryOp) and isinstance(e.op, ast.Not):
            return [(not t, st) for t, st in self.cond(e.operand, s)]
        txt = norm(e)
        # a flag tested twice on one path keeps its value
        for c in s.conds:
            if c == txt:
                return [(True, s)]
            if c == "not " + txt:
                return [(False, s)]
        if isinstance(e, ast.Compare) and len(e.ops) == 1 and isinstance(e.ops[0], (ast.Is, ast.IsNot)) and norm(e.comparators[0]) == "None" and isinstance(e.left, ast.Name):
            v = s.store.get(e.left.id)
            if v is not None and v.kind == "none":
                return [(isinstance(e.ops[0], ast.Is), s)]
            if v is not None and v.kind in ("seg", "int", "line", "lines"):
                return [(isinstance(e.ops[0], ast.IsNot), s)]
        if isinstance(e, ast.Name):
            v = s.store.get(e.id)
            if v is not None and v.kind == "none":
                return [(False, s)]
            if v is not None and v.kind == "seg":
                # Segment truthiness = non-empty text: absent exactly when its width is 0
                a, b = s.fork(), s.fork()
                a.conds.append(txt)
                b.conds.append("not " + txt)
                b.zero.append(dict(v.form))
                return [(True, a), (False, b)]
            if v is not None and v.kind == "int":
                if not [k for k in v.form if k]:
                    return [(bool(v.form.get("", 0)), s)]  # a known constant: 1 if <cond> else 0 tested later on the same path
                a, b = s.fork(), s.fork()
                a.conds.append(txt)
                b.conds.append("not " + txt)
                b.zero.append(dict(v.form))
                return [(True, a), (False, b)]
        if isinstance(e, ast.BinOp) and isinstance(e.op, (ast.Add, ast.Sub)):
            # truthiness of an integer expression: false exactly when it is 0
            vals = self.ev(e, s)
            if len(vals) == 1 and vals[0][0].kind == "int":
                v, s1 = vals[0]
                if not [k for k in v.form if k]:
                    return [(bool(v.form.get("", 0)), s1)]
                a, b = s1.fork(), s1.fork()
                a.conds.append(txt)
                b.conds.append("not " + txt)
                b.zero.append(dict(v.form))
                return [(True, a), (False, b)]
        a, b = s.fork(), s.fork()
        a.conds.append(txt)
        b.conds.append("not " + txt)
        return [(True, a), (False, b)]

    # -- expressions ---------------------------------------------------------------
    def ev(self, e, s: State) -> List[Tuple[Val, State]]:
        if isinstance(e, ast.IfExp):
            out = []
            for t, s2 in self.cond(e.test, s):
                out += self.ev(e.body if t else e.orelse, s2)
            return out
        if isinstance(e, ast.Constant):
            if e.value is None:
                return [(Val("none"), s)]
            if isinstance(e.value, bool):
                return [(Val("opaque", None, str(e.value)), s)]
            if isinstance(e.value, int):
                return [(Val("int", {"": e.value} if e.value else {}), s)]
            if isinstance(e.value, str):
                return [(Val("str", {"": len(e.value)} if e.value else {}, e.value), s)]
        if isinstance(e, ast.Name):
            if e.id in s.store:
                return [(s.store[e.id], s)]
            return [(Val("int", {e.id: 1}), s)]
        if isinstance(e, ast.Attribute):
            if norm(e) == self.W:
                return [(Val("int", {self.W: 1}), s)]
            if isinstance(e.value, ast.Name) and e.value.id in ("box", "_box") and not e.attr.startswith("get_"):
                return [(Val("str", {"": 1}, None), s)]
            return [(Val("int", {norm(e): 1}), s)]
        if isinstance(e, ast.Tuple):
            res = [([], s)]
            for el in e.elts:
                nxt = []
                for items, s1 in res:
                    for v, s2 in self.ev(el, s1):
                        nxt.append((items + [v], s2))
                res = nxt
            return [(Val("tuple", None, items), s2) for items, s2 in res]
        if isinstance(e, ast.BinOp) and isinstance(e.op, (ast.Add, ast.Sub)):
            out = []
            for a, s1 in self.ev(e.left, s):
                for b, s2 in self.ev(e.right, s1):
                    if a.kind == "int" and b.kind == "int":
                        out.append((Val("int", _add(a.form, b.form, 1 if isinstance(e.op, ast.Add) else -1)), s2))
                    elif a.kind == "str" and b.kind == "str" and isinstance(e.op, ast.Add):
                        txt = (a.extra or "") + (b.extra or "") if a.extra is not None and b.extra is not None else None
                        out.append((Val("str", _add(a.form, b.form), txt), s2))
                    else:
                        out.append((Val("int", self.fresh("expr", e.lineno)), s2))
            return out
        if isinstance(e, ast.BinOp) and isinstance(e.op, ast.Mult):
            out = []
            for a, s1 in self.ev(e.left, s):
                for b, s2 in self.ev(e.right, s1):
                    x, y = (a, b) if a.kind == "str" else (b, a)
                    if x.kind == "str" and y.kind == "int" and x.form == {"": 1}:
                        out.append((Val("str", dict(y.form), None), s2))
                    elif a.kind == "int" and b.kind == "int" and set(a.form) <= {""}:
                        out.append((Val("int", {k: v * a.form.get("", 0) for k, v in b.form.items()}), s2))
                    elif a.kind == "int" and b.kind == "int" and set(b.form) <= {""}:
                        out.append((Val("int", {k: v * b.form.get("", 0) for k, v in a.form.items()}), s2))
                    else:
                        out.append((Val("int", self.fresh("expr", e.lineno)), s2))
            return out
        if isinstance(e, ast.BinOp):
            return [(Val("int", self.fresh("expr", e.lineno)), s)]
        if isinstance(e, ast.Call):
            fn = norm(e.func)
            if fn in ("Segment", "_Segment", "cls") and e.args:
                out = []
                for v, s2 in self.ev(e.args[0], s):
                    if v.kind == "str":
                        if v.extra is not None and v.extra.endswith("\n") and v.extra.count("\n") == 1:
                            out.append((Val("seg", {"": len(v.extra) - 1}, "nl+"), s2))
                        else:
                            out.append((Val("seg", v.form), s2))
                    else:
                        out.append((Val("opaque", None, short(e)), s2))
                return out
            if fn.endswith("Segment.line") or fn.endswith("_Segment.line"):
                return [(Val("seg", {}, "nl"), s)]
            if fn.endswith(".set_shape") and len(e.args) >= 2:
                out = []
                for v, s2 in self.ev(e.args[1], s):
                    out.append((Val("lines", v.form if v.kind == "int" else self.fresh("w", e.lineno)), s2))
                return out
            if fn.endswith(".get_shape"):
                return [(Val("tuple", None, [Val("int", self.fresh("shape_w", e.lineno)), Val("int", self.fresh("shape_h", e.lineno))]), s)]
            if fn in ("list", "iter", "tuple") and e.args:
                return self.ev(e.args[0], s)
            return [(Val("int", self.fresh(fn.split(".")[-1] or "call", e.lineno)), s)]
        return [(Val("int", self.fresh("expr", getattr(e, "lineno", 0))), s)]
