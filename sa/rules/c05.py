"""C05 Text editing operations keep characters and styles attached."""
from __future__ import annotations

import ast
from typing import Dict, List, Optional, Set, Tuple

from .. import cfg as cfgmod
from ..astutil import kwarg, alias_map, call_name, const_int, expand_alias, fstring_parts, is_attr_of
from ..index import AnalysisError, AnchorVanished, norm, short, walk_local
from ..linear import Lin, eq as lin_eq, show
from .common import get_cg

LEVEL = "other"
UNDECIDED = [
    "equality of the plain string with a reference string model over whole operation sequences",
    "cell-width dependent operations (truncate, align, wrap) beyond their length bookkeeping",
    "that each surviving character keeps its effective style through divide()/split() (only offset shifts and span order are decided)",
]
TRUSTED = ["CPython ast parser", "len(a + b) = len(a) + len(b); len(c * n) = n for a 1-character c; len(''.join(parts)) = sum of part lengths; slicing semantics", "list.append/extend/sort(stable)"]

TEXT_MOD = "text"


# ---------------------------------------------------------------------------
# symbolic lengths
# ---------------------------------------------------------------------------
class Sym:
    """Symbolic length evaluation inside one function (linear forms over opaque atoms)."""

    def __init__(self, f, g, rd):
        self.f, self.g, self.rd = f, g, rd
        self.side: List[str] = []  # undischarged side conditions
        self.len1: Set[str] = set()
        for n in walk_local(f.node):
            if isinstance(n, ast.Assert) and isinstance(n.test, ast.Compare) and norm(n.test.left).startswith("len(") and const_int(n.test.comparators[0]) == 1 and isinstance(n.test.ops[0], ast.Eq):
                self.len1.add(norm(n.test.left.args[0]))

    def _name(self, name: str, nid: int, as_len: bool, depth: int) -> Lin:
        defs = self.rd.get(nid, {}).get(name, set())
        if len(defs) == 1 and depth < 8:
            d = next(iter(defs))
            dn = self.g.nodes[d]
            st = dn.stmt
            if dn.kind == "stmt" and isinstance(st, ast.Assign) and len(st.targets) == 1 and isinstance(st.targets[0], ast.Name) and st.targets[0].id == name:
                return self.len_of(st.value, d, depth + 1) if as_len else self.int_of(st.value, d, depth + 1)
            if dn.kind == "stmt" and isinstance(st, ast.AnnAssign) and st.value is not None:
                return self.len_of(st.value, d, depth + 1) if as_len else self.int_of(st.value, d, depth + 1)
            tag = "param" if dn.kind == "entry" else f"L{dn.lineno}"
        else:
            tag = "+".join(sorted(f"L{self.g.nodes[d].lineno}" if self.g.nodes[d].kind != "entry" else "param" for d in defs)) or "?"
        return {(f"len({name}@{tag})" if as_len else f"{name}@{tag}"): 1}

    def len_of(self, e, nid: int, depth: int = 0) -> Lin:
        """Length of the str / Text valued expression e evaluated at CFG node nid."""
        if isinstance(e, ast.Constant) and isinstance(e.value, str):
            return {"": len(e.value)} if e.value else {}
        if isinstance(e, ast.JoinedStr):
            out: Lin = {}
            for v in e.values:
                if isinstance(v, ast.Constant):
                    out = _add(out, {"": len(v.value)} if v.value else {})
                elif isinstance(v, ast.FormattedValue) and v.format_spec is None and v.conversion == -1:
                    out = _add(out, self.len_of(v.value, nid, depth))
                else:
                    return {f"len({norm(e)})": 1}
            return out
        if isinstance(e, ast.BinOp) and isinstance(e.op, ast.Add):
            return _add(self.len_of(e.left, nid, depth), self.len_of(e.right, nid, depth))
        if isinstance(e, ast.BinOp) and isinstance(e.op, ast.Mult):
            s, k = (e.left, e.right)
            if isinstance(k, ast.Constant) and isinstance(k.value, str) or norm(k) in self.len1:
                s, k = k, s
            unit = None
            if isinstance(s, ast.Constant) and isinstance(s.value, str):
                unit = len(s.value)
            elif norm(s) in self.len1:
                unit = 1
            if unit is not None:
                nonneg = (isinstance(k, ast.Constant) and isinstance(k.value, int) and k.value >= 0) or (isinstance(k, ast.Call) and call_name(k) in ("len", "cell_len")) or (isinstance(k, ast.Call) and call_name(k) == "max" and any(isinstance(a_, ast.Constant) and a_.value == 0 for a_ in k.args))
                if not nonneg:
                    self.side.append(f"{norm(k)} >= 0 (for `{norm(e)}`: a negative repeat count gives the empty string, not a string of negative length)|NONNEG|{norm(k)}")
                return _scale(self.int_of(k, nid, depth), unit)
            return {f"len({norm(e)})": 1}
        if isinstance(e, ast.Attribute) and e.attr == "plain":
            return self.len_of(e.value, nid, depth)
        if isinstance(e, ast.Call) and isinstance(e.func, ast.Attribute) and e.func.attr == "join" and isinstance(e.func.value, ast.Constant) and e.func.value.value == "" and e.args and isinstance(e.args[0], ast.Attribute) and e.args[0].attr == "_text":
            return self.len_of(e.args[0].value, nid, depth)
        if isinstance(e, ast.Name):
            return self._name(e.id, nid, True, depth)
        if isinstance(e, ast.Subscript) and isinstance(e.slice, ast.Slice) and e.slice.lower is None and e.slice.step is None and e.slice.upper is not None:
            up = e.slice.upper
            if isinstance(up, ast.UnaryOp) and isinstance(up.op, ast.USub):
                k = self.int_of(up.operand, nid, depth)
                base = self.len_of(e.value, nid, depth)
                self.side.append(f"0 < {show(k)} <= {show(base)} (for `{norm(e)}`; a slice [:-0] is empty, [:-k] with k > len keeps characters)|{norm(e.value)}|{show(k)}")
                return _add(base, _scale(k, -1))
        return {f"len({norm(e)})": 1}

    def int_of(self, e, nid: int, depth: int = 0) -> Lin:
        if isinstance(e, ast.Constant) and isinstance(e.value, int) and not isinstance(e.value, bool):
            return {"": e.value} if e.value else {}
        if isinstance(e, ast.Call) and call_name(e) == "len" and len(e.args) == 1:
            return self.len_of(e.args[0], nid, depth)
        if isinstance(e, ast.Attribute) and e.attr == "_length":
            return self.len_of(e.value, nid, depth)
        if isinstance(e, ast.BinOp) and isinstance(e.op, ast.Add):
            return _add(self.int_of(e.left, nid, depth), self.int_of(e.right, nid, depth))
        if isinstance(e, ast.BinOp) and isinstance(e.op, ast.Sub):
            return _add(self.int_of(e.left, nid, depth), _scale(self.int_of(e.right, nid, depth), -1))
        if isinstance(e, ast.Name):
            return self._name(e.id, nid, False, depth)
        return {norm(e): 1}


def _add(a: Lin, b: Lin) -> Lin:
    out = dict(a)
    for k, v in b.items():
        out[k] = out.get(k, 0) + v
        if out[k] == 0:
            del out[k]
    return out


def _scale(a: Lin, c: int) -> Lin:
    return {k: v * c for k, v in a.items() if v * c}


def _canon(l: Lin) -> Lin:
    """Identify len(X@..) atoms of Text objects written differently: len(self@param) stays."""
    return {k: v for k, v in l.items() if v}


# ---------------------------------------------------------------------------
# store discovery
# ---------------------------------------------------------------------------
def _text_stores(f):
    """(kind, obj, expr, stmt) for every change of <obj>._text in f: kind in replace / append / extend."""
    aliases = alias_map(f.node)
    out = []
    for n in walk_local(f.node):
        if isinstance(n, ast.Assign):
            for t in n.targets:
                if isinstance(t, ast.Attribute) and t.attr == "_text":
                    out.append(("replace", norm(t.value), n.value, n))
                elif isinstance(t, ast.Subscript) and isinstance(t.value, ast.Attribute) and t.value.attr == "_text":
                    out.append(("replace", norm(t.value.value), n.value, n))
        elif isinstance(n, ast.Expr) and isinstance(n.value, ast.Call):
            fn = n.value.func
            if isinstance(fn, ast.Name) and fn.id in aliases:
                fn = expand_alias(fn, aliases)
            if isinstance(fn, ast.Attribute) and fn.attr in ("append", "extend", "insert") and isinstance(fn.value, ast.Attribute) and fn.value.attr == "_text":
                out.append((fn.attr, norm(fn.value.value), n.value.args[0] if n.value.args else None, n))
    return out


def _length_stores(f):
    out = []
    for n in walk_local(f.node):
        if isinstance(n, (ast.Assign, ast.AnnAssign)):
            tg = n.targets if isinstance(n, ast.Assign) else [n.target]
            for t in tg:
                if isinstance(t, ast.Attribute) and t.attr == "_length" and n.value is not None:
                    out.append(("set", norm(t.value), n.value, n))
        elif isinstance(n, ast.AugAssign) and isinstance(n.target, ast.Attribute) and n.target.attr == "_length":
            out.append(("add" if isinstance(n.op, ast.Add) else "sub" if isinstance(n.op, ast.Sub) else "other", norm(n.target.value), n.value, n))
    return out


def _text_functions(ctx):
    m = ctx.repo.mod(TEXT_MOD)
    seen = set()
    for f in m.functions.values():
        if id(f) in seen or m.in_main_guard(f.node):
            continue
        seen.add(id(f))
        yield f


def r5_0(ctx):
    ctx.rule("R5.0", "who-may-write: Text._text / _length / _spans are stored only inside rich/text.py (other modules go through the public API whose bookkeeping R5.1/R5.2 check)")
    n = 0
    for f in ctx.repo.all_functions():
        for x in walk_local(f.node):
            if isinstance(x, ast.Attribute) and x.attr in ("_text", "_length") and isinstance(x.ctx, ast.Store):
                n += 1
                ctx.check(f.module.short == TEXT_MOD, f.fq, short(f.module.parent_of.get(x, x)), f"{f.module.relpath}:{x.lineno}", f"{x.attr} stored inside text.py",
                          f"`{norm(x)}` is written outside rich/text.py: the length bookkeeping of Text cannot be kept consistent from there")
            if isinstance(x, ast.Attribute) and x.attr == "_text" and f.module.short != TEXT_MOD and isinstance(x.ctx, ast.Load):
                par = f.module.parent_of.get(x)
                if isinstance(par, ast.Attribute) and par.attr in ("append", "extend", "insert", "clear", "pop"):
                    ctx.violation(f.fq, norm(par), f"{f.module.relpath}:{x.lineno}", "Text._text mutated outside rich/text.py")
    ctx.floor(n, 10, "stores to _text/_length")


def r5_1(ctx):
    ctx.rule("R5.1", "length bookkeeping: every method of rich/text.py that changes a Text's fragments (_text) keeps `_length == len(''.join(_text))` - by storing the same expression it measures, measuring the plain text after the store, adding len(x) for the very x it appends, or accumulating both in step; slices that shorten the text need their side condition discharged by a dominating guard")
    n_methods = 0
    for f in _text_functions(ctx):
        ts, ls = _text_stores(f), _length_stores(f)
        if not ts and not ls:
            continue
        n_methods += 1
        g = cfgmod.build(f.node)
        rd = g.reaching_defs(weak=False)
        sym = Sym(f, g, rd)
        mod = f.module
        objs = sorted({o for _k, o, _e, _s in ts} | {o for _k, o, _e, _s in ls})
        for obj in objs:
            ots = [x for x in ts if x[1] == obj]
            ols = [x for x in ls if x[1] == obj]
            where0 = f"{mod.relpath}:{(ots or ols)[0][3].lineno}"

            def nid_of(st):
                ids = g.nodes_of(st)
                return ids[0] if ids else g.entry

            def elem_len(expr, nid) -> Optional[Lin]:
                """length of the fragment list expression `[E]` / E for append."""
                if isinstance(expr, ast.List) and len(expr.elts) == 1:
                    return sym.len_of(expr.elts[0], nid)
                return None

            # accumulator form: `_length = acc` with acc += ... in loops
            def _acc_name(v):
                """follow single-definition name aliases (total = offset) to an accumulator name."""
                seen = 0
                while isinstance(v, ast.Name) and not _is_accumulator(f, v.id) and seen < 4:
                    ds = [n_ for n_ in walk_local(f.node) if isinstance(n_, ast.Assign) and len(n_.targets) == 1 and norm(n_.targets[0]) == v.id]
                    if len(ds) != 1:
                        break
                    v = ds[0].value
                    seen += 1
                return v.id if isinstance(v, ast.Name) and _is_accumulator(f, v.id) else None

            acc_sets = [x for x in ols if x[0] == "set" and _acc_name(x[2]) is not None]
            handled_ts: Set[int] = set()
            handled_ls: Set[int] = set()
            for kind, _o, vexpr, st in acc_sets:
                acc = _acc_name(vexpr)
                ok, why, used = _check_accumulator(f, g, rd, sym, obj, acc, ots)
                handled_ls.add(id(st))
                handled_ts |= used
                ctx.check(ok, f.fq, short(st), f"{mod.relpath}:{st.lineno}", f"{obj}: every appended fragment is counted in `{acc}` (initialised to the current length) before `_length = {acc}`",
                          f"{obj}._length is set from the accumulator `{acc}` but {why}: len() and the characters drift apart")
            for kind, _o, expr, st in ots:
                if id(st) in handled_ts:
                    continue
                nid = nid_of(st)
                where = f"{mod.relpath}:{st.lineno}"
                sym.side = []
                if kind == "replace":
                    el = elem_len(expr, nid)
                    if el is None:
                        # `_text[:] = [..]` handled above; other shapes (e.g. = other._text) not understood
                        ctx.violation(f.fq, short(st), where, f"{obj}._text is replaced by `{norm(expr)}`, a form whose total length the checker cannot relate to _length")
                        continue
                    # a following length store on the same object with no text store in between
                    follow = [l for l in ols if id(l[3]) not in handled_ls and l[0] == "set" and _reaches_without(g, st, l[3], [t[3] for t in ots if t[3] is not st])]
                    if follow:
                        l = follow[0]
                        handled_ls.add(id(l[3]))
                        v = l[2]
                        lnid = nid_of(l[3])
                        if norm(v) in (f"len({obj}.plain)", f"len(''.join({obj}._text))") or (obj == "self" and norm(v) == "len(self.plain)"):
                            ctx.ok(where, f"{obj}: _length re-measured from the plain text after the store", f.fq)
                            continue
                        lv = sym.int_of(v, lnid)
                        ok = lin_eq(_canon(lv), _canon(el))
                        ctx.check(ok, f.fq, f"{short(st)} ; {short(l[3])}", where, f"{obj}: stored text and stored length are the same quantity ({show(el)})",
                                  f"{obj}._text holds a string of length `{show(el)}` but _length is set to `{show(lv)}`: len(text) != len(text.plain) (e.g. control characters are stripped from the text but still counted)")
                        continue
                    sub = [l for l in ols if id(l[3]) not in handled_ls and l[0] == "sub"]
                    if sub:
                        l = sub[0]
                        handled_ls.add(id(l[3]))
                        k = sym.int_of(l[2], nid_of(l[3]))
                        want = _add({f"len({obj}@param)" if obj == "self" else f"len({obj})": 1}, _scale(k, -1))
                        old = sym.len_of(ast.parse(f"{obj}.plain", mode="eval").body, nid)
                        ok = lin_eq(el, _add(old, _scale(k, -1)))
                        cond = list(sym.side)
                        undischarged = [c for c in cond if not _discharged(f, g, st, c)]
                        ctx.check(ok and not undischarged, f.fq, f"{short(st)} ; {short(l[3])}", where, f"{obj}: text shortened by exactly the amount subtracted from _length",
                                  f"{obj}._length is reduced by `{show(k)}` while the text becomes `{norm(expr)}`; this is only equal when {'; '.join(c.split('|')[0] for c in undischarged) or 'the forms agree'} - not guaranteed here (public argument, no dominating guard): e.g. right_crop(0) empties the text but keeps the length, right_crop(n > len) makes the length negative")
                        continue
                    # no length store: the new text must have the old length
                    old = sym.len_of(ast.parse(f"{obj}.plain", mode="eval").body, nid)
                    ok = lin_eq(el, old)
                    undischarged = [c for c in sym.side if not _discharged(f, g, st, c)]
                    ctx.check(ok and not undischarged, f.fq, short(st), where, f"{obj}: replacement text has the same length as before ({show(el)})",
                              f"{obj}._text is replaced by a string of length `{show(el)}` without updating _length (old length `{show(old)}`){'; unproved: ' + '; '.join(c.split('|')[0] for c in undischarged) if undischarged else ''}")
                elif kind in ("append", "extend"):
                    if kind == "extend":
                        el = sym.len_of(ast.parse(norm(expr.value) + ".plain", mode="eval").body, nid) if isinstance(expr, ast.Attribute) and expr.attr == "_text" else None
                    else:
                        el = sym.len_of(expr, nid)
                    adds = [l for l in ols if id(l[3]) not in handled_ls and l[0] == "add"]
                    others_ts = [t[3] for t in ots if t[3] is not st]
                    # the length update that belongs to this append lies on the same path, with no other text store in between
                    on_path = [l for l in adds if _reaches_without(g, st, l[3], others_ts) or _reaches_without(g, l[3], st, others_ts)]
                    same = [l for l in on_path if _same_block(mod, st, l[3])] or on_path
                    if not same and el is not None:
                        # `_length = <length read before the append> + n`
                        old_ = sym.len_of(ast.parse(f"{obj}.plain", mode="eval").body, nid)
                        for l in ols:
                            if id(l[3]) in handled_ls or l[0] != "set" or not (_reaches_without(g, st, l[3], others_ts) or _reaches_without(g, l[3], st, others_ts)):
                                continue
                            lv_ = sym.int_of(l[2], nid_of(l[3]))
                            if lin_eq(_canon(lv_), _canon(_add(old_, el))):
                                handled_ls.add(id(l[3]))
                                ctx.ok(where, f"{obj}: _length set to the old length plus the appended fragment's length ({show(el)})", f.fq)
                                same = None
                                break
                        if same is None:
                            continue
                    if not same and len(adds) == 1 and not any(l[0] == "set" for l in ols if id(l[3]) not in handled_ls):
                        same = adds
                    if not same or el is None:
                        if not adds:
                            ctx.violation(f.fq, short(st), where, f"a fragment is appended to {obj}._text but {obj}._length is not increased by its length in the same block")
                            continue
                        raise AnalysisError(f"{f.fq}: cannot pair `{short(st)}` with the update of {obj}._length that accounts for it")
                    l = same[0]
                    handled_ls.add(id(l[3]))
                    side_now = list(sym.side)
                    lv = sym.int_of(l[2], nid_of(l[3]))
                    ok = lin_eq(_canon(lv), _canon(el))
                    ctx.check(ok, f.fq, f"{short(st)} ; {short(l[3])}", where, f"{obj}: appended fragment and length increment are the same quantity ({show(el)})",
                              f"{obj}._text gains a fragment of length `{show(el)}` but _length grows by `{show(lv)}`: the length is taken from a different value than the text that is stored (e.g. measured before control codes are stripped)")
                    if ok:
                        und = [c for c in side_now if c.split("|")[1] == "NONNEG" and not _discharged(f, g, st, c)]
                        if und:
                            ctx.violation(f.fq, f"{short(st)} ; {short(l[3])}", where, f"{obj}._text gains `{norm(expr)}` and _length grows by `{show(lv)}`; the two agree only when {'; '.join(c.split('|')[0] for c in und)} - not guaranteed here (public argument, no dominating sign test): a negative count appends nothing but shrinks the length, len(text) != len(text.plain)")
            for l in ols:
                if id(l[3]) in handled_ls:
                    continue
                kind, _o, v, st = l
                where = f"{mod.relpath}:{st.lineno}"
                nid = nid_of(st)
                if kind == "set" and (norm(v) in (f"len({obj}.plain)",) or norm(v) == "len(self.plain)" and obj == "self"):
                    ctx.ok(where, f"{obj}: _length re-measured from the plain text", f.fq)
                    continue
                if kind == "set" and f.name == "__init__" and not ots:
                    continue
                ctx.violation(f.fq, short(st), where, f"{obj}._length is changed (`{short(st)}`) without a matching change of {obj}._text in this method")
    ctx.floor(n_methods, 9, "methods that store _text/_length")


def _acc_increments(f, name: str):
    """[(statement, increment expression)] for `name += E` and for the two-step form `t = name + E ... name = t`
    (t assigned once, in the same block, before the copy back)"""
    out = []
    for n in walk_local(f.node):
        if isinstance(n, ast.AugAssign) and isinstance(n.target, ast.Name) and n.target.id == name and isinstance(n.op, ast.Add):
            out.append((n, n.value))
        elif isinstance(n, ast.Assign) and len(n.targets) == 1 and isinstance(n.targets[0], ast.Name) and n.targets[0].id == name and isinstance(n.value, ast.Name):
            t = n.value.id
            block = f.module.parent_of.get(n)
            defs = [d for d in walk_local(f.node) if isinstance(d, ast.Assign) and len(d.targets) == 1 and norm(d.targets[0]) == t and f.module.parent_of.get(d) is block and d.lineno < n.lineno]
            if len(defs) >= 1:
                d = defs[-1]
                v = d.value
                if isinstance(v, ast.BinOp) and isinstance(v.op, ast.Add):
                    if norm(v.left) == name:
                        out.append((n, v.right))
                    elif norm(v.right) == name:
                        out.append((n, v.left))
    return out


def _is_accumulator(f, name: str) -> bool:
    return bool(_acc_increments(f, name))


def _check_accumulator(f, g, rd, sym: Sym, obj: str, acc: str, ots) -> Tuple[bool, str, Set[int]]:
    mod = f.module
    used: Set[int] = set()
    inc_stmts = {id(st_) for st_, _e in _acc_increments(f, acc)}
    inits = [n for n in walk_local(f.node) if isinstance(n, ast.Assign) and len(n.targets) == 1 and norm(n.targets[0]) == acc and id(n) not in inc_stmts]
    if len(inits) != 1:
        return False, f"`{acc}` is initialised {len(inits)} times", used
    init = inits[0].value
    init_ok = norm(init) in (f"len({obj})", f"{obj}._length") or (const_int(init) == 0 and _is_blank(f, obj))
    if not init_ok:
        return False, f"`{acc}` starts at `{norm(init)}`, not at the current length of {obj}", used
    class _Inc:
        def __init__(self, stmt, value):
            self.stmt, self.value = stmt, value
    incs = [_Inc(st_, e_) for st_, e_ in _acc_increments(f, acc)]
    for kind, _o, expr, st in ots:
        if kind not in ("append", "extend"):
            continue
        inc = [i for i in incs if _same_loop(mod, st, i.stmt, f.node)]
        if not inc:
            return False, f"`{short(st)}` adds text that is never added to `{acc}`", used
        nid = g.nodes_of(st)[0]
        if kind == "extend" and isinstance(expr, ast.Attribute) and expr.attr == "_text":
            el = sym.len_of(ast.parse(norm(expr.value) + ".plain", mode="eval").body, nid)
        else:
            el = sym.len_of(expr, nid)
        total: Lin = {}
        for i in inc:
            total = _add(total, sym.int_of(i.value, g.nodes_of(i.stmt)[0]))
        if not lin_eq(_canon(total), _canon(el)):
            return False, f"per iteration `{acc}` grows by `{show(total)}` while the appended fragment has length `{show(el)}`", used
        used.add(id(st))
    return True, "", used


def _is_blank(f, obj: str) -> bool:
    for n in walk_local(f.node):
        if isinstance(n, ast.Assign) and norm(n.targets[0]) == obj and isinstance(n.value, ast.Call) and norm(n.value.func).endswith("blank_copy"):
            return True
    return False


def _same_block(mod, a, b) -> bool:
    return mod.parent_of.get(a) is mod.parent_of.get(b)


def _same_loop(mod, a, b, stop) -> bool:
    def loop_of(x):
        cur = mod.parent_of.get(x)
        while cur is not None and cur is not stop:
            if isinstance(cur, (ast.For, ast.While)):
                return cur
            cur = mod.parent_of.get(cur)
        return None
    return loop_of(a) is loop_of(b)


def _reaches_without(g, a, b, avoid_stmts) -> bool:
    an, bn = g.nodes_of(a), g.nodes_of(b)
    if not an or not bn:
        return False
    avoid = set()
    for s in avoid_stmts:
        avoid |= set(g.nodes_of(s))
    r = g.reach(an, avoid=avoid)
    return any(x in r for x in bn)


def _discharged(f, g, st, cond: str) -> bool:
    """side condition `0 < k <= len(X)` for X[:-k]: discharged by a dominating X.endswith(<non-empty literal of length >= k>)."""
    try:
        _msg, base, k = cond.split("|")
    except ValueError:
        return False
    if base == "NONNEG":
        from ..astutil import inline as _inl0, single_defs as _sdf0
        from ..yieldpaths import canon_test as _ct0
        sd0 = _sdf0(f.node)
        kk = k.replace(" ", "")
        yes = {f"{kk}>0", f"{kk}>=0", f"{kk}>=1", f"0<{kk}", f"0<={kk}", f"1<={kk}"}
        no = {f"{kk}<=0", f"{kk}<0", f"{kk}<1", f"0>={kk}", f"0>{kk}"}
        for nid in g.nodes_of(st):
            for t0, v0 in g.branch_facts(nid):
                for cand in (t0, _inl0(t0, sd0)):
                    for atom, v in _ct0(cand, v0):
                        a = atom.replace(" ", "")
                        if (v is True and a in yes) or (v is False and a in no):
                            return True
        return False
    try:
        kval = int(k)
    except ValueError:
        return False
    if kval < 1:
        return False
    from ..astutil import inline as _inl, single_defs as _sdf
    from ..yieldpaths import canon_test as _ct
    sd = _sdf(f.node)
    try:
        base_c = norm(_inl(ast.parse(base, mode="eval").body, sd))
    except SyntaxError:
        base_c = base
    for nid in g.nodes_of(st):
        for t0, v0 in g.branch_facts(nid):
            for atom, v in _ct(_inl(t0, sd), v0):
                try:
                    t = ast.parse(atom, mode="eval").body
                except SyntaxError:
                    continue
                if v is True and isinstance(t, ast.Call) and isinstance(t.func, ast.Attribute) and t.func.attr == "endswith" and norm(t.func.value) in (base, base_c):
                    a = t.args[0] if t.args else None
                    if isinstance(a, ast.Constant) and isinstance(a.value, str) and len(a.value) >= kval:
                        return True
    return False


# ---------------------------------------------------------------------------
def r5_2(ctx):
    ctx.rule("R5.2", "spans move with the text: in pad/pad_left the offset added to every span equals the number of characters inserted before it; in append(Text)/append_text/join the shift is the length of the text BEFORE the append (read before _length is updated); append(str)/append_tokens place the new span at the old end")
    m = ctx.repo.mod(TEXT_MOD)
    n = 0
    from ..astutil import inline as _inl52, single_defs as _sdf52
    for name in ("pad", "pad_left"):
        f = m.fn(f"Text.{name}")
        cnt = f.params[1]
        sd52 = _sdf52(f.node)
        # delegation: pad may be pad_left + pad_right with the same count (pad_left is judged on its own)
        deleg = [c0 for c0 in walk_local(f.node) if isinstance(c0, ast.Call) and norm(c0.func) == "self.pad_left" and c0.args and norm(c0.args[0]) == cnt]
        if name == "pad" and deleg:
            n += 1
            ctx.ok(f.where, "pad delegates the left padding (and the span shift) to pad_left with the same count", f.fq)
            continue
        # every Span built from the fields of an old span (comprehension or loop over self._spans, here or in a same-class helper
        # that receives `count`) is (start + amount, end + amount, style)
        sites = []   # (Span call, (start, end, style) names, amount name, owner function)
        owners = [(f, cnt)]
        for c0 in walk_local(f.node):
            if isinstance(c0, ast.Call) and isinstance(c0.func, ast.Attribute) and isinstance(c0.func.value, ast.Name) and c0.func.value.id == "self" and f.cls is not None:
                h = f.cls.method(c0.func.attr)
                if h is not None and h is not f and len(c0.args) == 1 and norm(c0.args[0]) == cnt and len(h.params) == 2:
                    owners.append((h, h.params[1]))
        for q, amount in owners:
            for x in walk_local(q.node):
                tgt = None
                if isinstance(x, (ast.ListComp, ast.GeneratorExp)) and len(x.generators) == 1 and norm(x.generators[0].iter) == "self._spans" and not x.generators[0].ifs:
                    tgt, body_nodes = x.generators[0].target, [x.elt]
                elif isinstance(x, ast.For) and norm(x.iter) == "self._spans":
                    tgt, body_nodes = x.target, x.body
                if tgt is None or not (isinstance(tgt, ast.Tuple) and len(tgt.elts) == 3):
                    continue
                tv = [norm(t) for t in tgt.elts]
                for bn in body_nodes:
                    for c in ast.walk(bn):
                        if isinstance(c, ast.Call) and norm(c.func) in ("_Span", "Span") and len(c.args) == 3:
                            sites.append((c, tv, amount, q))
        ok = bool(sites)
        for c, tv, amount, q in sites:
            s_, e_ = c.args[0], c.args[1]
            good = norm(s_) in (f"{tv[0]} + {amount}", f"{amount} + {tv[0]}") and norm(e_) in (f"{tv[1]} + {amount}", f"{amount} + {tv[1]}") and norm(c.args[2]) == tv[2]
            n += 1
            ctx.check(good, f.fq, short(c), f"{m.relpath}:{c.lineno}", f"every span shifted by `{cnt}`, the number of characters inserted on the left",
                      f"{name}: spans are not all shifted by exactly `{cnt}` (the left padding): styles slide off their characters")
        comps = [(c, amount) for c, tv, amount, q in sites]
        # sign premise: `character * count` inserts max(count, 0) characters, so shifting by `count` is right only for count >= 0.
        # The shift must sit under a fact that excludes negative amounts (count > 0 / count >= 1 / not count <= 0), or the
        # amount must have been clamped with max(.., 0) - a bare truthiness test `if count:` lets negative counts through
        # (Lines.justify passes width - cell_len(line) < 0 for over-long lines with overflow="ignore").
        for c, amount in comps:
            hfn = f
            for q in m.functions.values():
                if q.cls is f.cls and any(x is c for x in walk_local(q.node)):
                    hfn = q
            g_ = cfgmod.build(hfn.node)
            st_ = c
            while not isinstance(st_, ast.stmt):
                st_ = m.parent_of[st_]
            facts_ = []
            for nid in g_.nodes_of(st_):
                facts_ += [(norm(t0), v0) for t0, v0 in g_.branch_facts(nid)]
            pos = {(f"not {amount} > 0", False), (f"{amount} > 0", True), (f"0 < {amount}", True), (f"{amount} >= 1", True), (f"1 <= {amount}", True), (f"{amount} <= 0", False), (f"{amount} < 1", False), (f"0 >= {amount}", False), (f"1 > {amount}", False)}
            clamped = any(isinstance(x, ast.Assign) and norm(x.targets[0]) == amount and norm(x.value) in (f"max({amount}, 0)", f"max(0, {amount})") for x in walk_local(hfn.node))
            if hfn is not f:
                # the shift lives in a helper: the facts that hold at the call `self.<helper>(count)` in the method count too
                gf = cfgmod.build(f.node)
                for c1 in walk_local(f.node):
                    if isinstance(c1, ast.Call) and isinstance(c1.func, ast.Attribute) and norm(c1.func.value) == "self" and c1.func.attr == hfn.node.name and len(c1.args) == 1 and norm(c1.args[0]) == cnt:
                        cs_ = c1
                        while not isinstance(cs_, ast.stmt):
                            cs_ = m.parent_of[cs_]
                        cf = set()
                        for nid in gf.nodes_of(cs_):
                            cf |= {(norm(t0), v0) for t0, v0 in gf.branch_facts(nid)}
                        posc = {(t.replace(amount, cnt) if False else t, v) for t, v in [(f"{cnt} > 0", True), (f"0 < {cnt}", True), (f"{cnt} >= 1", True), (f"1 <= {cnt}", True), (f"{cnt} <= 0", False), (f"{cnt} < 1", False)]}
                        if posc & cf:
                            clamped = True
                        else:
                            facts_ += sorted(cf)
            n += 1
            ctx.check(bool(pos & set(facts_)) or clamped, hfn.fq, short(st_), f"{m.relpath}:{st_.lineno}", f"the span shift runs only for `{amount}` > 0, where it equals the number of characters inserted",
                      f"{name}: spans are shifted by `{amount}` under the guard {[t for t, v in facts_] or 'none'}, which admits negative amounts: `character * {amount}` inserts nothing then, but every span moves left by |{amount}| - styles land on the wrong characters and Text.render runs out of its style stack (RuntimeError) for spans pushed below 0")
        # the left padding inserted is `character * count`
        okp = False
        for x in walk_local(f.node):
            if isinstance(x, ast.Assign) and norm(x.targets[0]) == "self.plain":
                v_ = _inl52(x.value, sd52)
                if isinstance(v_, ast.JoinedStr) and v_.values and isinstance(v_.values[0], ast.FormattedValue) and norm(v_.values[0].value) in (f"character * {cnt}", f"{cnt} * character"):
                    okp = True
                if isinstance(v_, ast.BinOp) and isinstance(v_.op, ast.Add) and norm(v_.left) in (f"character * {cnt}", f"{cnt} * character"):
                    okp = True
        ctx.check(ok and okp, f.fq, "left padding", f.where, "left padding is character * count", f"{name}: left padding is not `character * {cnt}` or spans are not shifted")
    pr = m.fn("Text.pad_right")
    ctx.check("_spans" not in norm(pr.node), pr.fq, "no span change", pr.where, "pad_right leaves spans alone", "pad_right changes spans although nothing is inserted before them")
    for name in ("append", "append_text"):
        f = m.fn(f"Text.{name}")
        g = cfgmod.build(f.node)
        rd = g.reaching_defs(weak=False)
        # shift variable used in _Span(start + V, end + V, style)
        gens = [x for x in walk_local(f.node) if isinstance(x, (ast.GeneratorExp, ast.ListComp)) and isinstance(x.elt, ast.Call) and norm(x.elt.func) in ("_Span", "Span") and "._spans" in norm(x.generators[0].iter)]
        for ge in gens:
            n += 1
            tv = [norm(t) for t in ge.generators[0].target.elts]
            s, e = ge.elt.args[0], ge.elt.args[1]
            shift = None
            if isinstance(s, ast.BinOp) and isinstance(s.op, ast.Add) and norm(s.left) == tv[0]:
                shift = s.right
            ok = shift is not None and norm(e) == f"{tv[1]} + {norm(shift)}" and norm(ge.elt.args[2]) == tv[2]
            detail = ""
            if ok and isinstance(shift, ast.Name):
                st = ge
                while not isinstance(st, ast.stmt):
                    st = m.parent_of[st]
                for nid in g.nodes_of(st):
                    for d in rd.get(nid, {}).get(shift.id, set()):
                        ds = g.nodes[d].stmt
                        v = getattr(ds, "value", None)
                        if v is None or norm(v) not in ("self._length", "len(self)"):
                            ok = False
                            detail = f"`{shift.id}` is `{norm(v) if v is not None else '?'}`"
                        else:
                            # no `self._length +=` between that read and here
                            incs = [x.id for x in g.stmt_nodes() if x.kind == "stmt" and isinstance(x.stmt, ast.AugAssign) and norm(x.stmt.target) == "self._length"]
                            r = g.reach([d], avoid=set())
                            before = [i for i in incs if i in g.reach([d]) and nid in g.reach([i])]
                            if before:
                                ok = False
                                detail = "the length is read after it was already increased"
            elif ok:
                ok = norm(shift) in ("self._length", "len(self)")
                if ok:
                    st = ge
                    while not isinstance(st, ast.stmt):
                        st = m.parent_of[st]
                    incs = [x for x in walk_local(f.node) if isinstance(x, ast.AugAssign) and norm(x.target) == "self._length" and x.lineno < st.lineno and _same_block(m, x, st)]
                    ok = not incs
            ctx.check(ok, f.fq, short(ge), f"{m.relpath}:{ge.lineno}", "appended spans shifted by the length before the append",
                      f"{name}: spans of the appended text are not shifted by the receiver's length before the append ({detail}): their styles land on the wrong characters")
    # append(str): span at (offset, offset + len(text)) with offset = len(self) read before _length +=
    f = m.fn("Text.append")
    g = cfgmod.build(f.node)
    for x in walk_local(f.node):
        if isinstance(x, ast.Call) and norm(x.func) == "Span" and len(x.args) == 3 and isinstance(x.args[0], ast.Name):
            off = x.args[0].id
            n += 1
            okd = any(isinstance(d, ast.Assign) and norm(d.targets[0]) == off and norm(d.value) in ("len(self)", "self._length") for d in walk_local(f.node))
            st = x
            while not isinstance(st, ast.stmt):
                st = m.parent_of[st]
            blk_parent = m.parent_of.get(st)
            # the += of _length in the same branch comes after the offset read
            ds = [d for d in walk_local(f.node) if isinstance(d, ast.Assign) and norm(d.targets[0]) == off]
            incs = [i for i in walk_local(f.node) if isinstance(i, ast.AugAssign) and norm(i.target) == "self._length"]
            order_ok = all(not (i.lineno < d.lineno and _same_block(m, i, d)) for d in ds for i in incs)
            ctx.check(okd and order_ok and isinstance(x.args[1], ast.BinOp) and norm(x.args[1].left) == off, f.fq, short(x), f"{m.relpath}:{x.lineno}", "new span starts at the old end of the text",
                      "append(str): the span for the appended text does not start at the length the text had before the append")
    # join: offset accumulates len(text) per piece
    j = m.fn("Text.join")
    from ..astutil import inline as _inl, single_defs as _sdf
    jsd = _sdf(j.node)
    jal = alias_map(j.node)
    loops_j = [lp for lp in walk_local(j.node) if isinstance(lp, ast.For) and "iter_text" in norm(lp.iter) and isinstance(lp.target, ast.Name)]
    ok = len(loops_j) == 1
    okinc = False
    if ok:
        lp = loops_j[0]
        piece = lp.target.id
        spans_ = [c for c in ast.walk(lp) if isinstance(c, ast.Call) and norm(expand_alias(c.func, jal)) in ("Span", "_Span") and len(c.args) == 3]
        accs = {norm(c.args[0]) for c in spans_ if isinstance(c.args[0], ast.Name)} | {norm(c.args[0].left) for c in spans_ if isinstance(c.args[0], ast.BinOp) and isinstance(c.args[0].op, ast.Add)}
        acc = next(iter(accs)) if len(accs) == 1 else None
        shifted = base = False
        for c in spans_:
            a0, a1, a2 = c.args
            if isinstance(a0, ast.BinOp):
                # a span of the piece, shifted: (acc + start, acc + end, style) with (start, end, style) from iterating piece._spans
                src_loops = [x for x in ast.walk(lp) if isinstance(x, (ast.For, ast.comprehension)) and norm(x.iter) == f"{piece}._spans" and isinstance(x.target, ast.Tuple) and len(x.target.elts) == 3]
                if src_loops and acc is not None:
                    tv = [norm(e) for e in src_loops[0].target.elts]
                    shifted = norm(a0) == f"{acc} + {tv[0]}" and norm(a1) == f"{acc} + {tv[1]}" and norm(a2) == tv[2]
            else:
                base = acc is not None and norm(a0) == acc and norm(_inl(a1, jsd, keep=(acc,))) == f"{acc} + len({piece})" and norm(a2) == f"{piece}.style"
        ok = shifted and base
        incs_j = _acc_increments(j, acc) if acc else []
        okinc = len(incs_j) == 1 and norm(incs_j[0][1]) == f"len({piece})" and incs_j[0][0] is lp.body[-1]
    if ok:
        # precedence: the piece's base style is the span placed FIRST, its own spans after it (later spans win in render)
        lp = loops_j[0]
        def first_line(pred):
            ls = [x.lineno for x in ast.walk(lp) if pred(x)]
            return min(ls) if ls else None
        base_line = first_line(lambda c: isinstance(c, ast.Call) and norm(expand_alias(c.func, jal)) in ("Span", "_Span") and len(c.args) == 3 and not isinstance(c.args[0], ast.BinOp))
        own_line = first_line(lambda c: isinstance(c, ast.Call) and norm(expand_alias(c.func, jal)) in ("Span", "_Span") and len(c.args) == 3 and isinstance(c.args[0], ast.BinOp))
        ctx.check(base_line is not None and own_line is not None and base_line < own_line, j.fq, "base style span before the piece's own spans", f"{m.relpath}:{lp.lineno}",
                  "the span for a piece's base style precedes the piece's own spans (own spans take precedence)",
                  "join appends the span carrying a piece's base style AFTER the piece's own spans: span order is precedence, so the base style overrides the piece's own styles (a blue word inside red text comes out red)")
    n += 1
    ctx.check(ok, j.fq, "join offsets", j.where, "join shifts each piece's spans by the accumulated length", "join: spans of a piece are not shifted by the total length of the pieces before it")
    ctx.check(okinc, j.fq, "offset += len(piece)", j.where, "offset advanced by the piece's length after the piece's spans were placed", "join advances the offset before placing the piece's spans (or not by the piece's length)")
    ctx.floor(n, 6, "span shift sites")


def r5_3(ctx):
    ctx.rule("R5.3", "style-only operations never touch characters: stylize, highlight_regex, highlight_words, copy_styles and the highlighters store only into _spans (transitively over the call graph: no store to _text/_length, no call of the plain setter or of a text-mutating method)")
    cg, _ = get_cg(ctx)
    m = ctx.repo.mod(TEXT_MOD)
    mutators: Set[str] = set()
    for f in _text_functions(ctx):
        if _text_stores(f) or _length_stores(f):
            mutators.add(f.fq)
    roots = ["text:Text.stylize", "text:Text.highlight_regex", "text:Text.highlight_words", "text:Text.copy_styles",
             "highlighter:Highlighter.__call__", "highlighter:RegexHighlighter.highlight", "highlighter:NullHighlighter.highlight"]
    n = 0
    for r in roots:
        f = ctx.repo.fn(r)
        n += 1
        reach = cg.reachable([f.fq])
        # Highlighter.__call__ builds a new Text(...) / copies: constructor is allowed (it creates, not edits)
        bad = sorted(x for x in reach if x in mutators and x not in ("text:Text.__init__", "text:Text.plain", "text:Text.copy", "text:Text.blank_copy"))
        # direct stores / plain setter use
        direct = []
        for fq in reach:
            ff = cg.funcs.get(fq)
            if ff is None or ff.module.short not in ("text", "highlighter"):
                continue
            if fq in ("text:Text.__init__", "text:Text.copy", "text:Text.blank_copy", "text:Text.plain"):
                continue
            for x in walk_local(ff.node):
                if isinstance(x, ast.Attribute) and isinstance(x.ctx, ast.Store) and x.attr in ("_text", "_length", "plain"):
                    direct.append(f"{fq}:{x.lineno}")
        ctx.check(not bad and not direct, f.fq, "no character mutation reachable", f.where, f"{r} reaches no store to characters ({len(reach)} functions in its closure)",
                  f"{r} can change the characters of the text: reaches {bad or direct}")
    ctx.floor(n, 6, "style-only entry points")


def r5_4(ctx):
    ctx.rule("R5.4", "span order is precedence and is preserved: every rewrite of a span list in text.py is an order-preserving map/filter of the old list or an in-order extend; divide() re-establishes the source order with a sort keyed by the position of the originating span; Text.render applies spans in list order")
    m = ctx.repo.mod(TEXT_MOD)
    n = 0
    divide_family = {g_.fq for g_ in _divide_family(ctx)}
    for f in _text_functions(ctx):
        for x in walk_local(f.node):
            # slice-assign rewrites:  X._spans[:] = [...]
            if isinstance(x, ast.Assign) and isinstance(x.targets[0], ast.Subscript) and isinstance(x.targets[0].value, ast.Attribute) and x.targets[0].value.attr == "_spans":
                n += 1
                v = x.value
                where = f"{m.relpath}:{x.lineno}"
                if isinstance(v, ast.Name) and not _built_in_order(f, v.id):
                    # a temporary bound once to the comprehension / copy that is stored: judge what it names
                    from ..astutil import single_defs as _sdf54
                    v = _sdf54(f.node).get(v.id, v)
                if isinstance(v, ast.Call) and norm(v.func) in ("list", "tuple") and len(v.args) == 1 and isinstance(v.args[0], ast.GeneratorExp):
                    v = ast.copy_location(ast.ListComp(elt=v.args[0].elt, generators=v.args[0].generators), v)
                if isinstance(v, ast.ListComp) and f.fq in divide_family and isinstance(v.generators[0].iter, (ast.Name, ast.Call)):
                    continue  # the per-line rebuild from the index-sorted pair list is judged by _divide_order below
                if isinstance(v, ast.ListComp):
                    it = v.generators[0].iter
                    from ..astutil import single_defs as _sdf54b
                    sd54 = _sdf54b(f.node)

                    def in_order(e, depth=0):
                        """'yes': the old span list in its own order behind in-order maps / filters / copies; 'no': reordered; else 'unknown'"""
                        if depth > 6:
                            return "unknown"
                        if isinstance(e, ast.Attribute) and e.attr == "_spans":
                            return "yes"
                        if isinstance(e, ast.Name) and e.id in sd54:
                            return in_order(sd54[e.id], depth + 1)
                        if isinstance(e, (ast.ListComp, ast.GeneratorExp)) and len(e.generators) == 1:
                            return in_order(e.generators[0].iter, depth + 1)
                        if isinstance(e, ast.Call) and norm(e.func) in ("list", "tuple", "iter") and len(e.args) == 1:
                            return in_order(e.args[0], depth + 1)
                        if isinstance(e, ast.Call) and norm(e.func) in ("sorted", "reversed") and e.args:
                            return "no" if in_order(e.args[0], depth + 1) != "unknown" else "unknown"
                        if isinstance(e, ast.Subscript) and isinstance(e.slice, ast.Slice):
                            if e.slice.step is not None and norm(e.slice.step) != "1":
                                return "no" if in_order(e.value, depth + 1) != "unknown" else "unknown"
                            return in_order(e.value, depth + 1)
                        return "unknown"
                    verdict54 = in_order(it) if len(v.generators) == 1 else "unknown"
                    if verdict54 == "unknown":
                        raise AnalysisError(f"{f.fq}: spans are rebuilt from `{norm(it)}`; cannot tell whether that is the old span list in its own order")
                    ctx.check(verdict54 == "yes", f.fq, short(x), where, "spans rebuilt by an in-order comprehension over the old list",
                              f"spans are rebuilt from `{norm(it)}`, which is not the old span list in its own order (reversed/sorted input changes which style wins)")
                elif isinstance(v, ast.Attribute) and v.attr == "_spans":
                    ctx.ok(where, "spans copied in order from another Text", f.fq)
                elif isinstance(v, ast.Name) and _built_in_order(f, v.id):
                    ctx.ok(where, f"`{v.id}` is filled by appends inside one in-order loop over the old span list (order-preserving map/filter)", f.fq)
                elif isinstance(v, ast.Call) and isinstance(v.func, ast.Name) and v.func.id in ("sorted", "reversed") or (isinstance(v, ast.Subscript) and isinstance(v.slice, ast.Slice) and v.slice.step is not None):
                    ctx.violation(f.fq, short(x), where, f"spans replaced by `{short(v)}`: a sorted / reversed copy changes which of two overlapping styles wins")
                else:
                    raise AnalysisError(f"{f.fq}: spans replaced by `{short(v)}`, whose order relative to the old list this rule cannot establish")
            if isinstance(x, ast.Call) and isinstance(x.func, ast.Attribute) and x.func.attr in ("sort", "reverse") and "_spans" in norm(x.func.value):
                n += 1
                where = f"{m.relpath}:{x.lineno}"
                if f.fq in divide_family and x.func.attr == "sort":
                    continue  # judged by _divide_order
                ctx.violation(f.fq, short(x), where, "a span list is sorted/reversed in place: precedence between overlapping styles changes")
            if isinstance(x, ast.Call) and call_name(x) in ("sorted", "reversed") and x.args and "_spans" in norm(x.args[0]) and f.fq not in divide_family:
                n += 1
                ctx.violation(f.fq, short(x), f"{m.relpath}:{x.lineno}", "a span list is consumed in sorted/reversed order")
    _divide_order(ctx, m.fn("Text.divide"))
    # render: style ids are list positions; combination in ascending id order
    rn = m.fn("Text.render")
    src = norm(rn.node)
    ok = "enumerate(self._spans, 1)" in src and "sorted(stack)" in src and "style_map[0] = get_style(self.style)" in src
    ctx.shape(ok, rn.fq, "render precedence", rn.where, "render combines base style then covering spans in list order", "Text.render no longer combines the base style and the covering spans in span-list order")
    ctx.floor(n, 5, "span list rewrites")


def _value_keyed_span_maps(fn_node):
    """Dict displays / comprehensions and subscript stores whose key is a span object (Span is a NamedTuple:
    value-equal spans share one key, so a per-span attribute stored this way is aliased between them)."""
    span_names = set()
    for x in ast.walk(fn_node):
        if isinstance(x, (ast.For, ast.comprehension)):
            it = x.iter
            names = [t for t in ast.walk(x.target) if isinstance(t, ast.Name)]
            if isinstance(it, ast.Attribute) and it.attr == "_spans":
                span_names |= {t.id for t in names}
            elif isinstance(it, ast.Call) and norm(it.func) == "enumerate" and it.args and isinstance(it.args[0], ast.Attribute) and it.args[0].attr == "_spans" and isinstance(x.target, ast.Tuple) and len(x.target.elts) == 2:
                span_names |= {t.id for t in ast.walk(x.target.elts[1]) if isinstance(t, ast.Name)}
    changed = True
    while changed:
        changed = False
        for x in ast.walk(fn_node):
            if isinstance(x, ast.Assign) and len(x.targets) == 1:
                t, v = x.targets[0], x.value
                new = set()
                if isinstance(t, ast.Name) and isinstance(v, ast.Call) and norm(v.func) in ("_Span", "Span"):
                    new.add(t.id)
                if isinstance(t, ast.Tuple) and isinstance(v, ast.Call) and isinstance(v.func, ast.Attribute) and v.func.attr == "split" and isinstance(v.func.value, ast.Name) and v.func.value.id in span_names:
                    new |= {e.id for e in t.elts if isinstance(e, ast.Name)}
                if isinstance(t, ast.Name) and isinstance(v, ast.Call) and norm(v.func) in ("pop", "span_stack.pop"):
                    new.add(t.id)
                if not new <= span_names:
                    span_names |= new
                    changed = True
    out = []
    for x in ast.walk(fn_node):
        if isinstance(x, ast.DictComp) and isinstance(x.key, ast.Name) and x.key.id in span_names:
            out.append(x)
        if isinstance(x, ast.Assign) and isinstance(x.targets[0], ast.Subscript) and isinstance(x.targets[0].slice, ast.Name) and x.targets[0].slice.id in span_names and isinstance(x.targets[0].value, ast.Name):
            out.append(x)
    return out


# tiny positive example for the zero-count rule (the defect this rule was written for)
_VALUE_KEYED_EXAMPLE = """
def divide(self):
    order = {span: span_index for span_index, span in enumerate(self._spans)}
    for span in self._spans:
        add_span, remaining_span = span.split(3)
        order[remaining_span] = order[span]
"""


def _built_in_order(f, name: str) -> bool:
    """local list `name` starts empty and is only appended to inside ONE `for x in <obj>._spans` loop (no nesting in other
    loops), each time with the loop variable or a Span built from its fields - an order-preserving map/filter"""
    aliases = alias_map(f.node)
    inits = [x for x in walk_local(f.node) if isinstance(x, (ast.Assign, ast.AnnAssign)) and norm(x.targets[0] if isinstance(x, ast.Assign) else x.target) == name]
    if len(inits) != 1 or inits[0].value is None or norm(inits[0].value) != "[]":
        return False
    loops = [x for x in walk_local(f.node) if isinstance(x, ast.For) and isinstance(x.iter, ast.Attribute) and x.iter.attr == "_spans" and (isinstance(x.target, ast.Name) or (isinstance(x.target, ast.Tuple) and all(isinstance(e_, ast.Name) for e_ in x.target.elts)))]
    apps = [c for c in walk_local(f.node) if isinstance(c, ast.Call) and norm(expand_alias(c.func, aliases)) in (f"{name}.append",)]
    others = [c for c in walk_local(f.node) if isinstance(c, ast.Call) and norm(expand_alias(c.func, aliases)).startswith(f"{name}.") and c not in apps]
    if len(loops) != 1 or not apps or others:
        return False
    lp = loops[0]
    inside = {id(x) for x in ast.walk(lp)}
    nested = [x for x in ast.walk(lp) if isinstance(x, (ast.For, ast.While)) and x is not lp]
    if nested or any(id(c) not in inside for c in apps):
        return False
    tvars = {lp.target.id} if isinstance(lp.target, ast.Name) else {e_.id for e_ in lp.target.elts}
    for c in apps:
        a = c.args[0] if len(c.args) == 1 else None
        if a is None:
            return False
        if isinstance(a, ast.Name) and a.id in tvars and isinstance(lp.target, ast.Name):
            continue
        if isinstance(a, ast.Call) and norm(expand_alias(a.func, aliases)) in ("Span", "_Span") and any(isinstance(x, ast.Name) and x.id in tvars for x in ast.walk(a)):
            continue
        return False
    return True


def _divide_family(ctx):
    """Text.divide and the same-class helpers it calls (a long function split in two is the same subject)."""
    m = ctx.repo.mod(TEXT_MOD)
    dv = m.fn("Text.divide")
    fam = [dv]
    for c in walk_local(dv.node):
        if isinstance(c, ast.Call) and isinstance(c.func, ast.Attribute) and isinstance(c.func.value, ast.Name) and c.func.value.id == "self":
            h = dv.cls.method(c.func.attr) if dv.cls is not None else None
            if h is not None and h not in fam and h.qualname not in ("Text.copy", "Text.blank_copy"):
                fam.append(h)
    return fam


def _divide_spans_fn(ctx):
    """the member of the divide family that distributes the spans (mentions self._spans beyond the emptiness test)"""
    fam = _divide_family(ctx)
    for f in fam:
        if any(isinstance(x, ast.Call) and norm(x.func) == "enumerate" and x.args and norm(x.args[0]) == "self._spans" for x in walk_local(f.node)) or any(isinstance(x, (ast.For, ast.comprehension)) and norm(x.iter) == "self._spans" for x in ast.walk(f.node)):
            return f
    return fam[0]


def _divide_order(ctx, f):
    """Text.divide: every line's spans come out in the order of the source list."""
    f = _divide_spans_fn(ctx)
    m = f.module
    ex = _value_keyed_span_maps(ast.parse(_VALUE_KEYED_EXAMPLE))
    if len(ex) != 2:
        raise AnalysisError("value-keyed span map detector no longer matches its own positive example")
    for x in _value_keyed_span_maps(f.node):
        ctx.violation(f.fq, short(x), f"{m.relpath}:{x.lineno}", f"`{short(x)}` stores a per-span attribute in a mapping keyed by the span's VALUE (Span is a NamedTuple): the remainder of a split span that is value-equal to a later span overwrites that span's position, so a conflicting span in between wins after divide()/wrap() - order must be carried by index or identity")
    ctx.ok(f.where, "no mapping keyed by span value in divide() (positive example still detected)", f.fq)
    # form C: spans visited in list order, appended directly to their lines - nothing to restore
    sorts = [x for x in walk_local(f.node) if isinstance(x, ast.Call) and (isinstance(x.func, ast.Attribute) and x.func.attr == "sort" or call_name(x) == "sorted")]
    outer = [x for x in walk_local(f.node) if isinstance(x, ast.For) and isinstance(x.iter, ast.Attribute) and x.iter.attr == "_spans"]
    if not sorts and outer:
        ctx.ok(f.where, "divide() visits self._spans in list order and appends clipped spans as it goes", f.fq)
        return
    # form A: (index, span) pairs
    stack = None
    for x in walk_local(f.node):
        if isinstance(x, ast.Assign) and len(x.targets) == 1 and isinstance(x.targets[0], ast.Name) and isinstance(x.value, ast.Call):
            inner = [c for c in ast.walk(x.value) if isinstance(c, ast.Call) and norm(c.func) == "enumerate" and c.args and norm(c.args[0]) == "self._spans"]
            if inner and norm(x.value.func) in ("sorted", "list"):
                stack = x.targets[0].id
    if stack is None:
        raise AnalysisError("Text.divide: cannot find how the source position of each span is carried (neither an in-order loop over self._spans nor a stack of enumerate(self._spans) pairs): the span-order clause cannot be decided")
    aliases = alias_map(f.node)
    idx = None
    for x in walk_local(f.node):
        if isinstance(x, ast.Assign) and isinstance(x.targets[0], ast.Tuple) and len(x.targets[0].elts) == 2 and isinstance(x.value, ast.Call) and norm(expand_alias(x.value.func, aliases)) == f"{stack}.pop":
            idx = norm(x.targets[0].elts[0])
    ctx.check(idx is not None, f.fq, f"{stack}.pop()", f.where, f"each popped entry is unpacked into its source index `{idx}` and the span", "divide(): entries popped from the span stack are not unpacked into (index, span)")
    if idx is None:
        return
    pushes = [x for x in walk_local(f.node) if isinstance(x, ast.Call) and norm(expand_alias(x.func, aliases)) == f"{stack}.append"]
    for c in pushes:
        ok = c.args and isinstance(c.args[0], ast.Tuple) and len(c.args[0].elts) == 2 and norm(c.args[0].elts[0]) == idx
        ctx.check(bool(ok), f.fq, short(c), f"{m.relpath}:{c.lineno}", "the remainder of a split span keeps the index of its source span", f"`{short(c)}` pushes the remainder of a split span without its source index `{idx}`: its position in the precedence order is lost")
    # per-line pair list
    line_lists = {}
    for x in walk_local(f.node):
        if isinstance(x, ast.Call) and x.args and isinstance(x.args[0], ast.Tuple) and len(x.args[0].elts) == 2:
            fn = norm(expand_alias(x.func, aliases))
            if fn.endswith(".append") and fn != f"{stack}.append":
                line_lists.setdefault(fn[: -len(".append")], []).append(x)
    ctx.check(len(line_lists) == 1, f.fq, "per-line (index, span) list", f.where, "clipped spans are collected per line together with their source index", "divide(): clipped spans are not collected as (index, span) pairs per line")
    if len(line_lists) != 1:
        return
    (L, apps), = line_lists.items()
    for c in apps:
        ctx.check(norm(c.args[0].elts[0]) == idx, f.fq, short(c), f"{m.relpath}:{c.lineno}", "clipped span paired with the index of its source span", f"`{short(c)}` pairs the clipped span with `{norm(c.args[0].elts[0])}`, not with the source index `{idx}`")
    srt = [x for x in walk_local(f.node) if isinstance(x, ast.Call) and isinstance(x.func, ast.Attribute) and x.func.attr == "sort" and norm(x.func.value) == L]
    srt += [x for x in walk_local(f.node) if isinstance(x, ast.Call) and norm(x.func) == "sorted" and x.args and norm(x.args[0]) == L]
    ok = len(srt) == 1
    if ok:
        key = next((k.value for k in srt[0].keywords if k.arg == "key"), None)
        rev = next((k.value for k in srt[0].keywords if k.arg == "reverse"), None)
        if isinstance(key, ast.Name):
            kname = key.id
            for a in walk_local(f.node):
                if isinstance(a, ast.Assign) and norm(a.targets[0]) == kname:
                    key = a.value
        kn = norm(key) if key is not None else None
        ok = (kn is None or kn == "itemgetter(0)" or (isinstance(key, ast.Lambda) and isinstance(key.body, ast.Subscript) and norm(key.body.slice) == "0" and norm(key.body.value) == key.args.args[0].arg)) and (rev is None or norm(rev) == "False")
    ctx.check(ok, f.fq, short(srt[0]) if srt else f"{L}.sort", f"{m.relpath}:{srt[0].lineno}" if srt else f.where, "each line's pairs are sorted ascending by source index",
              "divide(): the per-line span sort is not ascending by the position of the originating span in the source list: overlapping styles change precedence after wrapping/splitting")
    rebuild = [x for x in walk_local(f.node) if isinstance(x, ast.Assign) and isinstance(x.value, ast.ListComp) and "_spans" in norm(x.targets[0]) and isinstance(x.value.generators[0].iter, (ast.Name, ast.Call))]
    okr = False
    for x in rebuild:
        gen = x.value.generators[0]
        from_sorted_list = isinstance(gen.iter, ast.Name) and gen.iter.id == L and srt and isinstance(srt[0].func, ast.Attribute) and x.lineno > srt[0].lineno
        from_sorted_call = bool(srt) and gen.iter is srt[0]
        if (from_sorted_list or from_sorted_call) and len(x.value.generators) == 1 and not gen.ifs and isinstance(gen.target, ast.Tuple) and len(gen.target.elts) == 2 and norm(x.value.elt) == norm(gen.target.elts[1]):
            okr = True
    ctx.check(okr, f.fq, short(rebuild[0]) if rebuild else "line._spans[:] = ...", f"{m.relpath}:{rebuild[0].lineno}" if rebuild else f.where, "the line's spans are the sorted pairs' spans, in that order",
              "divide(): the line's span list is not rebuilt, in order and unfiltered, from the index-sorted pairs")


def r5_5(ctx):
    ctx.rule("R5.5", "control stripping at ingress: the str stored by Text.__init__ and by append(str) is the result of strip_control_codes applied to the argument, and the strip table removes exactly the listed code points")
    m = ctx.repo.mod(TEXT_MOD)
    init = m.fn("Text.__init__")
    g = cfgmod.build(init.node)
    rd = g.reaching_defs(weak=False)
    ok = False
    for k, o, e, st in _text_stores(init):
        if isinstance(e, ast.List) and len(e.elts) == 1:
            v = e.elts[0]
            if isinstance(v, ast.Name):
                for nid in g.nodes_of(st):
                    for d in rd.get(nid, {}).get(v.id, set()):
                        dv = getattr(g.nodes[d].stmt, "value", None)
                        if dv is not None and norm(dv) == f"strip_control_codes({init.params[1]})":
                            ok = True
            elif norm(v) == f"strip_control_codes({init.params[1]})":
                ok = True
    ctx.check(ok, init.fq, "_text = [strip_control_codes(text)]", init.where, "constructor stores the stripped argument", "Text.__init__ stores its argument without strip_control_codes")
    ap = m.fn("Text.append")
    src = norm(ap.node)
    g = cfgmod.build(ap.node)
    rd = g.reaching_defs(weak=False)
    ok = False
    for k, o, e, st in _text_stores(ap):
        if k == "append" and isinstance(e, ast.Call) and norm(e.func) == "strip_control_codes":
            ok = True
        if k == "append" and isinstance(e, ast.Name):
            for nid in g.nodes_of(st):
                defs = rd.get(nid, {}).get(e.id, set())
                if defs and all(norm(getattr(g.nodes[d].stmt, "value", None) or ast.Constant(value=0)).startswith("strip_control_codes(") for d in defs):
                    ok = True
    ctx.check(ok, ap.fq, "text = strip_control_codes(text); _text.append(text)", ap.where, "append(str) stores the stripped string", "append(str) stores a string that did not pass through strip_control_codes")
    cm = ctx.repo.mod("control")
    s = cm.fn("strip_control_codes")
    ctx.check("text.translate(_translate_table)" in norm(s.node), s.fq, "translate", s.where, "strip_control_codes is str.translate with the strip table", "strip_control_codes is no longer a translate over the strip table")
    # every return is the translation - or the argument itself on a path where the absence of EVERY stripped character is a fact
    try:
        codes = [int(e.value) for e in cm.global_assign("STRIP_CONTROL_CODES").elts]
    except Exception:
        raise AnalysisError("control.STRIP_CONTROL_CODES is not a literal list of ints")
    gs = cfgmod.build(s.node)
    par = s.params[0]
    for nd in gs.stmt_nodes():
        if nd.kind != "stmt" or not isinstance(nd.stmt, ast.Return) or nd.stmt.value is None:
            continue
        rv = nd.stmt.value
        if isinstance(rv, ast.Call) and isinstance(rv.func, ast.Attribute) and rv.func.attr == "translate":
            continue
        where_ = f"{cm.relpath}:{nd.lineno}"
        if norm(rv) != par:
            raise AnalysisError(f"strip_control_codes: `{short(nd.stmt)}` is neither the translation nor the argument")
        absent = set()
        for t0, v0 in gs.branch_facts(nd.id):
            conj = [t0] if not (isinstance(t0, ast.BoolOp) and isinstance(t0.op, ast.And) and v0) else list(t0.values)
            for t1 in conj:
                if v0 and isinstance(t1, ast.Compare) and len(t1.ops) == 1 and isinstance(t1.ops[0], ast.NotIn) and isinstance(t1.left, ast.Constant) and isinstance(t1.left.value, str) and len(t1.left.value) == 1 and norm(t1.comparators[0]) == par:
                    absent.add(ord(t1.left.value))
                if (not v0) and isinstance(t1, ast.Compare) and len(t1.ops) == 1 and isinstance(t1.ops[0], ast.In) and isinstance(t1.left, ast.Constant) and isinstance(t1.left.value, str) and len(t1.left.value) == 1 and norm(t1.comparators[0]) == par:
                    absent.add(ord(t1.left.value))
        missing = [c_ for c_ in codes if c_ not in absent]
        ctx.check(not missing, s.fq, short(nd.stmt), where_, "the argument is returned untouched only when it contains none of the stripped characters",
                  f"`{short(nd.stmt)}` returns the argument unstripped on a path that only excludes {sorted(chr(a) for a in absent)!r}: {[hex(c_) for c_ in missing]} (vertical tab / form feed ...) stay in the text, so Text('a\\x0bb').plain keeps a character the property says is stripped")
    tbl = cm.global_assign("_CONTROL_TRANSLATE")
    tbl_ok = norm(tbl) in ("{_codepoint: None for _codepoint in STRIP_CONTROL_CODES}", "str.maketrans('', '', ''.join(map(chr, STRIP_CONTROL_CODES)))", "dict.fromkeys(STRIP_CONTROL_CODES)", "dict.fromkeys(STRIP_CONTROL_CODES, None)")
    if not tbl_ok and isinstance(tbl, ast.DictComp) and len(tbl.generators) == 1 and norm(tbl.generators[0].iter) == "STRIP_CONTROL_CODES" and not tbl.generators[0].ifs and norm(tbl.key) == norm(tbl.generators[0].target) and isinstance(tbl.value, ast.Constant) and tbl.value.value is None:
        tbl_ok = True
    ctx.check(tbl_ok, "control:_CONTROL_TRANSLATE", norm(tbl), f"{cm.relpath}:{tbl.lineno}", "table deletes exactly STRIP_CONTROL_CODES", "the translate table does not delete exactly the listed control codes")


def r5_6(ctx):
    ctx.rule("R5.6", "tab stops (expand_tabs equals str.expandtabs per line): the column counter is congruent to the column modulo tab_size at every tab - it is advanced only in the tab branch, by the part's length and then by the spaces inserted, with spaces = tab_size - ((pos - 1) % tab_size) - 1; any other update of the counter must be a reset to 0 at the start of a line")
    f = ctx.repo.fn("text:Text.expand_tabs")
    m = f.module
    # the counter: the name used in the `% tab_size` expression
    mods = [x for x in walk_local(f.node) if isinstance(x, ast.BinOp) and isinstance(x.op, ast.Mod) and norm(x.right) == "tab_size"]
    if len(mods) != 1:
        raise AnalysisError(f"expand_tabs: expected one `% tab_size` expression, found {len(mods)}")
    md = mods[0]
    names = [n.id for n in ast.walk(md.left) if isinstance(n, ast.Name)]
    if len(names) != 1:
        raise AnalysisError("expand_tabs: cannot identify the column counter")
    pos = names[0]
    sp_assign = None
    cur = m.parent_of.get(md)
    while cur is not None and not isinstance(cur, ast.stmt):
        cur = m.parent_of.get(cur)
    sp_assign = cur
    ok = isinstance(sp_assign, ast.Assign) and norm(sp_assign.value) == f"tab_size - ({pos} - 1) % tab_size - 1"
    ctx.check(ok, f.fq, norm(sp_assign) if sp_assign is not None else "?", f"{m.relpath}:{md.lineno}", "spaces to the next tab stop = tab_size - ((pos - 1) % tab_size) - 1 (pos already counts the tab's own cell)",
              f"the number of spaces inserted for a tab is `{norm(sp_assign.value) if isinstance(sp_assign, ast.Assign) else '?'}`, not tab_size - (({pos} - 1) % tab_size) - 1")
    spaces = norm(sp_assign.targets[0]) if isinstance(sp_assign, ast.Assign) else "spaces"
    # the tab branch = statements that execute under the fact `<part>.plain.endswith('\\t')` (CFG branch facts, tests
    # canonicalised and temporaries inlined, so nested ifs, a flag variable or guard-continue are the same thing)
    from ..astutil import inline as _inl, single_defs as _sdf
    from ..yieldpaths import canon_test as _ct
    g6 = cfgmod.build(f.node)
    sd6 = _sdf(f.node)

    def in_tab_branch(stmt):
        for nid in g6.nodes_of(stmt):
            for t0, v0 in g6.branch_facts(nid):
                for atom, v in _ct(_inl(t0, sd6), v0):
                    if atom.endswith(".endswith('\\t')") and v is True:
                        return True
        return False
    updates = [x for x in walk_local(f.node) if (isinstance(x, ast.AugAssign) and norm(x.target) == pos) or (isinstance(x, ast.Assign) and any(norm(t) == pos for t in x.targets))]
    in_tab = {id(u) for u in updates if in_tab_branch(u)}
    if not any(in_tab_branch(x) for x in walk_local(f.node) if isinstance(x, ast.stmt)):
        raise AnalysisError("expand_tabs: tab branch not found")
    tab_if = f.node
    seq = [norm(u) for u in updates if id(u) in in_tab]
    ok = seq == [f"{pos} += len(part)", f"{pos} += {spaces}"]
    ctx.check(ok, f.fq, " ; ".join(seq), f"{m.relpath}:{tab_if.lineno}", "in the tab branch the counter advances by the part's length, then by the inserted spaces (so it is a multiple of tab_size after every tab)",
              f"in the tab branch the counter is updated by {seq}: after a tab it is no longer at a tab stop")
    for u in updates:
        if id(u) in in_tab:
            continue
        where = f"{m.relpath}:{u.lineno}"
        if isinstance(u, ast.Assign) and norm(u.value) == "0":
            continue  # initialisation / reset
        ctx.violation(f.fq, norm(u), where, f"`{norm(u)}` advances the column counter outside the tab branch without resetting it at the start of each line: the counter keeps counting across newlines, so tabs on later lines expand to the wrong number of spaces (differs from str.expandtabs)")
    ctx.check(any(isinstance(u, ast.Assign) and norm(u.value) == "0" for u in updates), f.fq, f"{pos} = 0", f.where, "counter starts at column 0", "the column counter is never initialised to 0")
    # the tab itself becomes one space, same length
    ok = any(isinstance(x, ast.Assign) and norm(x.targets[0]) == "part._text" and norm(_inl(x.value, sd6)) == "[part.plain[:-1] + ' ']" and in_tab_branch(x) for x in walk_local(f.node))
    ctx.check(ok, f.fq, "part._text = [part.plain[:-1] + ' ']", f.where, "the tab character itself is replaced by one space", "the tab character is not replaced by exactly one space")


def r5_7(ctx):
    ctx.rule("R5.7", "no shared span lists and no zero-length negative slices: a span list handed to a Text (spans= argument, store to _spans) is a fresh list, never another Text's own list; a slice `x[:-k]` with a non-constant k in the text modules is dominated by a test that k is positive (k == 0 would empty the string)")
    n = 0
    for ms in ("text", "containers", "highlighter", "markup", "ansi"):
        m = ctx.repo.mod(ms)
        seen = set()
        for f in m.functions.values():
            if id(f) in seen or m.in_main_guard(f.node):
                continue
            seen.add(id(f))
            g = None
            for x in walk_local(f.node):
                # (1) aliasing of span lists
                src = None
                if isinstance(x, ast.Call) and norm(x.func).split(".")[-1] in ("Text", "_Text", "cls"):
                    for k in x.keywords:
                        if k.arg == "spans":
                            src = k.value
                elif isinstance(x, ast.Assign) and any(isinstance(t, ast.Attribute) and t.attr == "_spans" for t in x.targets):
                    src = x.value
                if src is not None:
                    n += 1
                    shared = isinstance(src, ast.Attribute) and src.attr in ("_spans", "spans")
                    fresh_param = f.name == "__init__" and norm(src) in ("spans or []",)
                    ctx.check(not shared, f.fq, short(x), f"{m.relpath}:{x.lineno}", "span list is a fresh list" if not fresh_param else "constructor adopts the caller's list (callers must pass a fresh one)",
                              f"`{short(x)}` hands a Text the span list `{norm(src)}` of another Text: both objects then share one list, so styling or trimming one changes the styles of the other's characters")
                # (2) x[:-k]
                if isinstance(x, ast.Subscript) and isinstance(x.slice, ast.Slice) and x.slice.lower is None and isinstance(x.slice.upper, ast.UnaryOp) and isinstance(x.slice.upper.op, ast.USub):
                    k = x.slice.upper.operand
                    if isinstance(k, ast.Constant):
                        continue
                    n += 1
                    if g is None:
                        g = cfgmod.build(f.node)
                    st = x
                    while not isinstance(st, ast.stmt):
                        st = m.parent_of[st]
                    ok = False
                    kn = norm(k)
                    for nid in g.nodes_of(st):
                        for t, v in g.branch_facts(nid):
                            tt = norm(t)
                            if v is True and tt in (kn, f"{kn} > 0", f"{kn} >= 1", f"0 < {kn}"):
                                ok = True
                            if v is False and tt in (f"not {kn}", f"{kn} <= 0", f"{kn} == 0", f"{kn} < 1"):
                                ok = True
                    ctx.check(ok, f.fq, short(x), f"{m.relpath}:{x.lineno}", f"`{kn}` is known positive where `{short(x)}` is taken",
                              f"`{short(x)}` removes the last `{kn}` characters, but nothing guarantees `{kn}` > 0: for 0 the slice is `[:-0]` == `[:0]`, i.e. the whole string (and its styles) is removed instead of nothing")
    ctx.floor(n, 2, "span-list hand-overs / negative slices")


def r5_8(ctx):
    from .common import units_check, TEXT_PARAM_UNITS as TEXT_PARAM_UNITS_
    ctx.rule("R5.8", "units in Text's width operations: truncate(max_width) and align(width) measure the text in terminal cells (cell_len) wherever it is compared with or subtracted from the requested width - never by its character count")
    m = ctx.repo.mod(TEXT_MOD)
    units_check(ctx, m.fn("Text.truncate"), {"max_width"}, floor=2)
    units_check(ctx, m.fn("Text.align"), {"width"}, floor=1)
    # align() first limits the text to the requested width: every normal path of Text.align passes self.truncate(<width>) - without
    # it a text wider than the width keeps its length (the padding is then negative and skipped) and the aligned title / cell
    # overflows the space it was laid out for
    fa = m.fn("Text.align")
    ga = cfgmod.build(fa.node)
    wparam = fa.params[2] if len(fa.params) > 2 else "width"
    truncs = {nd.id for nd in ga.stmt_nodes() if nd.kind == "stmt" and nd.stmt is not None and any(
        isinstance(c_, ast.Call) and norm(c_.func) in ("self.truncate", "self.set_length") and c_.args and norm(c_.args[0]) == wparam for c_ in ast.walk(nd.stmt))}
    ctx.check(bool(truncs) and ga.exit not in ga.reach([ga.entry], avoid=truncs), fa.fq, f"self.truncate({wparam})", fa.where, "align() limits the text to the width on every path",
              f"Text.align can return without having called self.truncate({wparam}): a text wider than the requested width is neither cut nor padded and stays wider than the space it was aligned for")
    # the other methods that take a width in cells: whatever they compare it with must be a cell measure too (a `len(line) <= width`
    # short cut in wrap() skips the division of a line of double-width characters that does not fit)
    # (rstrip_end compares len(self) with its width: with wide characters it strips fewer blanks than it could and truncate() crops
    #  the rest, with zero-width characters it strips a blank that would have fitted - only trailing blanks either way, so the
    #  property holds and the comparison is not put under this rule)
    for mname in ("wrap",):
        fm = m.functions.get(f"Text.{mname}")
        if fm is not None:
            units_check(ctx, fm, set(TEXT_PARAM_UNITS_[mname]), floor=0)
    # units across calls between the text-shaping methods (set_length counts characters, truncate / align / wrap count cells)
    n_calls = 0
    from .common import units_calls_check
    for mname in ("set_length", "truncate", "align", "wrap", "rstrip_end", "right_crop", "fit", "pad", "remove_suffix"):
        fm = m.functions.get(f"Text.{mname}")
        if fm is not None:
            n_calls += units_calls_check(ctx, fm, mname)
    cm = ctx.repo.mod("containers")
    fj = cm.functions.get("Lines.justify")
    if fj is not None:
        units_check(ctx, fj, {"width"}, floor=2)
        n_calls += units_calls_check(ctx, fj, "justify")
    ctx.floor(n_calls, 4, "width arguments passed between text-shaping methods")


def r5_9(ctx):
    ctx.rule("R5.9", "indexing agrees with slicing: in Text.__getitem__ the integer branch (a) normalises a negative index before it is compared with span offsets (which are never negative) - by adding len(...) under a `< 0` test, by range(len(..))[i] or by a modulo - and (b) builds the one-character Text with the text's base style (style=self.style), as the slice branch does through divide()/blank_copy(); otherwise t[-1] loses every span and t[i] loses the base style although t[i:i+1] keeps both")
    th = ctx.repo.cls(f"{TEXT_MOD}:Text")
    f = th.method("__getitem__")
    if f is None:
        raise AnchorVanished("Text.__getitem__ not found")
    m = f.module
    fam = [f] + [q for k, q in m.functions.items() if k.startswith("Text.__getitem__.<locals>.")]
    # the span filter: a comprehension over self._spans whose condition compares a name with the span bounds
    site = None
    for q in fam:
        for x in walk_local(q.node):
            if isinstance(x, (ast.ListComp, ast.GeneratorExp)) and len(x.generators) == 1 and norm(x.generators[0].iter) == "self._spans" and x.generators[0].ifs:
                site = (q, x)
    loop_var = None
    if site is None:
        # shape B: an explicit loop  `for start, end, style in self._spans: if <test on offset>: acc.append(Span(0, 1, style))`
        class _Shim:
            pass
        for q in fam:
            for x in walk_local(q.node):
                if isinstance(x, ast.For) and norm(x.iter) == "self._spans" and len(x.body) == 1 and isinstance(x.body[0], ast.If) and not x.body[0].orelse:
                    apps = [c_ for c_ in ast.walk(x.body[0]) if isinstance(c_, ast.Call) and isinstance(c_.func, ast.Attribute) and c_.func.attr == "append" and isinstance(c_.func.value, ast.Name)]
                    if len(apps) == 1:
                        shim = _Shim()
                        shim.generators = [_Shim()]
                        shim.generators[0].target = x.target
                        shim.generators[0].ifs = [x.body[0].test]
                        shim.lineno = x.lineno
                        shim._src = x
                        site = (q, shim)
                        loop_var = apps[0].func.value.id
    if site is None:
        raise AnalysisError("Text.__getitem__: no span filter `[... for start, end, style in self._spans if ...offset...]` found; the integer branch is written in a form this rule does not read")
    q, comp = site
    tv = [norm(t) for t in comp.generators[0].target.elts] if isinstance(comp.generators[0].target, ast.Tuple) else []
    names = {n.id for c_ in comp.generators[0].ifs for n in ast.walk(c_) if isinstance(n, ast.Name)} - set(tv)
    if len(names) != 1:
        raise AnalysisError(f"Text.__getitem__: the span filter compares {sorted(names)} with the span bounds; expected one offset name")
    off = names.pop()
    # where does the offset come from?  follow parameter binding of the local helper back to the index parameter
    idx_param = f.params[1]
    chain_names = {off}
    if q is not f and off in q.params:
        for c_ in walk_local(f.node):
            if isinstance(c_, ast.Call) and isinstance(c_.func, ast.Name) and c_.func.id == q.node.name and c_.args:
                for n in ast.walk(c_.args[q.params.index(off)]):
                    if isinstance(n, ast.Name):
                        chain_names.add(n.id)
    normalised = False
    for qq in fam:
        g_ = cfgmod.build(qq.node)
        for nd in g_.stmt_nodes():
            if nd.kind != "stmt" or not isinstance(nd.stmt, (ast.Assign, ast.AugAssign)):
                continue
            tgt = nd.stmt.targets[0] if isinstance(nd.stmt, ast.Assign) else nd.stmt.target
            if not (isinstance(tgt, ast.Name) and tgt.id in chain_names | {idx_param}):
                continue
            v = norm(nd.stmt.value)
            if "len(" in v and isinstance(nd.stmt, ast.AugAssign) and isinstance(nd.stmt.op, ast.Add):
                facts = {(norm(t0), v0) for t0, v0 in g_.branch_facts(nd.id)}
                if any((f"{n_} < 0", True) in facts or (f"{n_} >= 0", False) in facts for n_ in chain_names | {idx_param}):
                    normalised = True
            if isinstance(nd.stmt, ast.Assign) and ("range(len(" in v or ("%" in v and "len(" in v) or ("len(" in v and "+" in v)):
                normalised = True
    where = f"{m.relpath}:{comp.lineno}"
    ctx.check(normalised, f.fq, short(comp) if loop_var is None else short(comp._src), where, "a negative index is normalised before the comparison with span offsets",
              f"the index is compared with span offsets as given (`{' and '.join(norm(c_) for c_ in comp.generators[0].ifs)}`): for a negative index no span ever matches, so Text('abc', spans=[Span(0, 3, 'red')])[-1] is an unstyled 'c' while [2] is red")
    # base style
    ctor = None
    for x in walk_local(q.node):
        if isinstance(x, ast.Call) and norm(x.func) in ("Text", "self.__class__", "type(self)"):
            argv = list(x.args) + [k.value for k in x.keywords]
            if loop_var is None and any(comp is a or any(comp is n for n in ast.walk(a)) for a in argv):
                ctor = x
            if loop_var is None and ctor is None:
                # the filter is held in a temporary:  covering = [...]; Text(.., spans=covering)
                temps = {norm(st_.targets[0]) for st_ in walk_local(q.node) if isinstance(st_, ast.Assign) and len(st_.targets) == 1 and isinstance(st_.targets[0], ast.Name) and st_.value is comp}
                if any(isinstance(a, ast.Name) and a.id in temps for a in argv):
                    ctor = x
            if loop_var is not None and any(isinstance(a, ast.Name) and a.id == loop_var for a in argv):
                ctor = x
    if ctor is None:
        raise AnalysisError("Text.__getitem__: the Text built from the span filter was not found")
    st = kwarg(ctor, "style") or (ctor.args[1] if len(ctor.args) > 1 else None)
    ctx.check(st is not None and norm(st) == "self.style", f.fq, short(ctor), f"{m.relpath}:{ctor.lineno}", "the one-character Text carries the base style",
              f"`{short(ctor)}` drops the text's base style: Text('abc', style='red')[1] is unstyled while [1:2] is red")


def r5_10(ctx):
    ctx.rule("R5.10", "no list is extended lazily from itself: in rich/text.py an `X.extend(<generator>)` / `X += <generator>` whose generator iterates the same attribute of a PARAMETER (`self._spans.extend(f(s) for s in text._spans)`) is a loop over a growing list when the parameter is the object itself (t.append(t) never terminates); the source must be materialised first - a list comprehension, list(...), a slice copy - or the call be guarded by an identity test")
    m = ctx.repo.mod(TEXT_MOD)
    n = 0
    for f in m.functions.values():
        if f.cls is None or f.cls.name != "Text" or m.in_main_guard(f.node):
            continue
        params = set(f.params[1:])
        for x in walk_local(f.node):
            if not (isinstance(x, ast.Call) and isinstance(x.func, ast.Attribute) and x.func.attr == "extend" and len(x.args) == 1 and isinstance(x.func.value, ast.Attribute) and norm(x.func.value.value) == "self"):
                continue
            attr = x.func.value.attr
            a = x.args[0]
            if isinstance(a, ast.Name):
                from ..astutil import single_defs as _sdf10
                a = _sdf10(f.node).get(a.id, a)
            if isinstance(a, ast.Call) and norm(a.func) in ("list", "tuple") and len(a.args) == 1 and isinstance(a.args[0], ast.GeneratorExp):
                a = ast.ListComp(elt=a.args[0].elt, generators=a.args[0].generators)
            if not isinstance(a, (ast.GeneratorExp, ast.ListComp)):
                continue
            it = a.generators[0].iter
            if not (isinstance(it, ast.Attribute) and it.attr == attr and isinstance(it.value, ast.Name) and it.value.id in params):
                continue
            n += 1
            where = f"{m.relpath}:{x.lineno}"
            if isinstance(a, ast.ListComp):
                ctx.ok(where, f"self.{attr} extended from a materialised list", f.fq)
                continue
            g_ = cfgmod.build(f.node)
            st = x
            while not isinstance(st, ast.stmt):
                st = m.parent_of[st]
            pn = it.value.id
            facts = set()
            for nid in g_.nodes_of(st):
                facts |= {(norm(t0), v0) for t0, v0 in g_.branch_facts(nid)}
            guarded = bool({(f"{pn} is self", False), (f"{pn} is not self", True), (f"self is {pn}", False), (f"self is not {pn}", True)} & facts)
            ctx.check(guarded, f.fq, short(x), where, f"`{pn}` is known not to be self",
                      f"`{short(x)}` extends self.{attr} from a generator over `{pn}.{attr}`: when `{pn}` is the text itself the list grows while it is being iterated and the call never returns (t.append(t))")
    ctx.floor(n, 1, "self-extensions from a parameter's list in Text")
    # the same aliasing, one level down: `self._text.append(text.plain)` takes the bound method of the CURRENT fragment list before the
    # argument is evaluated; if reading `.plain` REBINDS `_text` to a fresh list (instead of normalising it in place) and `text` is the
    # object itself, the fragment is appended to the abandoned list - the characters are lost while _length and the spans are updated
    th = ctx.repo.cls(f"{TEXT_MOD}:Text")
    getters = [g0 for g0 in th.methods.get("plain", []) if g0.is_property and len(g0.params) == 1]
    if not getters:
        raise AnchorVanished("Text.plain getter not found")
    gt = getters[0]
    rebinds = [x for x in walk_local(gt.node) if isinstance(x, (ast.Assign, ast.AnnAssign)) and any(
        isinstance(t_, ast.Attribute) and t_.attr == "_text" and norm(t_.value) == gt.params[0] for t_ in (x.targets if isinstance(x, ast.Assign) else [x.target]))]
    n_al = 0
    for f in m.functions.values():
        if f.cls is None or f.cls.name != "Text" or m.in_main_guard(f.node):
            continue
        params = set(f.params[1:])
        for x in walk_local(f.node):
            if not (isinstance(x, ast.Call) and isinstance(x.func, ast.Attribute) and isinstance(x.func.value, ast.Attribute) and x.func.value.attr == "_text" and norm(x.func.value.value) == "self"):
                continue
            reads = [y for a_ in x.args for y in ast.walk(a_) if isinstance(y, ast.Attribute) and y.attr == "plain" and isinstance(y.value, ast.Name) and y.value.id in params]
            if not reads:
                continue
            n_al += 1
            ctx.check(not rebinds, f.fq, short(x), f"{m.relpath}:{x.lineno}", "the plain getter normalises the fragment list in place: the list the bound method belongs to stays the text's list",
                      f"`{short(x)}` evaluates `{norm(reads[0])}` after the bound `{norm(x.func)}` was taken, and the `plain` getter rebinds `_text` (`{short(rebinds[0]) if rebinds else ''}`): when `{reads[0].value.id}` is the text itself (t.append(t) after a previous append) the fragment goes to the abandoned list and is lost, while the length and the spans are updated")
    ctx.floor(n_al, 1, "fragment appends that read a parameter's plain text")


def r5_11(ctx):
    ctx.rule("R5.11", "stores to another Text's `plain` keep every surviving character at its offset (the setter only trims spans at the END): the new value is the old plain with a same-length replacement (.replace(a, b) with len(a) == len(b), `prefix + old[len(prefix):]`), a right trim (.rstrip(), old[:k]), set_cell_size(old, n) or `old + suffix`; a value that drops characters from the front (.strip(), .lstrip(), old[k:]) or inserts before them leaves the spans where they were - every character then shows its neighbour's style")
    n = 0
    for m in ctx.repo.modules.values():
        for f in m.functions.values():
            if m.in_main_guard(f.node):
                continue
            for x in walk_local(f.node):
                if not (isinstance(x, ast.Assign) and len(x.targets) == 1 and isinstance(x.targets[0], ast.Attribute) and x.targets[0].attr == "plain"):
                    continue
                recv = norm(x.targets[0].value)
                if recv == "self":
                    continue  # Text's own methods: R5.1 / R5.2
                n += 1
                old = f"{recv}.plain"
                v = x.value
                # temporaries: `plain = line.plain` read before the store, `k = len(prefix)` - closed form of the stored value
                from ..astutil import inline as _inl511a, single_defs as _sdf511a
                sd_a = _sdf511a(f.node)
                keep_a = {k_ for k_, v_ in sd_a.items() if not (norm(v_) == old or (isinstance(v_, ast.Call) and norm(v_.func) == "len"))}
                v = _inl511a(v, {k_: v_ for k_, v_ in sd_a.items() if k_ not in keep_a})
                where = f"{m.relpath}:{x.lineno}"

                def same_pos(e) -> str:
                    """'ok' | 'bad:<why>' | 'unknown'"""
                    if norm(e) == old:
                        return "ok"
                    if isinstance(e, ast.Call) and isinstance(e.func, ast.Attribute) and norm(e.func.value) == old:
                        a = e.func.attr
                        if a == "rstrip":
                            return "ok"
                        if a in ("strip", "lstrip"):
                            return f"bad:.{a}() removes leading characters"
                        if a == "replace" and len(e.args) == 2 and all(isinstance(q, ast.Constant) and isinstance(q.value, str) for q in e.args):
                            return "ok" if len(e.args[0].value) == len(e.args[1].value) else f"bad:replace({e.args[0].value!r}, {e.args[1].value!r}) changes the length in the middle of the text"
                        if a in ("expandtabs", "title", "upper", "lower", "swapcase", "capitalize") and a != "expandtabs":
                            return "unknown"
                        return "unknown"
                    if isinstance(e, ast.Call) and norm(e.func) in ("set_cell_size",) and e.args and norm(e.args[0]) == old:
                        return "ok"
                    if isinstance(e, ast.Subscript) and norm(e.value) == old and isinstance(e.slice, ast.Slice):
                        if e.slice.lower is None and e.slice.step is None:
                            return "ok"
                        return "bad:the slice drops leading characters"
                    if isinstance(e, ast.BinOp) and isinstance(e.op, ast.Add):
                        if same_pos(e.left) == "ok":
                            return "ok"  # old + suffix
                        # prefix + old[len(prefix):]
                        r = e.right
                        if isinstance(r, ast.Subscript) and norm(r.value) == old and isinstance(r.slice, ast.Slice) and r.slice.upper is None and r.slice.lower is not None:
                            from ..astutil import inline as _inl511, single_defs as _sdf511
                            if norm(r.slice.lower) == f"len({norm(e.left)})" or norm(_inl511(r.slice.lower, {k_: v_ for k_, v_ in _sdf511(f.node).items() if k_ != norm(e.left)})) == f"len({norm(e.left)})":
                                return "ok"
                        if norm(e.right) == old or same_pos(e.right) == "ok":
                            return "bad:characters are inserted before the old text"
                    if isinstance(e, ast.JoinedStr):
                        return "unknown"
                    return "unknown"
                r = same_pos(v)
                if r == "ok":
                    ctx.ok(where, f"`{short(x)}` keeps characters at their offsets", f.fq)
                elif r.startswith("bad:"):
                    ctx.violation(f.fq, short(x), where, f"`{short(x)}`: {r[4:]}, but the spans of `{recv}` stay where they were (the plain setter only trims spans beyond the new end) - characters slide under their neighbours' styles; use the span-aware method instead")
                else:
                    raise AnalysisError(f"{f.fq}: `{short(x)}` stores a new plain text this rule cannot relate to the old one")
    ctx.floor(n, 4, "stores to another Text's plain")


def r5_12(ctx):
    ctx.rule("R5.12", "stylize keeps spans inside the text: the Span stored by Text.stylize ends at min(<length>, end) (or the store is dominated by a fact end <= length) - a span that overhangs the end silently covers every character appended later")
    from ..astutil import inline as _inl, single_defs as _sdf
    f = ctx.repo.fn(f"{TEXT_MOD}:Text.stylize")
    m = f.module
    sd = _sdf(f.node)
    spans = [c for c in walk_local(f.node) if isinstance(c, ast.Call) and norm(c.func) in ("Span", "_Span") and len(c.args) == 3]
    ctx.floor(len(spans), 1, "Span constructions in stylize")
    g = cfgmod.build(f.node)
    lens = ("len(self)", "self._length", "len(self.plain)")
    for c in spans:
        e = _inl(c.args[1], sd)
        where = f"{m.relpath}:{c.lineno}"
        ok = isinstance(e, ast.Call) and norm(e.func) == "min" and len(e.args) == 2 and any(norm(a) in lens for a in e.args)
        if not ok:
            st = c
            while not isinstance(st, ast.stmt):
                st = m.parent_of[st]
            facts = set()
            for nid in g.nodes_of(st):
                facts |= {(norm(_inl(t0, sd)), v0) for t0, v0 in g.branch_facts(nid)}
            en = norm(e)
            ok = any((f"{en} <= {l}", True) in facts or (f"{en} > {l}", False) in facts or (f"{l} >= {en}", True) in facts or (f"{l} < {en}", False) in facts for l in lens)
        ctx.check(ok, f.fq, short(c), where, "the stored span ends inside the text",
                  f"`{short(c)}` stores the end offset as given: stylize('red', 0, 10) on a 3-character text leaves a span (0, 10); characters appended afterwards fall inside it and turn red")


def r5_13(ctx):
    ctx.rule("R5.13", "every covering span takes part in the combination, in list order and as often as it occurs: in Text.render the sequence handed to Style.combine is built from sorted(stack) (the ids of the spans open at this offset, ascending) by an order- and multiplicity-preserving construction - a tuple / list / generator over it; de-duplicating it (dict.fromkeys, set) keeps the FIRST occurrence of a repeated style, so in [red]a[blue]b[red]c the later red no longer overrides blue")
    from ..astutil import inline as _inl, single_defs as _sdf
    m = ctx.repo.mod(TEXT_MOD)
    rn = m.fn("Text.render")
    fam = [rn] + [q for k, q in m.functions.items() if k.startswith("Text.render.<locals>.")]
    n = 0
    for q in fam:
        al = alias_map(q.node)
        al.update({k: v for k, v in alias_map(rn.node).items() if k not in al})
        sd = _sdf(q.node)
        for c in walk_local(q.node):
            if isinstance(c, ast.Call) and norm(expand_alias(c.func, al)) in ("Style.combine", "combine") and c.args:
                n += 1
                e = _inl(c.args[0], {k_: v_ for k_, v_ in sd.items() if not isinstance(v_, (ast.List, ast.Dict, ast.Set, ast.ListComp, ast.DictComp)) and k_ not in ("stack", "style_map")})
                where = f"{m.relpath}:{c.lineno}"
                dedup = [w for w in ast.walk(e) if isinstance(w, ast.Call) and norm(w.func) in ("dict.fromkeys", "set", "frozenset", "OrderedDict.fromkeys")]
                if dedup:
                    ctx.violation(q.fq, short(c), where, f"the styles handed to combine() pass through `{short(dedup[0])}`, which drops repeated styles (keeping the first occurrence): with tags [red]a[blue]b[red]c the text c is rendered blue - the later tag no longer takes precedence")
                    continue
                has_sorted = any(isinstance(w, ast.Call) and norm(w.func) == "sorted" and w.args and norm(w.args[0]) == "stack" for w in ast.walk(e))
                if not has_sorted:
                    direct = any((isinstance(w, ast.comprehension) and norm(w.iter) in ("stack", "reversed(stack)")) for w in ast.walk(e)) or any(isinstance(w, ast.Call) and norm(w.func) in ("tuple", "list", "reversed") and w.args and norm(w.args[0]) == "stack" for w in ast.walk(e))
                    if direct:
                        ctx.violation(q.fq, short(c), where, "the styles handed to combine() follow the order in which the spans were ENTERED (the stack), not their order in the span list: a span listed later but starting earlier loses precedence - [Span(2,6,'red'), Span(0,8,'blue')] renders offsets 2-6 red although blue was applied last; render() then disagrees with get_style_at_offset() and slicing changes colours")
                        continue
                    raise AnalysisError(f"Text.render: the argument of combine() (`{short(e)}`) is not built from sorted(stack); the precedence clause is not decided for this form")
                ctx.ok(where, "combine() receives every open span's style in ascending span order", q.fq)
    ctx.floor(n, 1, "Style.combine calls in Text.render")


def r5_14(ctx):
    ctx.rule("R5.14", "Text.split cuts where str.split cuts: the separator occurrences are the non-overlapping ones found left to right - re.finditer(re.escape(separator), text), or a str.find loop that resumes the search at <previous start> + len(separator); resuming at start + 1 also reports occurrences that overlap the previous one ('aaa'.split('aa') would get three cuts)")
    from ..astutil import inline as _inl, single_defs as _sdf
    m = ctx.repo.mod(TEXT_MOD)
    sp = m.fn("Text.split")
    fam = [sp] + [q for k, q in m.functions.items() if k.startswith("Text.split.<locals>.")]
    sep = sp.params[1]
    n = 0
    for q in fam:
        al = alias_map(q.node)
        sd = _sdf(q.node)
        for c in walk_local(q.node):
            if not isinstance(c, ast.Call):
                continue
            fn_ = norm(expand_alias(c.func, al))
            where = f"{m.relpath}:{c.lineno}"
            if fn_ in ("re.finditer", "finditer") and c.args:
                n += 1
                pat = norm(_inl(c.args[0], sd))
                ctx.check(pat in (f"re.escape({sep})", f"escape({sep})"), q.fq, short(c), where, "separator occurrences found by a regex scan of the escaped separator (non-overlapping)",
                          f"`{short(c)}` searches for `{pat}`, not for the escaped separator: regex metacharacters in the separator change where the text is cut")
            elif fn_.endswith(".find") and len(c.args) == 2 and norm(c.args[0]) == sep:
                n += 1
                nxt = _inl(c.args[1], sd)
                txt = norm(nxt).replace(" ", "")
                size_names = {k for k, v in sd.items() if norm(v) == f"len({sep})"} | {f"len({sep})"}
                ok = isinstance(nxt, ast.BinOp) and isinstance(nxt.op, ast.Add) and any(norm(side).replace(" ", "") in {s_.replace(" ", "") for s_ in size_names} for side in (nxt.left, nxt.right))
                ctx.check(ok, q.fq, short(c), where, "the search resumes after the whole separator",
                          f"`{short(c)}` resumes the search at `{norm(nxt)}`, not at the end of the previous occurrence (start + len({sep})): overlapping occurrences are reported and the text is cut inside a separator - Text('foo---bar').split('--') gives ['foo', '', 'bar']")
    ctx.floor(n, 1, "separator searches in Text.split")


def r5_15(ctx):
    ctx.rule("R5.15", "styles travel with appended text (the carrying statements exist): in rich/text.py a method that appends the characters of another Text (`self._text.append(<param>.plain)`) also extends self._spans with spans built from that parameter's `_spans` on every normal path through the append, and adds the parameter's base style as a span when it has one; a method that appends a string together with a style (append(str, style), append_tokens) adds a Span carrying that style under no other condition than `style is not None` / truthiness. Without them the characters arrive and their styles are silently dropped - R5.2 decides WHERE such spans are placed, this rule that they are placed at all")
    m = ctx.repo.mod(TEXT_MOD)
    n = 0
    for f in m.functions.values():
        if f.cls is None or f.cls.name != "Text" or m.in_main_guard(f.node) or ".<locals>." in f.qualname:
            continue
        al = alias_map(f.node)
        g = None
        params = set(f.params[1:])

        def calls(attr_chain):
            out = []
            for x in walk_local(f.node):
                if isinstance(x, ast.Call):
                    fn_ = expand_alias(x.func, al) if isinstance(x.func, ast.Name) else x.func
                    if norm(fn_) == attr_chain:
                        out.append(x)
            return out

        def stmt_of(x):
            while not isinstance(x, ast.stmt):
                x = m.parent_of[x]
            return x
        frag = calls("self._text.append")
        if not frag:
            continue
        from ..astutil import single_defs as _sdf515
        sd = _sdf515(f.node)
        for fa in frag:
            a0 = fa.args[0] if fa.args else None
            if a0 is None:
                continue
            if g is None:
                g = cfgmod.build(f.node)
                dom = g.dominators()
            fst = stmt_of(fa)
            fnodes = set(g.nodes_of(fst))
            ffacts = set()
            for nid in fnodes:
                ffacts |= {(norm(t), v) for t, v in g.branch_facts(nid)}
            where = f"{m.relpath}:{fa.lineno}"
            if isinstance(a0, ast.Attribute) and a0.attr == "plain" and isinstance(a0.value, ast.Name) and a0.value.id in params:
                # another Text is appended: its spans must come along
                src = a0.value.id
                n += 1
                ext = []
                staged = set()   # local lists that end up in self._spans through extend
                for c in calls("self._spans.extend"):
                    e = c.args[0] if c.args else None
                    if isinstance(e, ast.Name):
                        staged.add(e.id)
                    from_loop = False
                    if isinstance(e, ast.Name):
                        # a list filled span by span in a loop over <src>._spans
                        for lp in walk_local(f.node):
                            if isinstance(lp, ast.For) and any(isinstance(y, ast.Attribute) and y.attr == "_spans" and isinstance(y.value, ast.Name) and y.value.id == src for y in ast.walk(lp.iter)):
                                if any(isinstance(y, ast.Call) and norm(expand_alias(y.func, al) if isinstance(y.func, ast.Name) else y.func) == f"{e.id}.append" for b in lp.body for y in ast.walk(b)):
                                    from_loop = True
                    if isinstance(e, ast.Name) and e.id in sd:
                        e = sd[e.id]
                    if from_loop or (e is not None and any(isinstance(y, ast.Attribute) and y.attr == "_spans" and isinstance(y.value, ast.Name) and y.value.id == src for y in ast.walk(e))):
                        ext.append(c)
                okx = False
                for c in ext:
                    cnodes = set(g.nodes_of(stmt_of(c)))
                    cf = set()
                    for nid in cnodes:
                        cf |= {(norm(t), v) for t, v in g.branch_facts(nid)}
                    if cf <= ffacts:
                        okx = True
                ctx.check(okx, f.fq, short(fst), where, f"the spans of `{src}` are added wherever its characters are",
                          f"`{short(fst)}` appends the characters of `{src}` but no `self._spans.extend(..)` built from `{src}._spans` runs on the same paths: the appended text arrives without its styles")
                base = [c for c in calls("self._spans.append") if any(isinstance(y, ast.Attribute) and y.attr == "style" and isinstance(y.value, ast.Name) and y.value.id == src for y in ast.walk(c))]
                for lst in staged:
                    base += [c for c in calls(f"{lst}.append") if any(isinstance(y, ast.Attribute) and y.attr == "style" and isinstance(y.value, ast.Name) and y.value.id == src for y in ast.walk(c))]
                ctx.check(bool(base), f.fq, f"{short(fst)} (base style)", where, f"the base style of `{src}` is added as a span", f"`{short(fst)}`: the base style of `{src}` (`{src}.style`) is not carried over as a span: text appended from a Text with a base style loses it")
            else:
                # a plain string: if the method has a style for it, the style must be recorded
                style_names = [p_ for p_ in ("style",) if p_ in params or any(isinstance(y, ast.Name) and y.id == p_ and isinstance(y.ctx, ast.Store) for y in ast.walk(f.node))]
                if not style_names:
                    continue
                sn = style_names[0]
                n += 1
                spans = [c for c in calls("self._spans.append") if c.args and isinstance(c.args[0], ast.Call) and len(c.args[0].args) == 3 and norm(c.args[0].args[2]) == sn]
                oks = False
                why = "no span with that style is appended"
                for c in spans:
                    cf = set()
                    for nid in g.nodes_of(stmt_of(c)):
                        cf |= {(norm(t), v) for t, v in g.branch_facts(nid)}
                    extra = cf - ffacts
                    if all(e_ in ((f"{sn} is not None", True), (sn, True), (f"{sn} is None", False), (f"not {sn}", False)) for e_ in extra):
                        oks = True
                    else:
                        why = f"the span is only added under {sorted(t for t, _v in extra)}"
                ctx.check(oks, f.fq, f"{short(fst)} (style)", where, f"a Span with `{sn}` is added whenever a style is given",
                          f"`{short(fst)}` appends a string for which a style `{sn}` was given, but {why}: the characters are stored unstyled")
    ctx.floor(n, 4, "fragment appends with styles to carry in Text")


RULES = [r5_0, r5_1, r5_2, r5_3, r5_4, r5_5, r5_6, r5_7, r5_8, r5_9, r5_10, r5_11, r5_12, r5_13, r5_14, r5_15]
