"""C02 Word wrapping keeps every character, in order, with its own style (structural necessary conditions)."""
from __future__ import annotations

import ast
from typing import Dict, Optional, Set

from .. import cfg as cfgmod
from ..astutil import alias_map, call_name, expand_alias, kwarg
from ..index import AnalysisError, AnchorVanished, norm, short, walk_local
from .common import borrow

LEVEL = "other"
UNDECIDED = [
    "the break positions chosen by divide_line for all strings and widths (that every produced line fits, that words are only broken when too long given the indentation on their line)",
    "justification padding arithmetic (Lines.justify) and truncate() never cutting a non-whitespace character for overflow='fold'",
    "per-character style equality after wrapping (only span clipping order and offset units are decided)",
]
TRUSTED = ["CPython ast parser", "str slicing: consecutive slices text[a:b], text[b:c] of a partition [0, .., len] concatenate to text", "re.match(pattern, text, pos) anchors at pos"]


def _unpack_map(fn_node, source: str):
    """names bound by `a, b, c = <source>` -> index"""
    for x in walk_local(fn_node):
        if isinstance(x, ast.Assign) and isinstance(x.targets[0], ast.Tuple) and norm(x.value) == source:
            return {e.id: i for i, e in enumerate(x.targets[0].elts) if isinstance(e, ast.Name)}
    return {}


def r2_1(ctx):
    from ..astutil import inline, single_defs
    ctx.rule("R2.1", "Text.divide partitions the text: the pieces are text[start:end] over consecutive pairs of [0, *offsets, len(text)] of the plain string, so for in-range non-decreasing offsets they concatenate to the original - no character dropped, duplicated or reordered by the division itself (decided on the closed form of the expressions, temporaries inlined)")
    f = ctx.repo.fn("text:Text.divide")
    defs = single_defs(f.node)
    PLAIN = ("self.plain", "str(self)")

    def is_bounds(e):
        if not (isinstance(e, ast.List) and len(e.elts) == 3):
            return "boundaries are not [0, *offsets, len(text)]"
        a, b, c = e.elts
        if not (isinstance(a, ast.Constant) and a.value == 0):
            return "first boundary is not 0"
        if not (isinstance(b, ast.Starred) and norm(b.value) in ("list(offsets)", "offsets", "tuple(offsets)")):
            return f"middle boundaries `{norm(b)}` are not the given offsets in the given order"
        if not (isinstance(c, ast.Call) and norm(c.func) == "len" and len(c.args) == 1 and norm(c.args[0]) in PLAIN):
            return f"last boundary `{norm(c)}` is not the length of the plain text"
        return None

    def is_ranges(e):
        if isinstance(e, ast.Call) and norm(e.func) in ("list", "tuple") and len(e.args) == 1:
            e = e.args[0]
        if not (isinstance(e, ast.Call) and norm(e.func) == "zip" and len(e.args) == 2):
            return "ranges are not zip(bounds, bounds[1:])"
        a, b = e.args
        if not (isinstance(b, ast.Subscript) and isinstance(b.slice, ast.Slice) and norm(b.value) == norm(a) and b.slice.lower is not None and norm(b.slice.lower) == "1" and b.slice.upper is None and b.slice.step is None):
            return f"ranges pair `{short(a)}` with `{short(b)}`, not each boundary with its successor"
        return is_bounds(a)

    # the piece generator: <Text>(T[s:e], ...) for s, e in R
    found = None
    for x in ast.walk(f.node):
        if isinstance(x, (ast.GeneratorExp, ast.ListComp)) and len(x.generators) == 1 and isinstance(x.generators[0].target, ast.Tuple) and len(x.generators[0].target.elts) == 2:
            el = x.elt
            if isinstance(el, ast.Call) and el.args and isinstance(el.args[0], ast.Subscript) and isinstance(el.args[0].slice, ast.Slice):
                found = x
    if found is None:
        raise AnchorVanished("Text.divide: the comprehension building one Text per range was not found")
    gen = found.generators[0]
    tv = [norm(t) for t in gen.target.elts]
    sl = found.elt.args[0]
    why = is_ranges(inline(gen.iter, defs))
    ctx.check(why is None, f.fq, norm(inline(gen.iter, defs)), f.where, "ranges are the consecutive pairs of [0, *offsets, len(plain)]",
              f"Text.divide: {why}: the pieces are not the consecutive slices of the plain text between the given offsets (characters can be lost, repeated or reordered when wrapping)")
    ok = norm(inline(sl.value, defs)) in PLAIN and sl.slice.lower is not None and sl.slice.upper is not None and norm(sl.slice.lower) == tv[0] and norm(sl.slice.upper) == tv[1] and sl.slice.step is None and not gen.ifs
    ctx.check(ok, f.fq, short(found), f.where, "one piece per range, holding exactly that slice of the plain text", "the new lines are not built as plain[start:end] for every range in order")
    # span clipping is relative to the piece start (in divide itself or in the helper it hands the ranges to)
    from .c05 import _divide_spans_fn
    sf = _divide_spans_fn(ctx)
    if sf is f:
        line_loops = [x for x in walk_local(f.node) if isinstance(x, ast.For) and any(norm(inline(n, defs)) == norm(inline(gen.iter, defs)) for n in ast.walk(x.iter) if isinstance(n, ast.Name))]
    else:
        # the helper receives the ranges as an argument: find the parameter bound to them
        rng_params = set()
        for c in walk_local(f.node):
            if isinstance(c, ast.Call) and isinstance(c.func, ast.Attribute) and c.func.attr == sf.name:
                for i, a in enumerate(c.args):
                    if norm(inline(a, defs)) == norm(inline(gen.iter, defs)) and i + 1 < len(sf.params):
                        rng_params.add(sf.params[i + 1])
        line_loops = [x for x in walk_local(sf.node) if isinstance(x, ast.For) and any(isinstance(n, ast.Name) and n.id in rng_params for n in ast.walk(x.iter))]
    ok = False
    detail = "?"
    for lp in line_loops:
        starts = [norm(t.elts[0]) for t in ast.walk(lp.target) if isinstance(t, ast.Tuple) and len(t.elts) == 2 and all(isinstance(e, ast.Name) for e in t.elts)]
        um = {}
        for x in ast.walk(lp):
            if isinstance(x, ast.Assign) and isinstance(x.targets[0], ast.Tuple) and len(x.targets[0].elts) == 3 and isinstance(x.value, ast.Name):
                um = {e.id: i for i, e in enumerate(x.targets[0].elts) if isinstance(e, ast.Name)}
        # the clipped part of the span: first name unpacked from `<span>.split(<line end>)`
        parts = [norm(x.targets[0].elts[0]) for x in ast.walk(lp) if isinstance(x, ast.Assign) and isinstance(x.targets[0], ast.Tuple) and len(x.targets[0].elts) == 2 and isinstance(x.value, ast.Call) and isinstance(x.value.func, ast.Attribute) and x.value.func.attr == "split"]

        def field(e):
            """0/1/2 if e is the start/end/style of the clipped part (unpacked name or attribute access)"""
            if norm(e) in um:
                return um[norm(e)]
            if isinstance(e, ast.Attribute) and norm(e.value) in parts and e.attr in ("start", "end", "style"):
                return ("start", "end", "style").index(e.attr)
            return None
        for c in ast.walk(lp):
            if isinstance(c, ast.Call) and norm(expand_alias(c.func, alias_map(sf.node))) in ("Span", "_Span") and len(c.args) == 3:
                a0, a1, a2 = c.args
                detail = short(c)
                if (isinstance(a0, ast.BinOp) and isinstance(a0.op, ast.Sub) and isinstance(a1, ast.BinOp) and isinstance(a1.op, ast.Sub) and starts and norm(a0.right) == starts[-1] and norm(a1.right) == starts[-1]
                        and field(a0.left) == 0 and field(a1.left) == 1 and field(a2) == 2):
                    ok = True
    ctx.check(ok, f.fq, detail, f.where, "clipped spans are re-based to the start of their line", "clipped spans are not shifted by the start offset of their line: styles land on the wrong characters after wrapping")
    sp = ctx.repo.fn("text:Span.split")
    sd = single_defs(sp.node)
    um = _unpack_map(sp.node, "self")
    fields = ["start", "end", "style"]

    def canon(e):
        e = inline(e, sd)

        class T(ast.NodeTransformer):
            def visit_Name(self, node):
                if node.id in um:
                    return ast.Attribute(value=ast.Name(id="self", ctx=ast.Load()), attr=fields[um[node.id]], ctx=ast.Load())
                return node

            def visit_Attribute(self, node):
                node = self.generic_visit(node)
                if isinstance(node.value, ast.Call) and norm(node.value.func) == "Span" and len(node.value.args) == 3 and node.attr in fields:
                    return node.value.args[fields.index(node.attr)]
                return node

            def visit_Call(self, node):
                node = self.generic_visit(node)
                if norm(node.func) == "min" and len(node.args) == 2:
                    node.args = sorted(node.args, key=norm)
                return node
        return T().visit(e)
    rets = [r for r in walk_local(sp.node) if isinstance(r, ast.Return) and isinstance(r.value, ast.Tuple) and len(r.value.elts) == 2 and not (isinstance(r.value.elts[1], ast.Constant) and r.value.elts[1].value is None)]
    ok = len(rets) == 1
    if ok:
        a, b = (canon(e) for e in rets[0].value.elts)
        cut = ("min(offset, self.end)", "offset")
        ok = (isinstance(a, ast.Call) and isinstance(b, ast.Call) and len(a.args) == 3 and len(b.args) == 3
              and norm(a.args[0]) == "self.start" and norm(a.args[1]) in cut and norm(a.args[2]) == "self.style"
              and norm(b.args[0]) in cut and norm(b.args[1]) == "self.end" and norm(b.args[2]) == "self.style")
    ctx.check(ok, sp.fq, short(rets[0]) if rets else "Span.split", sp.where, "a span is cut at the offset into two abutting parts with the same style", "Span.split no longer cuts a span into two abutting parts (start..offset, offset..end, same style) at the offset")
    guards = [norm(x.test) for x in walk_local(sp.node) if isinstance(x, ast.If) and any(isinstance(b, ast.Return) for b in x.body)]
    ctx.check(any("offset < self.start" in g_ or "self.start > offset" in g_ for g_ in guards) and any("offset >= self.end" in g_ or "self.end <= offset" in g_ for g_ in guards), sp.fq, "; ".join(guards), sp.where,
              "offsets outside the span leave it whole", "Span.split no longer returns the span unsplit for offsets outside [start, end)")


def r2_2(ctx):
    ctx.rule("R2.2", "Text.wrap computes break offsets on the very string it then divides: for each line from split(allow_blank=True) the offsets come from divide_line(str(line), width, fold=...) and are applied with line.divide(offsets); tabs are expanded before measuring; every resulting line is collected in order")
    f = ctx.repo.fn("text:Text.wrap")
    m = f.module
    loops = [x for x in walk_local(f.node) if isinstance(x, ast.For) and "self.split(" in norm(x.iter)]
    ctx.check(len(loops) == 1 and "allow_blank=True" in norm(loops[0].iter), f.fq, "for line in self.split(allow_blank=True)", f.where, "every source line (incl. trailing blank) is wrapped", "wrap does not iterate self.split(allow_blank=True): blank lines or whole lines are lost")
    if not loops:
        return
    lp = loops[0]
    var = norm(lp.target)
    dl = [c for c in ast.walk(lp) if isinstance(c, ast.Call) and call_name(c) == "divide_line"]
    dv = [c for c in ast.walk(lp) if isinstance(c, ast.Call) and isinstance(c.func, ast.Attribute) and c.func.attr == "divide"]
    ok = len(dl) == 1 and len(dv) == 1 and dl[0].args and norm(dl[0].args[0]) in (f"str({var})", f"{var}.plain") and norm(dv[0].func.value) == var
    if ok:
        # the offsets passed to divide are the result of divide_line
        arg = dv[0].args[0]
        ok = arg is dl[0] or (isinstance(arg, ast.Name) and any(isinstance(a, ast.Assign) and norm(a.targets[0]) == arg.id and a.value is dl[0] for a in ast.walk(lp)))
    ctx.check(ok, f.fq, f"offsets = divide_line(str({var}), ...); {var}.divide(offsets)", f"{m.relpath}:{lp.lineno}", "offsets are computed on and applied to the same line",
              "the break offsets are computed on a different string than the Text that is divided: offsets no longer fall between the intended characters")
    if dl:
        w = dl[0].args[1] if len(dl[0].args) > 1 else kwarg(dl[0], "width")
        ctx.check(w is not None and norm(w) == "width", f.fq, short(dl[0]), f"{m.relpath}:{dl[0].lineno}", "break computation uses the requested width", "divide_line is not given the requested width")
        fo = kwarg(dl[0], "fold")
        if fo is not None:
            from ..astutil import inline as _inl, single_defs as _sdf
            fo = _inl(fo, _sdf(f.node), keep=("wrap_overflow",))
        ctx.check(fo is not None and norm(fo) == "wrap_overflow == 'fold'", f.fq, short(dl[0]), f"{m.relpath}:{dl[0].lineno}", "long words are folded exactly for overflow='fold'", "fold is not tied to overflow == 'fold'")
    # tabs are expanded (statement order in the loop body) before the break offsets are measured
    def stmt_index(pred):
        for i, b in enumerate(lp.body):
            if any(pred(c) for c in ast.walk(b)):
                return i
        return None
    i_tabs = stmt_index(lambda c: isinstance(c, ast.Call) and isinstance(c.func, ast.Attribute) and c.func.attr == "expand_tabs" and norm(c.func.value) == var)
    i_div = stmt_index(lambda c: c is dl[0]) if dl else None
    ctx.check(i_tabs is not None and i_div is not None and i_tabs < i_div, f.fq, "expand_tabs before divide_line", f"{m.relpath}:{lp.lineno}", "tabs are expanded before widths are measured", "tabs are not expanded before the break offsets are computed")
    # names: the divided lines of this paragraph, and the list that is returned
    nl = None
    for a in ast.walk(lp):
        if dv and isinstance(a, ast.Assign) and a.value is dv[0] and isinstance(a.targets[0], ast.Name):
            nl = a.targets[0].id
    rets = [r for r in walk_local(f.node) if isinstance(r, ast.Return)]
    out = norm(rets[0].value) if len(rets) == 1 and isinstance(rets[0].value, ast.Name) else None
    # every produced line is truncated to the width, inside the per-paragraph loop, before it is collected
    trunc_ok = False
    for b in lp.body:
        if isinstance(b, ast.For) and nl is not None and norm(b.iter) == nl:
            if any(isinstance(c, ast.Call) and isinstance(c.func, ast.Attribute) and c.func.attr == "truncate" and norm(c.func.value) == norm(b.target) and c.args and norm(c.args[0]) == "width" for c in ast.walk(b)):
                trunc_ok = True
    ext_idx = [i for i, b in enumerate(lp.body) if isinstance(b, ast.Expr) and isinstance(b.value, ast.Call) and norm(b.value.func) == f"{out}.extend" and b.value.args and norm(b.value.args[0]) == nl]
    ctx.check(trunc_ok and bool(ext_idx), f.fq, f"for line in {nl}: line.truncate(width, ...)", f"{m.relpath}:{lp.lineno}", "the lines of every paragraph are truncated to the width before being collected",
              "the final truncate-to-width pass does not run over the lines of every paragraph (it is outside the per-paragraph loop or missing): lines of earlier paragraphs keep over-long words / trailing cells and exceed the width")
    ctx.check(bool(ext_idx) and out is not None, f.fq, f"{out}.extend({nl})", f.where, "all produced lines are returned in order", "wrap does not collect every produced line, unconditionally and in order, into the list it returns")


def r2_3(ctx):
    from .c05 import r5_4
    borrow(ctx, r5_4, "R5.4", "R2.3", " [each output character keeps its effective style: divide() clips spans per line and restores their source order]")


def r2_4(ctx):
    ctx.rule("R2.4", "units in the break computation: divide_line compares cell widths with cell widths (cell_len of words vs width, running line_position) and appends character offsets (regex span starts advanced by len(piece)); it never mixes the two; chop_cells is used only for words wider than the width under fold, starting at the current line position")
    f = ctx.repo.fn("_wrap:divide_line")
    m = f.module
    aliases = alias_map(f.node)
    # the list of break offsets: whatever name the function returns
    out_names = {r_.value.id for r_ in walk_local(f.node) if isinstance(r_, ast.Return) and isinstance(r_.value, ast.Name)} or {"divides"}
    out_appends = {f"{n_}.append" for n_ in out_names}
    unit: Dict[str, str] = {"width": "cells"}

    def u(e) -> Optional[str]:
        if isinstance(e, ast.Constant):
            return "const"
        if isinstance(e, ast.Name):
            return unit.get(e.id)
        if isinstance(e, ast.Call):
            cn = norm(expand_alias(e.func, aliases))
            if cn in ("cell_len",):
                return "cells"
            if cn == "len":
                return "chars"
            return None
        if isinstance(e, ast.BinOp) and isinstance(e.op, (ast.Add, ast.Sub)):
            us = {u(e.left), u(e.right)} - {"const", None}
            return us.pop() if len(us) == 1 else ("mixed" if len(us) == 2 else None)
        return None

    # loop targets: for start, _end, word in words(text): start/_end are character offsets
    for x in walk_local(f.node):
        if isinstance(x, ast.For) and isinstance(x.iter, ast.Call) and call_name(x.iter) == "words" and isinstance(x.target, ast.Tuple) and len(x.target.elts) == 3:
            unit[norm(x.target.elts[0])] = "chars"
            unit[norm(x.target.elts[1])] = "chars"
    for _ in range(3):
        for x in walk_local(f.node):
            if isinstance(x, ast.Assign) and len(x.targets) == 1 and isinstance(x.targets[0], ast.Name):
                uu = u(x.value)
                if uu in ("cells", "chars") and unit.get(x.targets[0].id) in (None, uu):
                    unit[x.targets[0].id] = uu
    n = 0
    for x in walk_local(f.node):
        if isinstance(x, ast.Compare) and len(x.ops) == 1 and isinstance(x.ops[0], (ast.Lt, ast.Gt, ast.LtE, ast.GtE)):
            a, b = u(x.left), u(x.comparators[0])
            n += 1
            ctx.check(not ({a, b} == {"cells", "chars"} or "mixed" in (a, b)), f.fq, norm(x), f"{m.relpath}:{x.lineno}", f"comparison of {a or 'unitless'} with {b or 'unitless'}",
                      f"`{norm(x)}` compares a cell width with a character count: lines overflow (or break early) for double-width / zero-width characters")
        if isinstance(x, ast.Assign) and len(x.targets) == 1 and isinstance(x.targets[0], ast.Name) and unit.get(x.targets[0].id) in ("cells", "chars"):
            # one name, one unit: a running position kept in cells is never re-set from a character count (or the reverse)
            a, b = unit[x.targets[0].id], u(x.value)
            if b in ("cells", "chars", "mixed"):
                n += 1
                ctx.check(a == b, f.fq, norm(x), f"{m.relpath}:{x.lineno}", f"{x.targets[0].id} stays in {a}",
                          f"`{norm(x)}` sets `{x.targets[0].id}`, which is counted in {a} elsewhere in divide_line, from a quantity in {b}: after a line that starts with double-width characters the running position is too small and the next words overflow the width")
        if isinstance(x, ast.AugAssign) and isinstance(x.target, ast.Name):
            a, b = unit.get(x.target.id), u(x.value)
            n += 1
            ctx.check(not ({a, b} == {"cells", "chars"}), f.fq, norm(x), f"{m.relpath}:{x.lineno}", f"{x.target.id} ({a}) advanced by a {b or 'unitless'} quantity",
                      f"`{norm(x)}` advances a {a} quantity by a {b} quantity: break offsets must be counted in characters and line positions in cells")
        if isinstance(x, ast.Call) and norm(expand_alias(x.func, aliases)) in out_appends and x.args:
            n += 1
            ctx.check(u(x.args[0]) == "chars", f.fq, norm(x), f"{m.relpath}:{x.lineno}", "a character offset is recorded as break position",
                      f"`{norm(x)}` records `{norm(x.args[0])}` ({u(x.args[0]) or 'unknown unit'}) as a break offset; offsets index characters of the text")
    ctx.floor(n, 5, "unit-sensitive sites in divide_line")
    # chop only for over-wide words under fold (CFG branch facts at the call site, so guard clauses / nested ifs / a flag
    # variable are the same thing; a module-level helper holding the chop_cells call is followed)
    from ..astutil import inline as _inline, single_defs as _single_defs, substitute_call
    from ..yieldpaths import canon_test
    sites = []
    for c in walk_local(f.node):
        if isinstance(c, ast.Call) and call_name(c) == "chop_cells":
            sites.append((c, c))
        elif isinstance(c, ast.Call) and isinstance(c.func, ast.Name) and c.func.id in m.functions and m.functions[c.func.id] is not f:
            h = m.functions[c.func.id]
            inner = [x for x in walk_local(h.node) if isinstance(x, ast.Call) and call_name(x) == "chop_cells"]
            if len(inner) == 1:
                bound = substitute_call(h.node, c, inner[0])
                if bound is not None:
                    sites.append((c, bound))
    ctx.check(len(sites) == 1, f.fq, "chop_cells", f.where, "one fold site", f"{len(sites)} chop_cells call sites reachable from divide_line")
    g = cfgmod.build(f.node)
    sd = _single_defs(f.node)
    for site, chop in sites:
        st = site
        while not isinstance(st, ast.stmt):
            st = m.parent_of[st]
        facts = {}
        for nid in g.nodes_of(st):
            for t, v in g.branch_facts(nid):
                for a, tv in canon_test(_inline(t, sd), v):
                    facts[a] = tv
        # the word's own width X:  `X > width` and `line_position + X > width` must both be known true, with fold
        alone = [k[: -len(" > width")] for k, v in facts.items() if v is True and k.endswith(" > width") and not k.startswith("line_position + ")]
        ok = facts.get("fold") is True and any(facts.get(f"line_position + {x} > width") is True and "cell_len(" in x for x in alone)
        ctx.check(ok, f.fq, short(site), f"{m.relpath}:{site.lineno}", "a word is chopped only when it alone is wider than the width, under fold", f"chop_cells is reached under {sorted(k for k, v in facts.items() if v)} / not {sorted(k for k, v in facts.items() if not v)}: words are broken although they would fit on a line of their own (or without fold)")
        pos = kwarg(chop, "position") or (chop.args[2] if len(chop.args) > 2 else None)
        ctx.check(len(chop.args) >= 2 and norm(chop.args[0]) == "word" and norm(chop.args[1]) == "width" and pos is not None and norm(pos) == "line_position", f.fq, short(chop), f"{m.relpath}:{site.lineno}",
                  "the word is chopped to the width, continuing at the current line position", "chop_cells is not called as chop_cells(word, width, position=line_position)")
    # after a fold the running position is the cell width of the WHOLE last piece (its trailing whitespace is on the line too)
    n_pos = 0
    for site, chop in sites:
        host = f
        if site is not chop and isinstance(site.func, ast.Name) and site.func.id in m.functions:
            host = m.functions[site.func.id]
        hal = alias_map(host.node)
        # names bound to pieces of the chop result: loop targets over it / star-unpack targets
        pieces = set()
        for x in walk_local(host.node):
            if isinstance(x, ast.For) and any(isinstance(c, ast.Call) and call_name(c) == "chop_cells" for c in ast.walk(x.iter)):
                pieces |= {t.id for t in ast.walk(x.target) if isinstance(t, ast.Name)}
            if isinstance(x, ast.Assign) and isinstance(x.value, ast.Call) and call_name(x.value) == "chop_cells":
                pieces |= {t.id for tt in x.targets for t in ast.walk(tt) if isinstance(t, ast.Name)}
        for x in walk_local(host.node):
            if isinstance(x, ast.Assign) and len(x.targets) == 1 and norm(x.targets[0]) == "line_position" and any(isinstance(nm, ast.Name) and nm.id in pieces for nm in ast.walk(x.value)):
                n_pos += 1
                v = x.value
                ok = isinstance(v, ast.Call) and norm(expand_alias(v.func, hal)) == "cell_len" and len(v.args) == 1 and isinstance(v.args[0], ast.Name) and v.args[0].id in pieces
                ctx.check(ok, host.fq, short(x), f"{m.relpath}:{x.lineno}", "after folding, the line position is the cell width of the whole last piece",
                          f"`{short(x)}`: after a folded word the running line position is not cell_len of the whole last piece (e.g. its trailing whitespace is stripped first): the next word is placed on a line it does not fit, and the final truncate drops its last characters")
    ctx.floor(n_pos, 1, "line-position updates after a fold")
    # words(): consecutive matches, each anchored where the previous one ended
    from ..astutil import inline, single_defs
    w = ctx.repo.fn("_wrap:words")
    matches = [c for c in walk_local(w.node) if isinstance(c, ast.Call) and isinstance(c.func, ast.Attribute) and c.func.attr == "match" and norm(c.func.value) == "re_word"]
    mvars = {norm(a.targets[0]) for a in walk_local(w.node) if isinstance(a, ast.Assign) and a.value in matches}
    span_unpack = [a for a in walk_local(w.node) if isinstance(a, ast.Assign) and isinstance(a.targets[0], ast.Tuple) and len(a.targets[0].elts) == 2 and isinstance(a.value, ast.Call) and isinstance(a.value.func, ast.Attribute) and a.value.func.attr == "span" and norm(a.value.func.value) in mvars]
    ok = len(mvars) == 1 and len(span_unpack) == 1 and len(matches) >= 1
    if ok:
        s_name, e_name = (norm(e) for e in span_unpack[0].targets[0].elts)
        mv = next(iter(mvars))
        sd = single_defs(w.node)
        # every anchor is 0 (the first match) or the end of the previous match: read off the reaching definitions of the position
        gw = cfgmod.build(w.node)
        rdw = gw.reaching_defs(weak=False)
        kinds = set()
        for c in matches:
            ok = ok and len(c.args) == 2 and norm(c.args[0]) == "text"
            if len(c.args) != 2:
                continue
            pa = c.args[1]
            if isinstance(pa, ast.Constant) and pa.value == 0:
                kinds.add("zero")
                continue
            if not isinstance(pa, ast.Name):
                kinds.add("other:" + norm(pa))
                continue
            st_ = c
            while not isinstance(st_, ast.stmt):
                st_ = m.parent_of[st_] if st_ in m.parent_of else w.module.parent_of[st_]
            for nid in gw.nodes_of(st_):
                for d in rdw.get(nid, {}).get(pa.id, set()):
                    ds = gw.nodes[d].stmt
                    if isinstance(ds, ast.Assign) and len(ds.targets) == 1 and isinstance(ds.targets[0], ast.Name) and isinstance(ds.value, ast.Constant) and ds.value.value == 0:
                        kinds.add("zero")
                    elif ds is span_unpack[0] and pa.id == e_name:
                        kinds.add("end")
                    elif isinstance(ds, ast.Assign) and len(ds.targets) == 1 and norm(ds.value) in (e_name, f"{mv}.end()", f"{mv}.end(0)", f"{mv}.span()[1]"):
                        kinds.add("end")
                    else:
                        kinds.add("other:" + (short(ds) if ds is not None else "?"))
        ok = ok and kinds == {"zero", "end"}
        ys = [y for y in walk_local(w.node) if isinstance(y, ast.Yield)]
        ok = ok and len(ys) == 1 and isinstance(ys[0].value, ast.Tuple) and len(ys[0].value.elts) == 3
        if ok:
            a, b, c3 = ys[0].value.elts
            ok = norm(a) == s_name and norm(b) == e_name and norm(inline(c3, sd, keep=(s_name, e_name, mv))) in (f"{mv}.group(0)", f"{mv}.group()", f"text[{s_name}:{e_name}]")
    if not matches:
        # finditer form: equal to anchored matching exactly because the word pattern is \s*\S+\s* (a match swallows all the
        # whitespace after the word, so the next non-space character - where a search finds the next match - is where it ended)
        from .. import regexast as _rx
        rw = _rx.compile_call(m.global_assign("re_word")) if hasattr(m, "global_assign") else None
        wm = ctx.repo.mod("_wrap")
        rw = _rx.compile_call(wm.global_assign("re_word"))
        pat_ok = rw is not None and rw.args[0].value == "\\s*\\S+\\s*"
        loops_ = [x for x in walk_local(w.node) if isinstance(x, ast.For) and norm(x.iter) == "re_word.finditer(text)" and isinstance(x.target, ast.Name)]
        ok = pat_ok and len(loops_) == 1
        if ok:
            mv = loops_[0].target.id
            ys = [y for y in walk_local(w.node) if isinstance(y, ast.Yield)]
            sd = single_defs(w.node)
            ok = len(ys) == 1 and isinstance(ys[0].value, ast.Tuple) and len(ys[0].value.elts) == 3 and [norm(inline(e, sd)) for e in ys[0].value.elts][:2] == [f"{mv}.start()", f"{mv}.end()"] and norm(inline(ys[0].value.elts[2], sd)) in (f"{mv}.group(0)", f"{mv}.group()") and len(loops_[0].body) == 1
    ctx.check(ok, w.fq, "words()", w.where, "words are consecutive regex matches (each anchored where the previous ended), yielded with their own span", "words() no longer yields consecutive matches anchored at the previous end together with their span: characters between words are skipped or offsets no longer index the text")


def r2_5(ctx):
    from .c13 import r13_9
    borrow(ctx, r13_9, "R13.9", "R2.5", " [a folded word's pieces concatenate to the word and each fits the width]")


def r2_6(ctx):
    ctx.rule("R2.6", "only trailing whitespace is removed at line ends: rstrip_end crops at most the length of the trailing-whitespace regex match (\\\\s+$) and at most the excess; Text.rstrip is str.rstrip")
    from ..astutil import inline, single_defs
    f = ctx.repo.fn("text:Text.rstrip_end")
    sd = single_defs(f.node)
    crops = [c for c in walk_local(f.node) if isinstance(c, ast.Call) and norm(c.func) == "self.right_crop"]
    ok = len(crops) == 1 and len(crops[0].args) == 1
    detail = short(crops[0]) if crops else "self.right_crop(...)"
    if ok:
        a = inline(crops[0].args[0], sd)
        ok = isinstance(a, ast.Call) and norm(a.func) == "min" and len(a.args) == 2
        if ok:
            forms = sorted(norm(x) for x in a.args)
            M_ = "_re_whitespace.search(self.plain)"
            ws = [x for x in forms if x in (f"len({M_}.group(0))", f"len({M_}.group())", f"{M_}.end() - {M_}.start()", f"{M_}.end(0) - {M_}.start(0)")]
            ex = [x for x in forms if x in ("len(self) - size", "self._length - size", "len(self.plain) - size")]
            ok = len(ws) == 1 and len(ex) == 1
        detail = norm(a)
    ctx.check(ok, f.fq, detail, f.where, "crop is bounded by the trailing whitespace run and by the excess", "rstrip_end can remove more than the trailing whitespace (or more than the excess): non-whitespace characters are dropped at line ends")
    import re as _re
    from .. import regexast
    m = f.module
    rx = regexast.compile_call(m.global_assign("_re_whitespace"))
    ctx.check(rx is not None and rx.args[0].value == "\\s+$", "text:_re_whitespace", rx.args[0].value if rx else "?", f.where, "the regex matches only a whitespace run at the very end", "the trailing-whitespace regex is no longer \\\\s+$")
    r = ctx.repo.fn("text:Text.rstrip")
    ok = any(isinstance(x, ast.Assign) and norm(x.targets[0]) == "self.plain" and isinstance(x.value, ast.Call) and norm(x.value.func) == "self.plain.rstrip" and not x.value.args and not x.value.keywords for x in walk_local(r.node))
    ctx.check(ok, r.fq, "self.plain = self.plain.rstrip()", r.where, "rstrip removes trailing whitespace only", "Text.rstrip is not str.rstrip of the plain text")


def r2_7(ctx):
    from .common import justify_full_units
    ctx.rule("R2.7", "full justification: the gap distribution in Lines.justify measures the words in cells (cell_len) - the unit of `width` - never in characters, and rebuilds the line from every word, in order; otherwise a line with double-width characters is padded past the width and the final truncate crops characters")
    justify_full_units(ctx)


def r2_8(ctx):
    from .c05 import r5_1
    from .common import borrow
    borrow(ctx, r5_1, "R5.1", "R2.8", " [premise of style-carrying through wrap: tab expansion, append and join keep len() equal to the stored characters, so span offsets stay on their characters]")


def r2_10(ctx):
    from .c05 import r5_11
    from .common import borrow
    borrow(ctx, r5_11, "R5.11", "R2.10", " [justification trims / pads wrapped lines: it must do so through span-aware methods, never by re-assigning a stripped plain string]")


def r2_9(ctx):
    ctx.rule("R2.9", "what is measured is what is printed: in divide_line every cell_len taken of the current word measures the word with at most its TRAILING whitespace removed (word, word.rstrip()) - leading whitespace (indentation, the gap after a folded word) is printed on the line and must count towards the fit test; measuring word.strip() / word.lstrip() lets an indented word overflow the line, and the final truncate then drops characters")
    f = ctx.repo.fn("_wrap:divide_line")
    m = f.module
    aliases = alias_map(f.node)
    wvars = set()
    for x in walk_local(f.node):
        if isinstance(x, ast.For) and isinstance(x.target, ast.Tuple) and len(x.target.elts) == 3 and isinstance(x.iter, ast.Call) and (call_name(x.iter) == "words" or "finditer" in norm(x.iter.func) or "match" in norm(x.iter.func)):
            wvars.add(norm(x.target.elts[2]))
    from ..astutil import single_defs as _sdf
    for k, v in _sdf(f.node).items():
        if isinstance(v, ast.Call) and isinstance(v.func, ast.Attribute) and v.func.attr == "group":
            wvars.add(k)
    if not wvars:
        raise AnalysisError("divide_line: the loop variable holding the current word was not found")
    n = 0
    for x in walk_local(f.node):
        if isinstance(x, ast.Call) and norm(expand_alias(x.func, aliases)) == "cell_len" and len(x.args) == 1:
            a = x.args[0]
            base, chain_ = a, []
            while isinstance(base, ast.Call) and isinstance(base.func, ast.Attribute):
                chain_.append(base.func.attr)
                base = base.func.value
            if not (isinstance(base, ast.Name) and base.id in wvars):
                continue
            n += 1
            where = f"{m.relpath}:{x.lineno}"
            bad = [c for c in chain_ if c in ("strip", "lstrip")]
            unknown = [c for c in chain_ if c not in ("strip", "lstrip", "rstrip")]
            if bad:
                ctx.violation(f.fq, short(x), where, f"`{short(x)}` measures the word without its leading whitespace, which is printed: an indented first word ('   indented wordy' at width 9) passes the fit test, the line overflows and truncate() drops non-space characters")
            elif unknown:
                raise AnalysisError(f"divide_line: `{short(x)}` transforms the word with {unknown}; not decided")
            else:
                ctx.ok(where, f"`{short(x)}` measures the printed word", f.fq)
    ctx.floor(n, 2, "measurements of the current word in divide_line")


def r2_11(ctx):
    from .c13 import r13_2
    from .common import borrow
    borrow(ctx, r13_2, "R13.2", "R2.11", " [a line fits the width only if the width of every character is looked up in the right range of the table]")


def r2_12(ctx):
    from .c05 import r5_2
    from .common import borrow
    borrow(ctx, r5_2, "R5.2", "R2.12", " [full justification re-assembles a line with Text.join: each piece's base style must stay below the piece's own spans, and spans keep their offsets]")


def r2_13(ctx):
    from .common import memo_rule
    memo_rule(ctx, "R2.13", ["_wrap", "containers", "cells"], 1)
    ctx.rules_applied["R2.13"] += " [wrapping is a function of (text, width, fold, justify, overflow): a cache of break offsets or of justified lines whose key leaves one of them out replays the breaks of another mode - a long word folded or not depending on what was wrapped before]"


def r2_14(ctx):
    from .c05 import r5_8
    borrow(ctx, r5_8, "R5.8", "R2.14", " [a line is divided exactly when it does not fit: Text.wrap may skip divide_line only on a test in cells, and the widths it hands to truncate / rstrip_end / justify are the cell width it was given]")


def r2_15(ctx):
    from .c05 import r5_7
    from .common import borrow as _borrow
    _borrow(ctx, r5_7, "R5.7", "R2.15", " [wrap() works on copies of the lines (split / divide / copy) and then pads, trims and crops them in place: a copy that shares its span list with the original corrupts the styles of the text that was wrapped, and the next wrap of the same object shows them]")


RULES = [r2_1, r2_2, r2_3, r2_4, r2_5, r2_6, r2_7, r2_8, r2_10, r2_9, r2_11, r2_12, r2_13, r2_14, r2_15]
