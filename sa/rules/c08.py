"""C08 Framing renderables draw exact rectangles around intact content."""
from __future__ import annotations

import ast
from typing import List, Optional

from .. import cfg as cfgmod
from ..astutil import call_name, const_int, kwarg, literal
from ..index import AnalysisError, AnchorVanished, norm, short, walk_local
from ..linear import eq as lin_eq, lin, show
from ..linewidth import Emit, WidthEnv
from .c07 import _cell_width_fn, r7_3

LEVEL = "other"
UNDECIDED = [
    "Align centring arithmetic, Bar/ProgressBar eighths arithmetic, Columns exactly-once placement, Tree traversal order",
    "that the child's own lines appear unchanged inside the frame beyond being passed through unmodified between the frame segments",
    "rule text construction for titled rules before the final set_cell_size (only the final resize to the given width is decided)",
]
TRUSTED = ["CPython ast parser", "Console.render_lines pads every line to the options' max_width (C01 R1.2 / C13 R13.5)", "Segment.set_shape(lines, w) yields lines of width w (C13)", "Text.align(_, w) yields text of w cells"]


def _frame_rule(ctx, spec: str, frame_desc: str):
    from .common import splice_generator_helpers
    f = splice_generator_helpers(ctx.repo.fn(spec))
    env = WidthEnv(f)
    em = Emit(env).run()
    where = f.where
    for ln, msg in em.problems:
        ctx.violation(f.fq, msg, f"{f.module.relpath}:{ln}", f"{f.qualname}: {msg}: the frame is not a rectangle for every input")
    if not em.lines:
        ctx.violation(f.fq, "no lines", where, f"{f.qualname}: no emitted line could be analysed")
        return None, None, None
    ref = em.lines[0][0]
    for w, desc, ln in em.lines:
        ctx.check(lin_eq(w, ref), f.fq, f"line `{desc}`: {show(w)}", f"{f.module.relpath}:{ln}", f"line width {show(w)} equals the common width",
                  f"{f.qualname}: the line emitted at `{desc}` is `{show(w)}` cells wide but the first line is `{show(ref)}`: not all lines of the {frame_desc} have equal width")
    return f, env, em


def r8_3(ctx):
    ctx.rule("R8.3", "line-width algebra: abstract execution of Padding.__rich_console__ and Panel.__rich_console__ - every emitted line (top/bottom border or blank lines, and frame + child line + frame) has the same symbolic cell width w, the child's lines are emitted unmodified between the frame segments, and the frame adds exactly left+right (Padding) / 2 (Panel) cells to the width handed to the child")
    # Padding
    f, env, em = _frame_rule(ctx, "padding:Padding.__rich_console__", "padding")
    if em is not None:
        # child width + left + right == line width
        co = None
        for c in walk_local(f.node):
            if isinstance(c, ast.Call) and norm(c.func).endswith("console.render_lines"):
                co = c
        if co is None:
            raise AnchorVanished("Padding.__rich_console__: render_lines call not found")
        ow = env.options_width(co.args[1], env.nid(co))
        ref = em.lines[0][0]
        want = dict(ow[0])
        for a in ("self.left", "self.right"):
            want[a] = want.get(a, 0) + 1
        want = {k: v for k, v in want.items() if v}
        ctx.check(lin_eq(want, ref), f.fq, f"child width {show(ow[0])} + left + right", f"{f.module.relpath}:{co.lineno}", "frame adds exactly left + right cells to the child's width",
                  f"Padding hands the child `{show(ow[0])}` cells but its lines are `{show(ref)}` wide: the frame does not add exactly left + right cells")
        # vertical: top/bottom counts
        from ..astutil import inline as _inl, single_defs as _sdf
        _psd = _sdf(f.node)
        yfs = [norm(_inl(b.value.value, _psd, keep=("blank_line",))) for b in f.node.body if isinstance(b, ast.Expr) and isinstance(b.value, ast.YieldFrom)]
        ctx.check(yfs == ["[blank_line] * self.top", "[blank_line] * self.bottom"], f.fq, "top/bottom blank lines", f.where, "exactly `top` blank lines above and `bottom` below", "Padding does not emit exactly self.top / self.bottom blank lines")
    # Panel
    f, env, em = _frame_rule(ctx, "panel:Panel.__rich_console__", "panel")
    if em is not None:
        co = None
        for c in walk_local(f.node):
            if isinstance(c, ast.Call) and norm(c.func).endswith("console.render_lines"):
                co = c
        if co is None:
            raise AnchorVanished("Panel.__rich_console__: render_lines call not found")
        ow = env.options_width(co.args[1], env.nid(co))
        ref = em.lines[0][0]
        want = dict(ow[0])
        want[""] = want.get("", 0) + 2
        want = {k: v for k, v in want.items() if v}
        ctx.check(lin_eq(want, ref), f.fq, f"child width {show(ow[0])} + 2", f"{f.module.relpath}:{co.lineno}", "the border adds exactly 2 cells to the child's width",
                  f"Panel hands the child `{show(ow[0])}` cells but its lines are `{show(ref)}` wide: borders and content rows differ in width")
        ctx.floor(len(em.lines), 3, "panel line kinds (top, body, bottom)")
    # the child's lines pass through unmodified: `yield from line` for line in lines
    for spec in ("padding:Padding.__rich_console__", "panel:Panel.__rich_console__"):
        from .common import splice_generator_helpers
        g = splice_generator_helpers(ctx.repo.fn(spec))
        ok = False
        for lp in walk_local(g.node):
            if isinstance(lp, ast.For) and norm(lp.iter) == "lines":
                ok = any(isinstance(b, ast.Expr) and isinstance(b.value, ast.YieldFrom) and norm(b.value.value) == norm(lp.target) for b in lp.body)
        ctx.check(ok, g.fq, "for line in lines: yield from line", g.where, "child lines emitted unchanged and in order", f"{g.qualname} does not emit the child's rendered lines unchanged, in order")


def r8_4(ctx):
    ctx.rule("R8.4", "rules fill their width: every `yield rule_text` in Rule.__rich_console__ is dominated by `rule_text.plain = set_cell_size(rule_text.plain, width)` with width identity-equal to options.max_width")
    f = ctx.repo.fn("rule:Rule.__rich_console__")
    g = cfgmod.build(f.node)
    rd = g.reaching_defs(weak=False)
    ys = [n for n in g.stmt_nodes() if n.kind == "stmt" and isinstance(n.stmt, ast.Expr) and isinstance(n.stmt.value, ast.Yield) and n.stmt.value.value is not None and norm(n.stmt.value.value) == "rule_text"]
    # a rule produced by a same-class helper:  yield self._helper(.., width)  where the helper's returned Text was resized to
    # its width parameter by the last statement before the return, and receives `width`
    n_helper = 0
    for nd in g.stmt_nodes():
        if nd.kind == "stmt" and isinstance(nd.stmt, ast.Expr) and isinstance(nd.stmt.value, ast.Yield) and isinstance(nd.stmt.value.value, ast.Call):
            c = nd.stmt.value.value
            if isinstance(c.func, ast.Attribute) and isinstance(c.func.value, ast.Name) and c.func.value.id == "self" and f.cls is not None and f.cls.method(c.func.attr) is not None:
                h = f.cls.method(c.func.attr)
                body = [b for b in h.node.body if not (isinstance(b, ast.Expr) and isinstance(b.value, ast.Constant))]
                okh = False
                if len(body) >= 2 and isinstance(body[-1], ast.Return) and isinstance(body[-1].value, ast.Name) and isinstance(body[-2], ast.Assign):
                    r = body[-1].value.id
                    wparams = [p_ for p_, a in zip(h.params[1:], c.args) if norm(a) == "width"]
                    okh = len(wparams) == 1 and norm(body[-2].targets[0]) == f"{r}.plain" and norm(body[-2].value) == f"set_cell_size({r}.plain, {wparams[0]})"
                n_helper += 1
                ctx.check(okh, f.fq, short(c), f"{f.module.relpath}:{nd.lineno}", f"the rule built by {h.name}() is resized to exactly `width` cells right before it is returned",
                          f"`{short(c)}` yields a rule that {h.name}() does not resize to the given width as its last step")
    ctx.floor(len(ys) + n_helper, 2, "yield rule_text sites")
    sets = {n.id for n in g.stmt_nodes() if n.kind == "stmt" and isinstance(n.stmt, ast.Assign) and norm(n.stmt.targets[0]) == "rule_text.plain" and norm(n.stmt.value) == "set_cell_size(rule_text.plain, width)"}
    for y in ys:
        # dominated by a resize that comes after the last mutation of rule_text
        ok = g.dominated_by(y.id, sets)
        if ok:
            # no append/truncate to rule_text between the dominating resize and the yield
            muts = {n.id for n in g.stmt_nodes() if n.kind == "stmt" and any(isinstance(c, ast.Call) and isinstance(c.func, ast.Attribute) and norm(c.func.value) == "rule_text" and c.func.attr in ("append", "truncate", "pad", "pad_left", "pad_right", "align", "append_text") for c in ast.walk(n.stmt))}
            for s in sets:
                if y.id in g.reach([s]):
                    between = g.reach([s]) & {m for m in muts if y.id in g.reach([m])}
                    if between:
                        ok = False
        ctx.check(ok, f.fq, "yield rule_text", f"{f.module.relpath}:{y.lineno}", "the rule text is resized to exactly `width` cells right before it is yielded",
                  "a rule is yielded without a final `rule_text.plain = set_cell_size(rule_text.plain, width)`: characters wider than one cell (or the title arithmetic) make the rule shorter or longer than the width it was given")
    wd = [n for n in g.stmt_nodes() if n.kind == "stmt" and isinstance(n.stmt, ast.Assign) and norm(n.stmt.targets[0]) == "width"]
    ok = len(wd) == 1 and norm(wd[0].stmt.value) == "options.max_width"
    ctx.check(ok, f.fq, "width = options.max_width", f.where, "the rule's width is the width it is given", "Rule's width is not options.max_width")


def r8_5(ctx):
    ctx.rule("R8.5", "tree guides: every string in ASCII_GUIDES / TREE_GUIDES is exactly 4 cells wide (rich's own width table) and Tree.__rich_measure__ indents by the same 4 per level; children are pushed in order")
    f = ctx.repo.fn("tree:Tree.__rich_console__")
    cw = _cell_width_fn(ctx)
    n = 0
    for x in walk_local(f.node):
        if isinstance(x, ast.Assign) and norm(x.targets[0]) in ("ASCII_GUIDES", "TREE_GUIDES"):
            val = literal(x.value)
            rows = [val] if val and isinstance(val[0], str) else list(val)
            for row in rows:
                for s in row:
                    n += 1
                    w = sum(cw(ch) for ch in s)
                    ctx.check(w == 4, f.fq, f"{norm(x.targets[0])}: {s!r}", f"{f.module.relpath}:{x.lineno}", f"guide {s!r} is 4 cells", f"tree guide {s!r} is {w} cells wide, not 4: nested labels are not indented by four cells per level and the measured width is wrong", trivial=n > 4)
    ctx.floor(n, 16, "tree guide strings")
    m = ctx.repo.fn("tree:Tree.__rich_measure__")
    # the term added to a label's measurement is <depth> * 4 (the depth bookkeeping itself is not decided here)
    from .common import close_expr
    terms = []
    for c in walk_local(m.node):
        if isinstance(c, ast.Call) and norm(c.func) == "max" and len(c.args) == 2:
            for a in c.args:
                if isinstance(a, ast.BinOp) and isinstance(a.op, ast.Add):
                    for side in (a.left, a.right):
                        e = close_expr(m, side)
                        if isinstance(e, ast.BinOp) and isinstance(e.op, ast.Mult):
                            terms.append(e)
    ok = len(terms) >= 2 and all((isinstance(e.right, ast.Constant) and e.right.value == 4 and not isinstance(e.left, ast.Constant)) or (isinstance(e.left, ast.Constant) and e.left.value == 4 and not isinstance(e.right, ast.Constant)) for e in terms) and len({norm(e) for e in terms}) == 1
    ctx.check(ok, m.fq, norm(terms[0]) if terms else "indent", m.where, "measure adds 4 cells per level to both the minimum and the maximum", "Tree.__rich_measure__ does not indent by 4 cells per level (the width of a guide) in both the minimum and the maximum")
    src = norm(f.node)
    ctx.shape("push(iter(loop_last(node.children)))" in src and "push(iter(loop_last([self])))" in src, f.fq, "depth-first in child order", f.where, "children are walked in order, depth first", "Tree no longer walks children in order, depth first")
    ctx.shape("sum((level.cell_length for level in prefix))" in src, f.fq, "label width = max_width - prefix cells", f.where, "label budget subtracts the guide prefix", "Tree label width does not subtract the cells of the guide prefix")


def r8_6(ctx):
    r7_3(ctx)
    # relabel as R8.6
    ctx.rules_applied["R8.6"] = ctx.rules_applied.pop("R7.3")
    ctx.rule_counts["R8.6"] = ctx.rule_counts.pop("R7.3", 0)
    for o in ctx.obligations:
        if o["rule"] == "R7.3":
            o["rule"] = "R8.6"
    for v in ctx.violations:
        if v.rule == "R7.3":
            v.rule = "R8.6"


def r8_7(ctx):
    ctx.rule("R8.7", "the panel's title text is a fresh object on every render/measure: Panel._title pads and restyles the Text it returns (and __rich_console__ aligns it), so every value it returns must be newly built (Text.from_markup / Text(...) / .copy()), never the caller's own Text - otherwise the padding accumulates and the panel grows wider on every render")
    f = ctx.repo.cls("panel:Panel").method("_title")
    if f is None:
        raise AnchorVanished("Panel._title not found")
    m = f.module

    def fresh(e) -> bool:
        if isinstance(e, ast.IfExp):
            return fresh(e.body) and fresh(e.orelse)
        if isinstance(e, ast.Call):
            fn = norm(e.func)
            return fn.endswith(".copy") or fn in ("Text", "Text.from_markup", "Text.assemble", "Text.styled") or fn.endswith("render_str")
        return False

    n = 0
    for r in walk_local(f.node):
        if isinstance(r, ast.Return) and r.value is not None and not (isinstance(r.value, ast.Constant) and r.value.value is None):
            n += 1
            v = r.value
            exprs = [v]
            if isinstance(v, ast.Name):
                exprs = [x.value for x in walk_local(f.node) if isinstance(x, ast.Assign) and len(x.targets) == 1 and norm(x.targets[0]) == v.id]
            ok = bool(exprs) and all(fresh(e) for e in exprs)
            ctx.check(ok, f.fq, "; ".join(short(e) for e in exprs), f"{m.relpath}:{r.lineno}", "title text is newly built for each call",
                      f"Panel._title returns `{'; '.join(short(e) for e in exprs)}`, which can be the caller's own Text: it is padded / aligned in place on every measure and render, so the title (and a width-constrained panel) grows each time")
    ctx.floor(n, 1, "returns of Panel._title")
    # the mutations that make freshness necessary are really there (keeps the rule honest)
    src = norm(f.node)
    if ".pad(1)" not in src and ".align(" not in norm(ctx.repo.fn("panel:Panel.__rich_console__").node):
        ctx.note("Panel no longer mutates its title text; R8.7 is then vacuous")


def r8_17(ctx):
    ctx.rule("R8.17", "the title is measured as it will be drawn: the top border is sized from the title's cell length, and a tab counts 0 cells until Text.wrap expands it (up to 8) when the title is rendered, a new line would break the border in two - so on every path of Panel._title the returned Text has had its tabs expanded (expand_tabs) and its new lines replaced before it is returned and measured; otherwise Panel('x', title='a\\tb') draws a top line wider than the panel and than its reported measurement")
    f = ctx.repo.cls("panel:Panel").method("_title")
    if f is None:
        raise AnchorVanished("Panel._title not found")
    m = f.module
    g = cfgmod.build(f.node)
    n = 0
    for nd in g.stmt_nodes():
        if nd.kind != "stmt" or not isinstance(nd.stmt, ast.Return) or nd.stmt.value is None or (isinstance(nd.stmt.value, ast.Constant) and nd.stmt.value.value is None):
            continue
        if not isinstance(nd.stmt.value, ast.Name):
            raise AnalysisError(f"Panel._title returns `{norm(nd.stmt.value)}`, not a local Text; the normalisation clause is written differently and not decided")
        v = nd.stmt.value.id
        n += 1
        tabs = {x.id for x in g.stmt_nodes() if x.kind == "stmt" and x.stmt is not None and any(isinstance(c, ast.Call) and norm(c.func) == f"{v}.expand_tabs" for c in ast.walk(x.stmt))}
        nls = {x.id for x in g.stmt_nodes() if x.kind == "stmt" and x.stmt is not None and any(
            isinstance(c, ast.Call) and isinstance(c.func, ast.Attribute) and c.func.attr in ("replace", "translate", "split", "splitlines", "join") and any(isinstance(k, ast.Constant) and isinstance(k.value, str) and "\n" in k.value for k in ast.walk(c)) for c in ast.walk(x.stmt))}
        creates = [x.id for x in g.stmt_nodes() if x.kind == "stmt" and isinstance(x.stmt, (ast.Assign, ast.AnnAssign)) and any(isinstance(t_, ast.Name) and t_.id == v for t_ in (x.stmt.targets if isinstance(x.stmt, ast.Assign) else [x.stmt.target]))]
        if not creates:
            raise AnalysisError("Panel._title: the definition of the returned text was not found")
        where = f"{m.relpath}:{nd.lineno}"
        # every path from a definition of the text to this return passes an expand_tabs() call on it
        leak = any(nd.id in g.reach([c_], avoid=tabs) for c_ in creates) if tabs else True
        ctx.check(not leak, f.fq, f"return {v} (tabs)", where, "tabs are expanded before the title is measured", f"Panel._title returns `{v}` on a path without `{v}.expand_tabs()`: a tab in the title counts 0 cells in cell_len / align, the border is sized for that, and the tab becomes up to 8 cells when the title is rendered - the top line is wider than the panel")
        leak_nl = any(nd.id in g.reach([c_], avoid=nls) for c_ in creates) if nls else True
        ctx.check(not leak_nl, f.fq, f"return {v} (new lines)", where, "new lines are replaced before the title is measured", f"Panel._title returns `{v}` on a path that does not replace new lines: a title containing one splits the top border over two lines")
    ctx.floor(n, 1, "returns of Panel._title")


def r8_18(ctx):
    ctx.rule("R8.18", "a text laid out to an exact width is rendered at that width: in Panel.__rich_console__ the title is aligned to the cells between the corners (title.align(.., E)) and then handed to console.render; Text.__rich_console__ wraps and JUSTIFIES to the max_width of the options it receives, so either the render call passes options whose width is that same E, or the text's own justify is pinned to 'default' before (Panel._title, every path) - otherwise the console-wide default applies, and a title Text with justify='center' / 'right' is padded to the console width: the top border loses its corner (Panel('x', title=Text('hi', justify='center')))")
    from ..astutil import inline as _inl, single_defs as _sdf
    f = ctx.repo.fn("panel:Panel.__rich_console__")
    m = f.module
    sd = _sdf(f.node)
    aligned = {}
    for c in walk_local(f.node):
        if isinstance(c, ast.Call) and isinstance(c.func, ast.Attribute) and c.func.attr == "align" and isinstance(c.func.value, ast.Name) and len(c.args) >= 2:
            aligned[c.func.value.id] = c.args[1]
    # mechanism B: the text's justify is pinned to 'default' (no padding in Lines.justify, and a truthy value so that the options'
    # justify does not apply either) on every path of Panel._title before the text is returned
    pinned = False
    tf = ctx.repo.cls("panel:Panel").method("_title")
    if tf is not None:
        gT = cfgmod.build(tf.node)
        rets_ = [nd for nd in gT.stmt_nodes() if nd.kind == "stmt" and isinstance(nd.stmt, ast.Return) and isinstance(nd.stmt.value, ast.Name)]
        if rets_:
            pinned = True
            for nd in rets_:
                v_ = nd.stmt.value.id
                pins = {x.id for x in gT.stmt_nodes() if x.kind == "stmt" and isinstance(x.stmt, ast.Assign) and any(norm(t_) == f"{v_}.justify" for t_ in x.stmt.targets)
                        and isinstance(x.stmt.value, ast.Constant) and x.stmt.value.value == "default"}
                creates = [x.id for x in gT.stmt_nodes() if x.kind == "stmt" and isinstance(x.stmt, (ast.Assign, ast.AnnAssign)) and any(isinstance(t_, ast.Name) and t_.id == v_ for t_ in (x.stmt.targets if isinstance(x.stmt, ast.Assign) else [x.stmt.target]))]
                if not pins or not creates or any(nd.id in gT.reach([c_], avoid=pins) for c_ in creates):
                    pinned = False
    n = 0
    for c in walk_local(f.node):
        if isinstance(c, ast.Call) and norm(c.func) == "console.render" and c.args and isinstance(c.args[0], ast.Name) and c.args[0].id in aligned:
            n += 1
            if pinned and norm(_inl(c.args[0], sd)) == "self._title":
                ctx.ok(f"{m.relpath}:{c.lineno}", "the aligned title cannot be re-justified: Panel._title pins its justify to 'default' on every path", f.fq)
                continue
            want = norm(_inl(aligned[c.args[0].id], sd))
            opts = c.args[1] if len(c.args) > 1 else next((k.value for k in c.keywords if k.arg == "options"), None)
            if opts is not None:
                opts = _inl(opts, sd)
            got = None
            if isinstance(opts, ast.Call) and isinstance(opts.func, ast.Attribute) and opts.func.attr in ("update", "update_width"):
                wa = next((k.value for k in opts.keywords if k.arg == "width"), None) or (opts.args[0] if opts.args else None)
                got = norm(_inl(wa, sd)) if wa is not None else None
            ctx.check(got == want, f.fq, short(c), f"{m.relpath}:{c.lineno}", f"the aligned text is rendered with options of width `{want}`",
                      f"`{short(c)}` renders a text that was aligned to `{want}` cells with {'options of width `' + got + '`' if got else ('the given options unchanged' if opts is not None else 'the console-wide default options')}: Text wraps and justifies to the width of the options it is rendered with, so a title with its own justify (center / right / full) is padded out to that width and the border line is wider than the panel - its corner is cropped away")
    ctx.floor(n, 1, "renders of an aligned title in Panel")


def r8_8(ctx):
    ctx.rule("R8.8", "alignment wrapper (path-sensitive symbolic emission over all paths of Align's generator): the child's lines, shaped to their common width w, are emitted unchanged between pads; with padding enabled every line is exactly options.max_width cells for left / center / right (left + w + (excess - left) etc.), without padding never more; when the child already fills the width nothing is added")
    from ..pathemit import PathEmit
    f = ctx.repo.fn("align:Align.__rich_console__")
    pe = PathEmit(f, inner="generate_segments")
    states = pe.run()
    ctx.floor(len(states), 5, "paths through Align.generate_segments")
    W = {pe.W: 1}
    n = 0
    for s in states:
        where = f.where
        for ln, msg in s.problems:
            ctx.violation(f.fq, msg, f"{f.module.relpath}:{ln}", f"Align: {msg} on path [{' & '.join(s.conds)}]")
        if s.problems:
            continue
        conds = " & ".join(s.conds) or "always"
        for w, ln in s.lines:
            n += 1
            exact_fit = any(c.startswith("excess_space <= 0") for c in s.conds)
            padded = "self.pad" in s.conds or any("align == 'right'" == c for c in s.conds) and True
            # the child's own width
            child = s.store.get("width")
            cw = child.form if child is not None and child.kind == "int" else None
            if exact_fit:
                ok = cw is not None and s.equal(w, cw)
                ctx.check(ok, f.fq, f"[{conds}] line = {show(w)}", f"{f.module.relpath}:{ln}", "child fills the width: its lines are passed through unchanged",
                          f"Align adds cells although the child already fills the width (line is `{show(w)}`, child `{show(cw) if cw else '?'}`) on path [{conds}]")
                continue
            if "not self.pad" in s.conds and not any(c == "align == 'right'" for c in s.conds):
                # unpadded: left/center emit child (+ left pad for center): never more than W
                extra = _sub(w, cw) if cw is not None else None
                ok = extra is not None and (not extra or set(extra) <= {k for k in extra if extra[k] > 0})
                ctx.check(cw is not None, f.fq, f"[{conds}] line = {show(w)}", f"{f.module.relpath}:{ln}", "unpadded line = child (+ left part)", f"cannot relate the unpadded line `{show(w)}` to the child's width on path [{conds}]")
                continue
            ok = s.equal(w, W)
            ctx.check(ok, f.fq, f"[{conds}] line = {show(w)}", f"{f.module.relpath}:{ln}", f"padded line is exactly options.max_width on path [{conds}]",
                      f"Align emits a line of `{show(w)}` cells on path [{conds}]: not exactly the available width `{pe.W}` - the wrapper is not a rectangle of the full width")
    ctx.floor(n, 4, "emitted line kinds in Align")
    # the width the child's lines are shaped to is the width they HAVE (Segment.get_shape of the rendered lines - at most the
    # options.max_width they were rendered with), and the excess is options.max_width minus that very value.  A measured width
    # (Measurement.get(console, child) is taken against the console, not against options.max_width) pads the lines past the space
    g88 = cfgmod.build(f.node)
    rd88 = g88.reaching_defs()
    m88 = f.module

    def stmt_node_of(x):
        st_ = x
        while not isinstance(st_, ast.stmt):
            st_ = m88.parent_of[st_]
        return st_

    def defs_of(name, at_stmt):
        out_ = []
        for nid in g88.nodes_of(at_stmt):
            for d_ in rd88.get(nid, {}).get(name, ()):
                nd_ = g88.nodes[d_] if isinstance(g88.nodes, dict) else [z for z in g88.nodes if z.id == d_][0]
                if nd_.stmt is not None and nd_.stmt not in out_:
                    out_.append(nd_.stmt)
        return out_
    shapes = [c for c in walk_local(f.node) if isinstance(c, ast.Call) and norm(c.func).endswith("Segment.set_shape") and len(c.args) >= 2]
    exc = [x for x in walk_local(f.node) if isinstance(x, ast.Assign) and isinstance(x.value, ast.BinOp) and isinstance(x.value.op, ast.Sub) and norm(x.value.left) == "options.max_width" and isinstance(x.value.right, ast.Name)]
    decided = False
    if len(shapes) == 1 and len(exc) == 1 and isinstance(shapes[0].args[1], ast.Name) and shapes[0].args[1].id == exc[0].value.right.id:
        wname = exc[0].value.right.id
        d1, d2 = defs_of(wname, stmt_node_of(shapes[0])), defs_of(wname, exc[0])
        if d1 and d1 == d2:
            srcs = []
            for d_ in d1:
                v_ = d_.value if isinstance(d_, (ast.Assign, ast.AnnAssign)) else None
                srcs.append(v_)
            if all(v_ is not None and isinstance(v_, ast.Call) and norm(v_.func).endswith("Segment.get_shape") for v_ in srcs):
                decided = True
                ctx.ok(f"{m88.relpath}:{exc[0].lineno}", "the lines are shaped to the width they were rendered at, and the excess is options.max_width minus that width", f.fq)
            elif any(v_ is not None and any(isinstance(y, ast.Call) and norm(y.func).endswith("Measurement.get") for y in ast.walk(v_)) for v_ in srcs) or any(
                    v_ is not None and any(isinstance(y, ast.Name) and any(isinstance(z, ast.Call) and norm(z.func).endswith("Measurement.get") for dd in defs_of(y.id, d_) if isinstance(dd, ast.Assign) for z in ast.walk(dd.value)) for y in ast.walk(v_)) for v_, d_ in zip(srcs, d1)):
                decided = True
                ctx.violation(f.fq, short(stmt_node_of(shapes[0])), f"{m88.relpath}:{shapes[0].lineno}",
                              f"Align shapes the child's lines to `{wname}`, a MEASURED width (Measurement.get against the console width, optionally capped by self.width), not to the width the lines were rendered at: when less than that is available (options.max_width < measure) every line is padded past the available width and `excess_space` goes negative - the block is no rectangle of the width it was given")
    if not decided:
        ctx.shape(False, f.fq, "excess_space = options.max_width - width", f.where,
                  "excess is measured against the shaped child width", "Align's excess space is not options.max_width minus the width its lines are shaped to (width from Segment.get_shape of the rendered lines)")


def _sub(a, b):
    out = dict(a)
    for k, v in b.items():
        out[k] = out.get(k, 0) - v
        if out[k] == 0:
            del out[k]
    return out


def r8_9(ctx):
    ctx.rule("R8.9", "progress bars: on every path with colour available the emitted cells sum to exactly the bar's width (complete + half + remaining, path-sensitive symbolic emission); the bar's width is capped by options.max_width; the pulse animation repeats its pattern at least floor(width/len)+2 times before slicing [offset : offset+width] with offset < len, so the slice always has `width` cells")
    from ..pathemit import PathEmit
    f = ctx.repo.fn("progress_bar:ProgressBar.__rich_console__")
    pe = PathEmit(f)
    states = pe.run()
    n = 0
    for s in states:
        if any(c == "self.pulse" for c in s.conds):
            continue
        for ln, msg in s.problems:
            ctx.violation(f.fq, msg, f"{f.module.relpath}:{ln}", f"ProgressBar: {msg} on path [{' & '.join(s.conds)}]")
        if s.problems:
            continue
        conds = " & ".join(s.conds)
        wv = s.store.get("width")
        if wv is None or wv.kind != "int":
            raise AnalysisError("ProgressBar: width variable not found")
        colour = "not console.no_color" in s.conds and ("console.color_system is not None" in s.conds or "not remaining_bars" in s.conds)
        if colour:
            n += 1
            ok = s.equal(s.cur, wv.form)
            ctx.check(ok, f.fq, f"[{conds}] emitted = {show(s.cur)}", f.where, "with colour the bar fills exactly its width",
                      f"ProgressBar emits `{show(s.cur)}` cells on path [{conds}], not its width `{show(wv.form)}`: the bar is shorter or longer than the space it was given")
    ctx.floor(n, 3, "colour paths through ProgressBar.__rich_console__")
    wd = [x for x in walk_local(f.node) if isinstance(x, ast.Assign) and norm(x.targets[0]) == "width"]
    from ..astutil import inline as _inl89, single_defs as _sdf89
    _sd89 = {k_: v_ for k_, v_ in _sdf89(f.node).items() if k_ != "width"}
    if len(wd) != 1:
        raise AnalysisError("ProgressBar.__rich_console__: the bar's `width` is not assigned exactly once; the cap by options.max_width is not decided")
    wv_ = _inl89(wd[0].value, _sd89)
    capped = isinstance(wv_, ast.Call) and norm(wv_.func) == "min" and any(norm(a) == "options.max_width" for a in wv_.args)
    if not capped and "options.max_width" in norm(wv_) and not isinstance(wv_, (ast.BoolOp, ast.Attribute, ast.IfExp)) and not (isinstance(wv_, ast.Call) and norm(wv_.func) == "min"):
        raise AnalysisError(f"ProgressBar.__rich_console__: width is `{norm(wv_)}`; cannot tell whether options.max_width caps it")
    ctx.check(capped, f.fq, norm(wd[0]), f.where, "bar width capped by options.max_width", "ProgressBar's width is not min(..., options.max_width): a bar can exceed the width it is given")
    # glyphs are single cells
    from .c07 import _cell_width_fn
    cw = _cell_width_fn(ctx)
    for x in walk_local(f.node):
        if isinstance(x, ast.Assign) and norm(x.targets[0]) in ("bar", "half_bar_right", "half_bar_left") and isinstance(x.value, ast.IfExp):
            for arm in (x.value.body, x.value.orelse):
                okg = isinstance(arm, ast.Constant) and isinstance(arm.value, str) and len(arm.value) == 1 and cw(arm.value) == 1
                ctx.check(okg, f.fq, norm(x), f"{f.module.relpath}:{x.lineno}", f"glyph {norm(arm)} is one cell", f"bar glyph {norm(arm)} is not exactly one cell wide")
    # pulse: decided on the path normal form - what _render_pulse yields is  (P * n)[o : o + width]  with  o = <phase> % len(P)
    # and  n = floor(width / len(P)) + c,  c >= 2   (temporaries, a split slice bound or a conditional statement change nothing)
    from ..yieldpaths import Enumerator, Unsupported, resolve
    p = ctx.repo.fn("progress_bar:ProgressBar._render_pulse")
    try:
        paths = [resolve(pp) for pp in Enumerator(p.node).run()]
    except Unsupported as u:
        raise AnalysisError(f"ProgressBar._render_pulse: {u}")
    n_pulse = 0
    for path in paths:
        conds = {}
        feasible = True
        for ev in path:
            if ev[0] == "cond":
                if conds.get(ev[1], ev[2]) != ev[2]:
                    feasible = False
                conds[ev[1]] = ev[2]
        if not feasible:
            continue
        ys = [ev for ev in path if ev[0] in ("yield", "yieldfrom")]
        if len(ys) != 1 or ys[0][0] != "yieldfrom":
            raise AnalysisError("ProgressBar._render_pulse: the pulse is not emitted by one `yield from <slice of the repeated pattern>`; another construction (e.g. index arithmetic per cell) is not decided here")
        e = ast.parse(ys[0][1], mode="eval").body
        if not (isinstance(e, ast.Subscript) and isinstance(e.slice, ast.Slice) and e.slice.step is None and isinstance(e.value, ast.BinOp) and isinstance(e.value.op, ast.Mult)):
            raise AnalysisError(f"ProgressBar._render_pulse: the yielded value `{short(e)}` is not a slice of a repeated list")
        n_pulse += 1
        where = f"{p.module.relpath}:{p.node.lineno}"
        P, cnt = e.value.left, e.value.right
        if isinstance(P, ast.BinOp) or (isinstance(P, ast.Call) and norm(P.func) == "int"):
            P, cnt = cnt, P
        lenP = f"len({norm(P)})"
        form = lin(cnt)
        base = [k for k in form if k]
        c = form.get("", 0)
        okb = len(base) == 1 and form[base[0]] == 1 and base[0] in (f"int(width / {lenP})", f"width // {lenP}")
        if not okb:
            raise AnalysisError(f"ProgressBar._render_pulse: the repeat count `{norm(cnt)}` is not floor(width / len(pattern)) + c")
        ctx.check(c >= 2, p.fq, f"{norm(P)[:40]} * ({norm(cnt)[:80]})", where, f"pattern repeated floor(width/len) + {c} times (>= +2)",
                  f"the pulse pattern is repeated floor(width / len) + {c} times: with an offset of up to len-1 the slice [offset : offset+width] needs at least floor(width/len) + 2 repetitions, otherwise the pulse bar is shorter than its width for some animation phases")
        lo, hi = e.slice.lower, e.slice.upper
        if lo is None or hi is None:
            ctx.violation(p.fq, short(e), where, "the pulse slice is not [offset : offset + width] of the repeated pattern")
            continue
        okm = isinstance(lo, ast.BinOp) and isinstance(lo.op, ast.Mod) and norm(lo.right) == lenP
        ctx.check(okm, p.fq, f"offset = {norm(lo)[:80]}", where, "offset is taken modulo the pattern length", f"the slice starts at `{norm(lo)[:80]}`, which is not reduced modulo the pattern length: the slice can start beyond the repeated pattern")
        d = dict(lin(hi))
        # hi - lo: the offset term is opaque; compare texts of the forms
        okw = norm(hi) in (f"{norm(lo)} + width", f"width + {norm(lo)}")
        ctx.check(okw, p.fq, f"[{norm(lo)[:40]} : {norm(hi)[:60]}]", where, "exactly `width` cells are cut out starting at the phase offset", "the pulse slice is not [offset : offset + width] of the repeated pattern")
    ctx.floor(n_pulse, 1, "feasible paths through _render_pulse")


def r8_10(ctx):
    from ..yieldpaths import Enumerator, Unsupported, consistent, resolve, show
    from .c07 import _cell_width_fn
    from .common import inline_helpers_in_function
    ctx.rule("R8.10", "block bar (Bar), decided on the path normal form with helpers and temporaries inlined: on every path with begin < end the emitted text is P + B[len(P):] + ' ' * (width - len(B)) where P = glyph * (p // 8) [+ one glyph iff p % 8] and B = glyph * (b // 8) [+ one glyph iff b % 8] are ceil(p/8) and ceil(b/8) one-cell glyphs, p and b are the SAME rounding of width * 8 * begin / size and width * 8 * end / size (monotone, so p <= b; end <= size gives b <= 8 * width), hence len = len(P) + max(0, len(B) - len(P)) + (width - len(B)) = width; with begin >= end the text is ' ' * width; __init__ clamps begin >= 0, end <= size; width is capped by options.max_width")
    f = ctx.repo.fn("bar:Bar.__rich_console__")
    m = f.module
    cw = _cell_width_fn(ctx)
    fnode = inline_helpers_in_function(f)
    try:
        en = Enumerator(fnode)
        wdef = en.defs.pop("width", None)
        from ..yieldpaths import feasible as _feasible810
        # a conditional expression inside a value that is used twice forks at each use; paths that take the same test both ways are infeasible
        P = [q_ for q_ in (resolve(p_, keep=("width",)) for p_ in en.run()) if _feasible810(q_)]
    except Unsupported as u:
        raise AnalysisError(f"Bar.__rich_console__: statement outside the path normal form ({u}); the width clause cannot be decided")
    if wdef is not None:
        from ..astutil import inline as _inl810
        try:
            wdef = _inl810(wdef, {k_: v_ for k_, v_ in en.defs.items() if isinstance(v_, ast.AST)})
        except Exception:
            pass
    ctx.check(wdef is not None and isinstance(wdef, ast.Call) and norm(wdef.func) == "min" and any(norm(z) == "options.max_width" for z in wdef.args), f.fq, norm(wdef) if wdef is not None else "?", f.where, "bar width capped by options.max_width", "Bar's width is not min(..., options.max_width)")

    def one_cell_glyph(e):
        if isinstance(e, ast.Constant) and isinstance(e.value, str):
            return len(e.value) == 1 and cw(e.value) == 1
        if isinstance(e, ast.Name) and m.module_const(e.id) is not None:
            return one_cell_glyph(m.module_const(e.id))
        return False

    def table_ok(e):
        if not (isinstance(e, ast.Subscript) and isinstance(e.value, ast.Name)):
            return False
        t = m.module_const(e.value.id)
        return isinstance(t, (ast.List, ast.Tuple)) and len(t.elts) >= 8 and all(one_cell_glyph(x) for x in t.elts)

    def flat(e):
        if isinstance(e, ast.BinOp) and isinstance(e.op, ast.Add):
            return flat(e.left) + flat(e.right)
        if isinstance(e, ast.Constant) and e.value == "":
            return []  # `x + ""`: the arm of a conditional expression that adds nothing
        return [e]

    def muldiv(e, num, den, inv=False):
        if isinstance(e, ast.BinOp) and isinstance(e.op, ast.Mult):
            muldiv(e.left, num, den, inv)
            muldiv(e.right, num, den, inv)
        elif isinstance(e, ast.BinOp) and isinstance(e.op, ast.Div):
            muldiv(e.left, num, den, inv)
            muldiv(e.right, num, den, not inv)
        else:
            (den if inv else num).append(norm(e))

    def edge_template(x):
        """x = ROUND(width * 8 * self.<begin|end> / self.size) -> (rounding name, 'begin'|'end') or None"""
        if not (isinstance(x, ast.Call) and norm(x.func) in ("int", "round", "floor", "math.floor", "ceil", "math.ceil") and len(x.args) == 1 and not x.keywords):
            return None
        num, den = [], []
        muldiv(x.args[0], num, den)
        for which in ("begin", "end"):
            if sorted(num) == sorted(["width", "8", f"self.{which}"]) and den == ["self.size"]:
                return norm(x.func), which
        return None

    def analyse_string(parts, facts):
        """[glyph * (X // 8)] (+ TABLE[X % 8] iff fact X % 8) -> (X node, problem or None)"""
        if not parts or len(parts) > 2:
            return None, f"string has {len(parts)} parts, expected glyph * cells [+ one glyph]"
        p0 = parts[0]
        if not (isinstance(p0, ast.BinOp) and isinstance(p0.op, ast.Mult)):
            return None, f"`{norm(p0)}` is not glyph * cells"
        g_, n_ = (p0.left, p0.right) if one_cell_glyph(p0.left) else (p0.right, p0.left)
        if not one_cell_glyph(g_):
            return None, f"`{norm(p0)}` does not repeat a one-cell glyph"
        if not (isinstance(n_, ast.BinOp) and isinstance(n_.op, ast.FloorDiv) and norm(n_.right) == "8"):
            return None, f"cell count `{norm(n_)}` is not <eighths> // 8"
        X = n_.left
        rem = f"{norm(X)} % 8"
        has_extra = len(parts) == 2
        if has_extra:
            t = parts[1]
            if not (table_ok(t) and norm(t.slice) == rem):
                return None, f"`{norm(t)}` is not a one-cell glyph table indexed by {rem}"
        if facts.get(rem) is not has_extra:
            return None, f"the extra glyph is {'present' if has_extra else 'absent'} on a path where `{rem}` is {facts.get(rem)}"
        return X, None

    n_paths = 0
    templates = set()
    for p_ in P:
        ys = []
        for e in p_:
            if e[0] == "yield":
                try:
                    c = ast.parse(e[1], mode="eval").body
                except SyntaxError:
                    c = None
                if isinstance(c, ast.Call) and norm(c.func) == "Segment" and c.args:
                    ys.append(c)
        facts = {e[1]: e[2] for e in p_ if e[0] == "cond"}
        if len(ys) != 1:
            ctx.violation(f.fq, show(p_)[:200], f.where, f"a path through Bar.__rich_console__ emits {len(ys)} text segments instead of one line")
            continue
        n_paths += 1
        text = ys[0].args[0]
        empty = consistent(p_, {"self.begin < self.end": False})
        nonempty = consistent(p_, {"self.begin < self.end": True})
        if empty and nonempty:
            ctx.violation(f.fq, show(p_)[:200], f.where, "Bar: a path emits the bar without deciding begin >= end: with begin > end the prefix is longer than the body and the line exceeds the width")
            continue
        if empty:
            ok = isinstance(text, ast.BinOp) and isinstance(text.op, ast.Mult) and {norm(text.left), norm(text.right)} == {"' '", "width"}
            ctx.check(ok, f.fq, norm(text)[:120], f.where, "the empty bar is exactly `width` spaces", "Bar: the empty bar is not ' ' * width")
            continue
        # a conditional expression that was not forked (it sits inside a value substituted as a whole) is decided by the path's facts
        class _Pick(ast.NodeTransformer):
            def visit_IfExp(self, node):
                self.generic_visit(node)
                tv = facts.get(norm(node.test))
                if tv is True:
                    return node.body
                if tv is False:
                    return node.orelse
                return node
        text = _Pick().visit(text)
        items = flat(text)
        k = [i for i, it in enumerate(items) if isinstance(it, ast.Subscript) and isinstance(it.slice, ast.Slice)]
        if len(k) != 1 or k[0] == 0 or k[0] != len(items) - 2:
            ctx.violation(f.fq, norm(text)[:160], f.where, "Bar emits a line that is not prefix + body[len(prefix):] + padding: its length is not `width` cells")
            continue
        pre, sub, suf = items[: k[0]], items[k[0]], items[-1]
        ptxt = " + ".join(norm(x) for x in pre)
        lower = sub.slice.lower
        ok_slice = sub.slice.upper is None and sub.slice.step is None and isinstance(lower, ast.Call) and norm(lower.func) == "len" and len(lower.args) == 1 and flat(lower.args[0]) and " + ".join(norm(x) for x in flat(lower.args[0])) == ptxt
        body_parts = flat(sub.value)
        btxt = " + ".join(norm(x) for x in body_parts)
        ok_suf = (isinstance(suf, ast.BinOp) and isinstance(suf.op, ast.Mult) and isinstance(suf.left, ast.Constant) and suf.left.value == " " and isinstance(suf.right, ast.BinOp) and isinstance(suf.right.op, ast.Sub)
                  and norm(suf.right.left) == "width" and isinstance(suf.right.right, ast.Call) and norm(suf.right.right.func) == "len" and " + ".join(norm(x) for x in flat(suf.right.right.args[0])) == btxt)
        ctx.check(ok_slice and ok_suf, f.fq, norm(text)[:200], f.where, "emitted text = P + B[len(P):] + ' ' * (width - len(B)): len(P) + max(0, len(B) - len(P)) + (width - len(B))",
                  "Bar emits a line that is not prefix + body[len(prefix):] + ' ' * (width - len(body)): the line is not exactly `width` cells")
        Xp, why_p = analyse_string(pre, facts)
        Xb, why_b = analyse_string(body_parts, facts)
        ctx.check(why_p is None, f.fq, ptxt[:160], f.where, "prefix is ceil(p / 8) one-cell glyphs", f"Bar: the prefix string is not `glyph * (p // 8)` extended by exactly one one-cell glyph when p % 8 is non-zero ({why_p}): its cell length is no longer ceil(p/8)")
        ctx.check(why_b is None, f.fq, btxt[:160], f.where, "body is ceil(b / 8) one-cell glyphs", f"Bar: the body string is not `glyph * (b // 8)` extended by exactly one one-cell glyph when b % 8 is non-zero ({why_b}): its cell length is no longer ceil(b/8)")
        if Xp is not None and Xb is not None:
            tp, tb = edge_template(Xp), edge_template(Xb)
            ctx.check(tp is not None and tp[1] == "begin", f.fq, norm(Xp), f.where, "begin edge = rounding(width * 8 * begin / size)", f"Bar: the begin edge `{norm(Xp)}` is not a rounding of width * 8 * begin / size - the number of eighths is no longer monotone in the edge / bounded by 8 * width, so the bar can exceed its width")
            ctx.check(tb is not None and tb[1] == "end", f.fq, norm(Xb), f.where, "end edge = rounding(width * 8 * end / size), at most 8 * width when end <= size", f"Bar: the end edge `{norm(Xb)}` is not a rounding of width * 8 * end / size - the body can be longer than the width")
            if tp and tb:
                ctx.check(tp[0] == tb[0], f.fq, f"{norm(Xp)} / {norm(Xb)}", f.where, f"both edges use `{tp[0]}`",
                          f"the begin edge is computed as `{norm(Xp)}` but the end edge as `{norm(Xb)}`: with different rounding the begin can land past the end, the prefix is then longer than the body and the emitted line is one cell wider than the bar's width")
                templates.add((tp[0], tb[0]))
    ctx.floor(n_paths, 3, "paths through Bar.__rich_console__")
    init = ctx.repo.fn("bar:Bar.__init__")
    ia = {norm(x.targets[0]): x.value for x in walk_local(init.node) if isinstance(x, ast.Assign) and len(x.targets) == 1}

    def clamp(v, fn, a, b):
        return isinstance(v, ast.Call) and norm(v.func) == fn and sorted(norm(z) for z in v.args) == sorted([a, b])
    ctx.check(clamp(ia.get("self.begin"), "max", "begin", "0"), init.fq, "self.begin = max(begin, 0)", init.where, "begin >= 0", "Bar.__init__ no longer clamps begin to >= 0: a negative begin gives a negative number of eighths")
    ctx.check(clamp(ia.get("self.end"), "min", "end", "size"), init.fq, "self.end = min(end, size)", init.where, "end <= size, so the end edge is at most 8 * width eighths", "Bar.__init__ no longer clamps end to <= size: the body can be longer than the width")


def r8_11(ctx):
    ctx.rule("R8.11", "tree walk consults the visited node: in Tree.__rich_console__ and Tree.__rich_measure__ every read of `.expanded` / `.children` that decides whether to descend is made on the node taken from the walk (the loop / stack variable), never on `self` - a collapsed inner node hides exactly its own subtree")
    n = 0
    for spec in ("tree:Tree.__rich_console__", "tree:Tree.__rich_measure__"):
        f = ctx.repo.fn(spec)
        m = f.module
        loops = [x for x in walk_local(f.node) if isinstance(x, (ast.While, ast.For))]
        if not loops:
            raise AnchorVanished(f"{spec}: walk loop not found")
        for lp in loops:
            for x in ast.walk(lp):
                if isinstance(x, ast.If):
                    reads = [a for a in ast.walk(x.test) if isinstance(a, ast.Attribute) and a.attr in ("expanded", "children")]
                    if not any(a.attr == "expanded" for a in reads):
                        continue
                    n += 1
                    recv = {norm(a.value) for a in reads}
                    ok = len(recv) == 1 and "self" not in recv
                    ctx.check(ok, f.fq, f"if {norm(x.test)}", f"{m.relpath}:{x.lineno}", f"descent decided by the visited node `{sorted(recv)[0] if recv else '?'}`",
                              f"`if {norm(x.test)}` decides the descent into a node's children with the flag of {sorted(recv)}: the walk must consult the node it is visiting (a collapsed inner node still shows its children / an expanded one is hidden when the root is collapsed)")
    ctx.floor(n, 2, "descend tests in the tree walks")


def r8_12(ctx):
    ctx.rule("R8.12", "the filled part of a progress bar is computed from the CLAMPED completed value: in ProgressBar.__rich_console__ the quantity X in int(width * 2 * X / self.total) is min(self.total, max(0, self.completed)) (either nesting), so 0 <= complete_halves <= 2 * width and neither the filled nor the remaining part can exceed the bar's width; the raw self.completed may be above the total or negative")
    from ..astutil import inline as _inl, single_defs as _sdf
    f = ctx.repo.fn("progress_bar:ProgressBar.__rich_console__")
    m = f.module
    sd = _sdf(f.node)
    sites = []
    for x in walk_local(f.node):
        if isinstance(x, ast.BinOp) and isinstance(x.op, ast.Div) and norm(_inl(x.right, sd)) == "self.total":
            facs = []

            def factors(e):
                if isinstance(e, ast.BinOp) and isinstance(e.op, ast.Mult):
                    factors(e.left)
                    factors(e.right)
                else:
                    facs.append(e)
            factors(x.left)
            if any(norm(_inl(a, sd)).startswith("min(") or norm(a) == "width" for a in facs):
                sites.append((x, facs))
    if not sites:
        raise AnalysisError("ProgressBar.__rich_console__: no `width * 2 * X / self.total` found; the fill computation is written in a form this rule does not read")
    for x, facs in sites:
        others = [a for a in facs if not (isinstance(a, ast.Constant) or norm(a) == "width")]
        where = f"{m.relpath}:{x.lineno}"
        if len(others) != 1:
            raise AnalysisError(f"ProgressBar.__rich_console__: `{short(x)}` has {len(others)} non-constant factors besides width")
        X = _inl(others[0], sd)

        def clamp(e):
            """(lo, hi, inner) for min(hi, max(lo, inner)) / max(lo, min(hi, inner)), argument order free"""
            if not (isinstance(e, ast.Call) and norm(e.func) in ("min", "max") and len(e.args) == 2):
                return None
            outer = norm(e.func)
            for i in (0, 1):
                bound, rest = e.args[i], e.args[1 - i]
                if isinstance(rest, ast.Call) and norm(rest.func) in ("min", "max") and norm(rest.func) != outer and len(rest.args) == 2:
                    for j in (0, 1):
                        b2, inner = rest.args[j], rest.args[1 - j]
                        hi, lo = (bound, b2) if outer == "min" else (b2, bound)
                        if norm(_inl(hi, sd)) == "self.total" and isinstance(lo, ast.Constant) and lo.value == 0:
                            return (lo, hi, inner)
            return None
        c = clamp(X)
        if c is None:
            # bounds written through temporaries (total = self.total)
            X2 = ast.parse(norm(X).replace("total", "total"), mode="eval").body
            c = clamp(X2)
        if c is not None and norm(c[2]) == "self.completed":
            ctx.ok(where, "fill computed from min(self.total, max(0, self.completed))", f.fq)
        elif norm(X) == "self.completed" or (c is None and "self.completed" in norm(X) and "min(" not in norm(X)):
            ctx.violation(f.fq, short(x), where, f"`{short(x)}` uses the unclamped `{norm(X)}`: with completed > total the filled part alone is wider than the bar (ProgressBar(total=100, completed=150) at width 60 renders 61+ cells), with completed < 0 the remaining part is")
        else:
            raise AnalysisError(f"ProgressBar.__rich_console__: the fill quantity `{norm(X)}` is neither the clamp of self.completed to [0, self.total] nor the raw value; not decided")


def r8_13(ctx):
    from .c01 import r1_1
    from .common import borrow
    borrow(ctx, r1_1, "R1.1", "R8.13", " [a frame is an exact rectangle only if its child is rendered at no more than the inner width]")


def r8_14(ctx):
    from .c13 import r13_7
    from .common import borrow
    borrow(ctx, r13_7, "R13.7", "R8.14", " [the child's lines are cropped / padded to the inner width in cells]")


def r8_15(ctx):
    ctx.rule("R8.15", "grid positions are kept: in Columns.__rich_console__ the list of cells (with its None placeholders that complete the last row) is only ever MAPPED - every comprehension that rebuilds it from itself has no filter - because rows are cut out of it by position; dropping the placeholders shifts the cells of a short last row into the wrong columns")
    f = ctx.repo.fn("columns:Columns.__rich_console__")
    m = f.module
    n = 0
    for x in walk_local(f.node):
        if isinstance(x, ast.Assign) and len(x.targets) == 1 and isinstance(x.targets[0], ast.Name) and isinstance(x.value, ast.ListComp) and len(x.value.generators) == 1 and norm(x.value.generators[0].iter) == x.targets[0].id:
            n += 1
            ctx.check(not x.value.generators[0].ifs, f.fq, short(x), f"{m.relpath}:{x.lineno}", "cells rewrapped one for one",
                      f"`{short(x)}` filters the cell list while rewrapping it: the None placeholders that pad the last row disappear, rows are then cut at the wrong positions (with right_to_left the short row is placed from the wrong side)")
    if not n:
        ctx.ok(f.where, "the cell list is not rebuilt from itself", f.fq)


def r8_16(ctx):
    from .c01 import r1_3
    from .common import borrow
    borrow(ctx, r1_3, "R1.3", "R8.16", " [a frame is a rectangle of at most the width it was given: the child of a fitting Panel is measured against the width minus the two border cells, otherwise the right border is pushed out and cropped]")


RULES = [r8_3, r8_4, r8_5, r8_6, r8_7, r8_8, r8_9, r8_10, r8_11, r8_12, r8_13, r8_14, r8_15, r8_16, r8_17, r8_18]
