"""Regenerate /verif/MANIFEST.json from the per-property table below:  python -m sa.manifest_gen"""
from __future__ import annotations

import json
import os

from .check import load_rules

VERIF = os.path.dirname(os.path.dirname(os.path.abspath(__file__)))

BASELINE = "cd /repo && /venv/bin/python -m pytest -ra -q -p no:cacheprovider --timeout=900 --continue-on-collection-errors"

COMMON_NOTE = (
    "Trusted base: CPython's ast parser and the Python semantics of the constructs the rules interpret; "
    "rich is never imported or executed. Dynamic dispatch to user classes, monkey-patching and subclass overrides outside rich/ are not seen. "
)

# property -> dict(category, text, note, technique, design_ref)
CLAIMS = {
    "C06": dict(
        category="other",
        text="Static rules over rich/style.py decide, for every input, the structural clauses of the property: (R6.1) __eq__ and the hash use the same fields; "
             "(R6.2) on every __new__ construction route each derived slot (_hash, _style_definition, _ansi) is recomputed from the new object's own fields, reset for lazy refill, or copied only when all fields it depends on are copied unchanged - this is 'equal styles hash equal however constructed' and 'str() reflects a link update'; "
             "(R6.3) every route fills every slot; (R6.4) per-bit truth tables of the extracted & | ~ expressions prove right-bias, the attr-subset-of-set invariant and associativity of __add__, the colour/link picks are right-biased and null operands return the other operand; "
             "(R6.5) the attribute<->bit mapping agrees across _Bit descriptors, __init__ weights, __str__ words, parse() vocabulary and SGR emission; (R6.7) the _null flag can only be True on an empty style. "
             "Not decided: lru_cache interactions, URLs with whitespace, Color.parse accepting every Color.name value.",
        note=COMMON_NOTE + "Assumes tuple hashing is a function of element equality and Color is hashable by value (NamedTuple).",
        technique="field-dependency dataflow over construction routes + per-bit truth tables of extracted bitwise expressions + table agreement",
        design_ref="5/C06",
    ),
    "C13": dict(
        category="other",
        text="Static rules decide the structural clauses: (R13.1) the width table is well-formed for binary search (sorted, disjoint, widths in {-1,0,1,2}), agrees with the ASCII shortcut and has no writer - exhaustive over all entries; "
             "(R13.2) the search moves only the correct bound strictly past the probe on each comparison outcome, returns the table width on a hit and 1 on a miss; "
             "(R13.3/R13.6) every cache in cells.py/_lru_cache.py/segment.py is transparent: same key for lookup and store, stored value = returned value, value depends only on the key (def-use closure incl. control dependence) and never-written constants - this is 'regardless of what was measured before'; "
             "(R13.4) the style of every padding segment/helper has the `style` parameter as its only reaching definition; (R13.5) pad counts and crop targets are exactly requested length minus measured cells (linear forms + reaching definitions). "
             "Not decided: the table equals Unicode, chop_cells for all strings, character/style preservation of cropped lines.",
        note=COMMON_NOTE + "functools.lru_cache and OrderedDict behave as documented.",
        technique="literal-table validation + role-based check of the binary search + memoisation soundness by def-use/control-dependence closure + reaching definitions + linear forms",
        design_ref="5/C13",
    ),
    "C18": dict(
        category="proof",
        text="Abstract interpretation (intervals x enum constants x records, path-forking with refinement; sa/absint.py) of Color.downgrade for all 5 colour types x 4 target systems and of Color.get_ansi_codes for all types x fg/bg, "
             "over ALL component/number values at once: proves every result is in gamut ([0,15] for standard/windows, [0,255] else), default and already-representable colours return self, re-conversion returns the result unchanged, greys land on {16,231} U [232,255], the cube index is 16+36r+6g+b, no path raises or indexes a palette out of range, "
             "and the SGR parameter forms are exactly 39/49, 30-37/90-97, 40-47/100-107, 38;5;n, 38;2;r;g;b. (R18.5) match() is builtin min over every palette index keyed by a distance that pairs like components; (R18.6) caches in color/palette are sound; (R18.7) all construction sites classify numbers 0..255 identically. "
             "Obligations = (case, path) pairs; all must be discharged. Not decided: palette contents are the colours terminals use; the metric's weights.",
        note=COMMON_NOTE + "colorsys.rgb_to_hls maps [0,1]^3 to [0,1]^3; round is monotone; builtin min(key=) is an argmin; colours satisfy the constructor invariants (number/component ranges).",
        technique="abstract interpretation (interval/enum/record domains) of the conversion code over all colour types x systems",
        design_ref="5/C18",
    ),
    "C10": dict(
        category="other",
        text="Decides the fault clause and the structural necessary conditions of the screen clause. (R10.1) In the CFG of Live.stop / Progress.stop with exceptional edges out of every may-raise statement, every path from the `_started = False` store to ANY exit (normal or raising) passes through each release matching an acquisition made by start() (show_cursor(True), _disable_redirect_io, pop_render_hook); __exit__ of Live/Progress/Status reaches stop() on every path and returns falsy; the redirect slots are restored pairwise. "
             "(R10.2) the stored frame shape is get_shape of exactly the lines emitted (reaching definitions incl. slicing/append; or set_shape to the stored shape). (R10.3) cursor-ups/erases in position_cursor/restore_cursor are h-1/h and h/h as linear forms of the stored height and the writers emit len(lines)-1 newlines. (R10.4) both hooks wrap prints as [eraser, *output, frame] and print/log apply hooks before rendering. "
             "Not decided: the terminal-model replay over histories, tall frames, faults inside the release calls.",
        note=COMMON_NOTE + "Fault model: any statement of stop() other than the three release calls may raise.",
        technique="CFG must-pass-through with exceptional edges (typestate pairing) + reaching definitions + linear forms of control strings",
        design_ref="5/C10",
    ),
    "C11": dict(
        category="other",
        text="Decides the lock discipline the property rests on, for all schedules, from the code: (R11.1) every write/flush on a Console's file holds Console._lock (lexically or on entry from every caller; Console.input's prompt echo is the one named exception); (R11.2) in _check_buffer the snapshot, its rendering/recording, the buffer clear and the single write of that string are in ONE Console._lock region guarded by _buffer_index == 0; "
             "(R11.3) the buffer and nesting counter live in a threading.local subclass with per-thread default_factory and are never replaced; (R11.4) _record_buffer is only touched under _record_buffer_lock, the live renderer's state only under Live._lock; (R11.5) the lock-order graph over the four RLocks (may-held x acquires-transitively over a class-hierarchy call graph) is acyclic; (R11.6) no Thread.join while a lock the thread's run() needs may be held. "
             "These are necessary conditions: failing one admits an interleaving that breaks the property. Not decided: actual interleavings, the composed screen invariant.",
        note=COMMON_NOTE + "RLock/threading.local semantics; user file objects and user renderables take no rich locks; call resolution as listed in evidence (unresolved calls are to builtins/stdlib/user objects).",
        technique="lock-region (guarded-by) analysis, held-on-entry fixpoint over a resolved call graph, lock-order graph acyclicity, join-under-lock check",
        design_ref="5/C11",
    ),
    "C12": dict(
        category="other",
        text="Decides atomicity and the structural clauses: (R12.1) every access to a Task's counters and to Progress._tasks/_task_index in Progress methods and their helpers holds Progress._lock (no lost update under any interleaving); (R12.2) every speed sample's timestamp is read inside the lock region that appends it (samples are time-ordered, so speed cannot go negative with non-negative advances); "
             "(R12.3) every store to completed/total is followed on every path by the finish test (>=, finished_time is None) or a reset, finished_time has no other writer, total changes reset it; (R12.4) percentage is proved 0 for a zero total and within [0,100] otherwise by abstract interpretation, every division in Task properties is dominated by a non-zero test; (R12.5) track() iterates the sequence itself, yields each element once and counts exactly one unit after the yield; the helper thread flushes its final count. "
             "Not decided: arithmetic identities over whole histories, estimate values.",
        note=COMMON_NOTE + "RLock semantics; ProgressColumn subclasses supplied by users read tasks only through Progress (under its lock).",
        technique="guarded-by analysis with held-on-entry, reaching definitions of timestamps vs lock regions, CFG must-pass-through, abstract interpretation of clamps, dominance of zero tests",
        design_ref="5/C12",
    ),
}

NA = {
    "C02": "every clause is a relation between input and output strings decided by cell-width arithmetic (divide_line / chop_cells / truncate) over all strings x widths x span sets; "
           "no structural fact whose violation must break it exists that is not already owned by C05 (span bookkeeping of divide) or C13 (pad arithmetic); a static claim would be a brittle proxy (DESIGN.md section 8)",
}


def main() -> None:
    props = [json.loads(l) for l in open(os.path.join(VERIF, "properties.jsonl"))]
    checks = []
    na = []
    served = []
    for p in props:
        pid = p["id"]
        mod = load_rules(pid)
        if pid in CLAIMS and mod is not None:
            c = CLAIMS[pid]
            served.append(pid)
            checks.append({
                "property_id": pid,
                "quick_cmd": f"/venv/bin/python -m sa.check {pid} --tier quick",
                "thorough_cmd": f"/venv/bin/python -m sa.check {pid} --tier thorough",
                "evidence_file": f"/verif/evidence/{pid}.json",
                "replay_cmd_template": f"/venv/bin/python -m sa.check {pid} --replay {{path}}",
                "engine": "sa",
                "level_claimed": {"category": c["category"], "text": c["text"], "design_ref": c["design_ref"]},
                "level_note": c["note"],
                "technique": c["technique"],
            })
        else:
            na.append({
                "property_id": pid,
                "reason": NA.get(pid, "check not yet implemented (planned rules: DESIGN.md section 5); nothing is claimed for this property yet"),
            })
    m = {
        "version": 1,
        "setup_cmd": "/venv/bin/python -m sa.check --self",
        "hooks": {
            "guard": "RICH_VERIF",
            "enable": "no hooks are needed or present: every check reads /repo/rich source text only (guard name reserved, unused)",
            "baseline_off_cmd": BASELINE,
            "source_commits": [],
            "add_only": True,
        },
        "engines": [{
            "name": "sa",
            "path": "/verif/sa",
            "serves_properties": served,
            "kind_free_text": "repository-specific static analyser, pure stdlib: ast index, statement CFG with exceptional edges and per-continuation finally copies, "
                              "reaching definitions, call graph, lock regions, small abstract domains (intervals, bit truth tables, weak orderings), literal-table agreement",
        }],
        "checks": checks,
        "notes": "Static-analysis family only: every verdict is computed from /repo/rich/*.py as on disk at the start of the check. Exit 0 ok / 1 VIOLATION / 2 ANALYSIS-ERROR. See DESIGN.md.",
        "not_applicable": na,
    }
    with open(os.path.join(VERIF, "MANIFEST.json"), "w") as f:
        json.dump(m, f, indent=1)
    print(f"MANIFEST.json: {len(checks)} checks, {len(na)} not_applicable")


if __name__ == "__main__":
    main()
