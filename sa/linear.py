"""Linear integer forms over opaque atoms (normalised source text of sub-expressions)."""
from __future__ import annotations

import ast
from typing import Callable, Dict, Optional

from .index import norm

Lin = Dict[str, int]  # atom -> coefficient ; "" is the constant term


def _add(a: Lin, b: Lin, sign: int = 1) -> Lin:
    out = dict(a)
    for k, v in b.items():
        out[k] = out.get(k, 0) + sign * v
        if out[k] == 0:
            del out[k]
    return out


def _scale(a: Lin, c: int) -> Lin:
    return {k: v * c for k, v in a.items() if v * c != 0}


def lin(e: ast.AST, subst: Optional[Callable[[ast.AST], Optional[Lin]]] = None) -> Lin:
    """Linear form of expression e. `subst(node)` may supply a form for a sub-expression (e.g. a
    name with a known definition). Non-linear sub-expressions become opaque atoms."""
    if subst is not None:
        r = subst(e)
        if r is not None:
            return r
    if isinstance(e, ast.Constant) and isinstance(e.value, int) and not isinstance(e.value, bool):
        return {"": e.value} if e.value else {}
    if isinstance(e, ast.UnaryOp) and isinstance(e.op, ast.USub):
        return _scale(lin(e.operand, subst), -1)
    if isinstance(e, ast.UnaryOp) and isinstance(e.op, ast.UAdd):
        return lin(e.operand, subst)
    if isinstance(e, ast.BinOp):
        if isinstance(e.op, ast.Add):
            return _add(lin(e.left, subst), lin(e.right, subst))
        if isinstance(e.op, ast.Sub):
            return _add(lin(e.left, subst), lin(e.right, subst), -1)
        if isinstance(e.op, ast.Mult):
            l, r = lin(e.left, subst), lin(e.right, subst)
            if set(l) <= {""}:
                return _scale(r, l.get("", 0))
            if set(r) <= {""}:
                return _scale(l, r.get("", 0))
    return {norm(e): 1}


def const(c: int) -> Lin:
    return {"": c} if c else {}


def atom(name: str) -> Lin:
    return {name: 1}


def eq(a: Lin, b: Lin) -> bool:
    return {k: v for k, v in a.items() if v} == {k: v for k, v in b.items() if v}


def show(a: Lin) -> str:
    if not a:
        return "0"
    parts = []
    for k in sorted(a, key=lambda x: (x == "", x)):
        v = a[k]
        if k == "":
            parts.append(f"{v:+d}")
        elif v == 1:
            parts.append(f"+{k}")
        elif v == -1:
            parts.append(f"-{k}")
        else:
            parts.append(f"{v:+d}*{k}")
    s = " ".join(parts)
    return s[1:] if s.startswith("+") else s


def local_subst(fn_node, keep=()):
    """subst function for lin(): expands names assigned exactly once in fn_node to a pure arithmetic
    expression (+ - * over names and int constants), so temporaries do not change a linear form."""
    from .index import walk_local

    counts = {}
    vals = {}
    for n in walk_local(fn_node):
        if isinstance(n, ast.Assign):
            for t in n.targets:
                for x in ast.walk(t):
                    if isinstance(x, ast.Name):
                        counts[x.id] = counts.get(x.id, 0) + 1
            if len(n.targets) == 1 and isinstance(n.targets[0], ast.Name):
                vals[n.targets[0].id] = n.value
        elif isinstance(n, (ast.AugAssign, ast.AnnAssign, ast.For, ast.comprehension, ast.NamedExpr)):
            t = n.target
            for x in ast.walk(t):
                if isinstance(x, ast.Name):
                    counts[x.id] = counts.get(x.id, 0) + 2

    def pure(e):
        return all(isinstance(x, (ast.BinOp, ast.UnaryOp, ast.Name, ast.Constant, ast.Add, ast.Sub, ast.Mult, ast.USub, ast.UAdd, ast.Load)) for x in ast.walk(e)) and isinstance(e, (ast.BinOp, ast.UnaryOp))

    def subst(e, _depth=[0]):
        if isinstance(e, ast.Name) and e.id not in keep and counts.get(e.id) == 1 and e.id in vals and pure(vals[e.id]) and _depth[0] < 6:
            _depth[0] += 1
            try:
                return lin(vals[e.id], subst)
            finally:
                _depth[0] -= 1
        return None

    return subst
