"""Integer polynomial normal form with floor-division atoms.

poly  ::= {monomial: int coefficient}      monomial ::= sorted tuple of atoms (with repetition)
atom  ::= variable name | ("fdiv", frozen poly, positive int)      (x >> k is x // 2**k; both floor towards -inf in Python)

Two expressions over integer variables built from + - * ** (constant exponent) // (constant divisor) >> (constant) are
extensionally equal if their normal forms are equal (the converse does not hold in general; a mismatch is only 'not shown equal').
True division, float constants and anything else raise NotInteger / Unsupported.
"""
from __future__ import annotations

import ast
from typing import Dict, Tuple


class NotInteger(Exception):
    """the expression leaves integer arithmetic (true division, float constant, non-integer power)"""


class Unsupported(Exception):
    pass


Poly = Dict[Tuple, int]


def const(c: int) -> Poly:
    return {(): c} if c else {}


def var(a) -> Poly:
    return {(a,): 1}


def add(p: Poly, q: Poly, sign: int = 1) -> Poly:
    out = dict(p)
    for m, c in q.items():
        out[m] = out.get(m, 0) + sign * c
        if out[m] == 0:
            del out[m]
    return out


def _atom_key(a):
    return (0, a) if isinstance(a, str) else (1, repr(a))


def mul(p: Poly, q: Poly) -> Poly:
    out: Poly = {}
    for m1, c1 in p.items():
        for m2, c2 in q.items():
            m = tuple(sorted(m1 + m2, key=_atom_key))
            out[m] = out.get(m, 0) + c1 * c2
            if out[m] == 0:
                del out[m]
    return out


def freeze(p: Poly):
    return tuple(sorted(((tuple(m), c) for m, c in p.items()), key=repr))


def fdiv(p: Poly, d: int) -> Poly:
    if d <= 0:
        raise Unsupported("division by a non-positive constant")
    if d == 1:
        return p
    # split off the part divisible by d:  (d*A + B) // d == A + B // d  for integer A
    whole = {m: c // d for m, c in p.items() if c % d == 0}
    rest = {m: c for m, c in p.items() if c % d != 0}
    if not rest:
        return whole
    return add(whole, var(("fdiv", freeze(rest), d)))


def is_const(p: Poly):
    if not p:
        return 0
    if set(p) == {()}:
        return p[()]
    return None


def of_expr(e: ast.AST, env=None) -> Poly:
    """env: name -> Poly (already normalised) for names; unknown names become variables"""
    env = env or {}
    if isinstance(e, ast.Constant):
        if isinstance(e.value, bool) or not isinstance(e.value, int):
            if isinstance(e.value, float):
                raise NotInteger(f"float constant {e.value!r}")
            raise Unsupported(f"constant {e.value!r}")
        return const(e.value)
    if isinstance(e, ast.Name):
        return env[e.id] if e.id in env else var(e.id)
    if isinstance(e, ast.UnaryOp) and isinstance(e.op, ast.USub):
        return add({}, of_expr(e.operand, env), -1)
    if isinstance(e, ast.UnaryOp) and isinstance(e.op, ast.UAdd):
        return of_expr(e.operand, env)
    if isinstance(e, ast.BinOp):
        if isinstance(e.op, ast.Div):
            raise NotInteger("true division `/`")
        a = of_expr(e.left, env)
        b = of_expr(e.right, env)
        if isinstance(e.op, ast.Add):
            return add(a, b)
        if isinstance(e.op, ast.Sub):
            return add(a, b, -1)
        if isinstance(e.op, ast.Mult):
            return mul(a, b)
        if isinstance(e.op, ast.Pow):
            k = is_const(b)
            if k is None or k < 0 or k > 8:
                raise Unsupported("power with a non-constant exponent")
            out = const(1)
            for _ in range(k):
                out = mul(out, a)
            return out
        if isinstance(e.op, (ast.FloorDiv, ast.RShift)):
            k = is_const(b)
            if k is None:
                raise Unsupported("division by a non-constant")
            if isinstance(e.op, ast.RShift):
                if k < 0 or k > 62:
                    raise Unsupported("shift amount")
                k = 1 << k
            return fdiv(a, k)
        if isinstance(e.op, ast.LShift):
            k = is_const(b)
            if k is None or k < 0 or k > 62:
                raise Unsupported("shift amount")
            return mul(a, const(1 << k))
    raise Unsupported(f"construct {type(e).__name__}")


def show(p: Poly) -> str:
    def atom(a):
        return a if isinstance(a, str) else f"floor(({show(dict((tuple(m), c) for m, c in a[1]))})/{a[2]})"
    terms = []
    for m, c in sorted(p.items(), key=repr):
        terms.append("*".join(([str(c)] if c != 1 or not m else []) + [atom(a) for a in m]))
    return " + ".join(terms) or "0"


def skeleton(p: Poly):
    """variables-only shape: the multiset of monomials with coefficients and fdiv divisors erased"""
    def atom(a):
        return a if isinstance(a, str) else ("fdiv", skeleton(dict((tuple(m), c) for m, c in a[1])))
    return tuple(sorted((tuple(atom(a) for a in m) for m in p), key=repr))


def evaluate(p: Poly, env: Dict[str, int]) -> int:
    """Value of a normal form at an integer point (exact; floor atoms use Python's floor division)."""
    total = 0
    for mono, c in p.items():
        v = c
        for a in mono:
            if isinstance(a, str):
                v *= env[a]
            else:
                v *= evaluate(dict((tuple(m), cc) for m, cc in a[1]), env) // a[2]
        total += v
    return total
