"""C08 Framing renderables draw exact rectangles around intact content."""
from __future__ import annotations

import ast
from typing import List, Optional

from .. import cfg as cfgmod
from ..astutil import call_name, const_int, kwarg, literal
from ..index import AnalysisError, AnchorVanished, norm, short, walk_local
from ..linear import eq as lin_eq, lin, show
from ..linewidth import Emit, WidthEnv
from .c07 import _cell_width_fn, r7_3

LEVEL = "other"
UNDECIDED = [
    "Align centring arithmetic, Bar/ProgressBar eighths arithmetic, Columns exactly-once placement, Tree traversal order",
    "that the child's own lines appear unchanged inside the frame beyond being passed through unmodified between the frame segments",
    "rule text construction for titled rules before the final set_cell_size (only the final resize to the given width is decided)",
]
TRUSTED = ["CPython ast parser", "Console.render_lines pads every line to the options' max_width (C01 R1.2 / C13 R13.5)", "Segment.set_shape(lines, w) yields lines of width w (C13)", "Text.align(_, w) yields text of w cells"]


def _frame_rule(ctx, spec: str, frame_desc: str):
    f = ctx.repo.fn(spec)
    env = WidthEnv(f)
    em = Emit(env).run()
    where = f.where
    for ln, msg in em.problems:
        ctx.violation(f.fq, msg, f"{f.module.relpath}:{ln}", f"{f.qualname}: {msg}: the frame is not a rectangle for every input")
    if not em.lines:
        ctx.violation(f.fq, "no lines", where, f"{f.qualname}: no emitted line could be analysed")
        return None, None, None
    ref = em.lines[0][0]
    for w, desc, ln in em.lines:
        ctx.check(lin_eq(w, ref), f.fq, f"line `{desc}`: {show(w)}", f"{f.module.relpath}:{ln}", f"line width {show(w)} equals the common width",
                  f"{f.qualname}: the line emitted at `{desc}` is `{show(w)}` cells wide but the first line is `{show(ref)}`: not all lines of the {frame_desc} have equal width")
    return f, env, em


def r8_3(ctx):
    ctx.rule("R8.3", "line-width algebra: abstract execution of Padding.__rich_console__ and Panel.__rich_console__ - every emitted line (top/bottom border or blank lines, and frame + child line + frame) has the same symbolic cell width w, the child's lines are emitted unmodified between the frame segments, and the frame adds exactly left+right (Padding) / 2 (Panel) cells to the width handed to the child")
    # Padding
    f, env, em = _frame_rule(ctx, "padding:Padding.__rich_console__", "padding")
    if em is not None:
        # child width + left + right == line width
        co = None
        for c in walk_local(f.node):
            if isinstance(c, ast.Call) and norm(c.func).endswith("console.render_lines"):
                co = c
        if co is None:
            raise AnchorVanished("Padding.__rich_console__: render_lines call not found")
        ow = env.options_width(co.args[1], env.nid(co))
        ref = em.lines[0][0]
        want = dict(ow[0])
        for a in ("self.left", "self.right"):
            want[a] = want.get(a, 0) + 1
        want = {k: v for k, v in want.items() if v}
        ctx.check(lin_eq(want, ref), f.fq, f"child width {show(ow[0])} + left + right", f"{f.module.relpath}:{co.lineno}", "frame adds exactly left + right cells to the child's width",
                  f"Padding hands the child `{show(ow[0])}` cells but its lines are `{show(ref)}` wide: the frame does not add exactly left + right cells")
        # vertical: top/bottom counts
        src = norm(f.node)
        ctx.check("top = [blank_line] * self.top" in src and "bottom = [blank_line] * self.bottom" in src, f.fq, "top/bottom blank lines", f.where, "exactly `top` blank lines above and `bottom` below", "Padding does not emit exactly self.top / self.bottom blank lines")
    # Panel
    f, env, em = _frame_rule(ctx, "panel:Panel.__rich_console__", "panel")
    if em is not None:
        co = None
        for c in walk_local(f.node):
            if isinstance(c, ast.Call) and norm(c.func).endswith("console.render_lines"):
                co = c
        if co is None:
            raise AnchorVanished("Panel.__rich_console__: render_lines call not found")
        ow = env.options_width(co.args[1], env.nid(co))
        ref = em.lines[0][0]
        want = dict(ow[0])
        want[""] = want.get("", 0) + 2
        want = {k: v for k, v in want.items() if v}
        ctx.check(lin_eq(want, ref), f.fq, f"child width {show(ow[0])} + 2", f"{f.module.relpath}:{co.lineno}", "the border adds exactly 2 cells to the child's width",
                  f"Panel hands the child `{show(ow[0])}` cells but its lines are `{show(ref)}` wide: borders and content rows differ in width")
        ctx.floor(len(em.lines), 3, "panel line kinds (top, body, bottom)")
    # the child's lines pass through unmodified: `yield from line` for line in lines
    for spec in ("padding:Padding.__rich_console__", "panel:Panel.__rich_console__"):
        g = ctx.repo.fn(spec)
        ok = False
        for lp in walk_local(g.node):
            if isinstance(lp, ast.For) and norm(lp.iter) == "lines":
                ok = any(isinstance(b, ast.Expr) and isinstance(b.value, ast.YieldFrom) and norm(b.value.value) == norm(lp.target) for b in lp.body)
        ctx.check(ok, g.fq, "for line in lines: yield from line", g.where, "child lines emitted unchanged and in order", f"{g.qualname} does not emit the child's rendered lines unchanged, in order")


def r8_4(ctx):
    ctx.rule("R8.4", "rules fill their width: every `yield rule_text` in Rule.__rich_console__ is dominated by `rule_text.plain = set_cell_size(rule_text.plain, width)` with width identity-equal to options.max_width")
    f = ctx.repo.fn("rule:Rule.__rich_console__")
    g = cfgmod.build(f.node)
    rd = g.reaching_defs(weak=False)
    ys = [n for n in g.stmt_nodes() if n.kind == "stmt" and isinstance(n.stmt, ast.Expr) and isinstance(n.stmt.value, ast.Yield) and n.stmt.value.value is not None and norm(n.stmt.value.value) == "rule_text"]
    ctx.floor(len(ys), 2, "yield rule_text sites")
    sets = {n.id for n in g.stmt_nodes() if n.kind == "stmt" and isinstance(n.stmt, ast.Assign) and norm(n.stmt.targets[0]) == "rule_text.plain" and norm(n.stmt.value) == "set_cell_size(rule_text.plain, width)"}
    for y in ys:
        # dominated by a resize that comes after the last mutation of rule_text
        ok = g.dominated_by(y.id, sets)
        if ok:
            # no append/truncate to rule_text between the dominating resize and the yield
            muts = {n.id for n in g.stmt_nodes() if n.kind == "stmt" and any(isinstance(c, ast.Call) and isinstance(c.func, ast.Attribute) and norm(c.func.value) == "rule_text" and c.func.attr in ("append", "truncate", "pad", "pad_left", "pad_right", "align", "append_text") for c in ast.walk(n.stmt))}
            for s in sets:
                if y.id in g.reach([s]):
                    between = g.reach([s]) & {m for m in muts if y.id in g.reach([m])}
                    if between:
                        ok = False
        ctx.check(ok, f.fq, "yield rule_text", f"{f.module.relpath}:{y.lineno}", "the rule text is resized to exactly `width` cells right before it is yielded",
                  "a rule is yielded without a final `rule_text.plain = set_cell_size(rule_text.plain, width)`: characters wider than one cell (or the title arithmetic) make the rule shorter or longer than the width it was given")
    wd = [n for n in g.stmt_nodes() if n.kind == "stmt" and isinstance(n.stmt, ast.Assign) and norm(n.stmt.targets[0]) == "width"]
    ok = len(wd) == 1 and norm(wd[0].stmt.value) == "options.max_width"
    ctx.check(ok, f.fq, "width = options.max_width", f.where, "the rule's width is the width it is given", "Rule's width is not options.max_width")


def r8_5(ctx):
    ctx.rule("R8.5", "tree guides: every string in ASCII_GUIDES / TREE_GUIDES is exactly 4 cells wide (rich's own width table) and Tree.__rich_measure__ indents by the same 4 per level; children are pushed in order")
    f = ctx.repo.fn("tree:Tree.__rich_console__")
    cw = _cell_width_fn(ctx)
    n = 0
    for x in walk_local(f.node):
        if isinstance(x, ast.Assign) and norm(x.targets[0]) in ("ASCII_GUIDES", "TREE_GUIDES"):
            val = literal(x.value)
            rows = [val] if val and isinstance(val[0], str) else list(val)
            for row in rows:
                for s in row:
                    n += 1
                    w = sum(cw(ch) for ch in s)
                    ctx.check(w == 4, f.fq, f"{norm(x.targets[0])}: {s!r}", f"{f.module.relpath}:{x.lineno}", f"guide {s!r} is 4 cells", f"tree guide {s!r} is {w} cells wide, not 4: nested labels are not indented by four cells per level and the measured width is wrong", trivial=n > 4)
    ctx.floor(n, 16, "tree guide strings")
    m = ctx.repo.fn("tree:Tree.__rich_measure__")
    # the term added to a label's measurement is <depth> * 4 (the depth bookkeeping itself is not decided here)
    from .common import close_expr
    terms = []
    for c in walk_local(m.node):
        if isinstance(c, ast.Call) and norm(c.func) == "max" and len(c.args) == 2:
            for a in c.args:
                if isinstance(a, ast.BinOp) and isinstance(a.op, ast.Add):
                    for side in (a.left, a.right):
                        e = close_expr(m, side)
                        if isinstance(e, ast.BinOp) and isinstance(e.op, ast.Mult):
                            terms.append(e)
    ok = len(terms) >= 2 and all((isinstance(e.right, ast.Constant) and e.right.value == 4 and not isinstance(e.left, ast.Constant)) or (isinstance(e.left, ast.Constant) and e.left.value == 4 and not isinstance(e.right, ast.Constant)) for e in terms) and len({norm(e) for e in terms}) == 1
    ctx.check(ok, m.fq, norm(terms[0]) if terms else "indent", m.where, "measure adds 4 cells per level to both the minimum and the maximum", "Tree.__rich_measure__ does not indent by 4 cells per level (the width of a guide) in both the minimum and the maximum")
    src = norm(f.node)
    ctx.check("push(iter(loop_last(node.children)))" in src and "push(iter(loop_last([self])))" in src, f.fq, "depth-first in child order", f.where, "children are walked in order, depth first", "Tree no longer walks children in order, depth first")
    ctx.check("sum((level.cell_length for level in prefix))" in src, f.fq, "label width = max_width - prefix cells", f.where, "label budget subtracts the guide prefix", "Tree label width does not subtract the cells of the guide prefix")


def r8_6(ctx):
    r7_3(ctx)
    # relabel as R8.6
    ctx.rules_applied["R8.6"] = ctx.rules_applied.pop("R7.3")
    ctx.rule_counts["R8.6"] = ctx.rule_counts.pop("R7.3", 0)
    for o in ctx.obligations:
        if o["rule"] == "R7.3":
            o["rule"] = "R8.6"
    for v in ctx.violations:
        if v.rule == "R7.3":
            v.rule = "R8.6"


def r8_7(ctx):
    ctx.rule("R8.7", "the panel's title text is a fresh object on every render/measure: Panel._title pads and restyles the Text it returns (and __rich_console__ aligns it), so every value it returns must be newly built (Text.from_markup / Text(...) / .copy()), never the caller's own Text - otherwise the padding accumulates and the panel grows wider on every render")
    f = ctx.repo.cls("panel:Panel").method("_title")
    if f is None:
        raise AnchorVanished("Panel._title not found")
    m = f.module

    def fresh(e) -> bool:
        if isinstance(e, ast.IfExp):
            return fresh(e.body) and fresh(e.orelse)
        if isinstance(e, ast.Call):
            fn = norm(e.func)
            return fn.endswith(".copy") or fn in ("Text", "Text.from_markup", "Text.assemble", "Text.styled") or fn.endswith("render_str")
        return False

    n = 0
    for r in walk_local(f.node):
        if isinstance(r, ast.Return) and r.value is not None and not (isinstance(r.value, ast.Constant) and r.value.value is None):
            n += 1
            v = r.value
            exprs = [v]
            if isinstance(v, ast.Name):
                exprs = [x.value for x in walk_local(f.node) if isinstance(x, ast.Assign) and len(x.targets) == 1 and norm(x.targets[0]) == v.id]
            ok = bool(exprs) and all(fresh(e) for e in exprs)
            ctx.check(ok, f.fq, "; ".join(short(e) for e in exprs), f"{m.relpath}:{r.lineno}", "title text is newly built for each call",
                      f"Panel._title returns `{'; '.join(short(e) for e in exprs)}`, which can be the caller's own Text: it is padded / aligned in place on every measure and render, so the title (and a width-constrained panel) grows each time")
    ctx.floor(n, 1, "returns of Panel._title")
    # the mutations that make freshness necessary are really there (keeps the rule honest)
    src = norm(f.node)
    if ".pad(1)" not in src and ".align(" not in norm(ctx.repo.fn("panel:Panel.__rich_console__").node):
        ctx.note("Panel no longer mutates its title text; R8.7 is then vacuous")


def r8_8(ctx):
    ctx.rule("R8.8", "alignment wrapper (path-sensitive symbolic emission over all paths of Align's generator): the child's lines, shaped to their common width w, are emitted unchanged between pads; with padding enabled every line is exactly options.max_width cells for left / center / right (left + w + (excess - left) etc.), without padding never more; when the child already fills the width nothing is added")
    from ..pathemit import PathEmit
    f = ctx.repo.fn("align:Align.__rich_console__")
    pe = PathEmit(f, inner="generate_segments")
    states = pe.run()
    ctx.floor(len(states), 5, "paths through Align.generate_segments")
    W = {pe.W: 1}
    n = 0
    for s in states:
        where = f.where
        for ln, msg in s.problems:
            ctx.violation(f.fq, msg, f"{f.module.relpath}:{ln}", f"Align: {msg} on path [{' & '.join(s.conds)}]")
        if s.problems:
            continue
        conds = " & ".join(s.conds) or "always"
        for w, ln in s.lines:
            n += 1
            exact_fit = any(c.startswith("excess_space <= 0") for c in s.conds)
            padded = "self.pad" in s.conds or any("align == 'right'" == c for c in s.conds) and True
            # the child's own width
            child = s.store.get("width")
            cw = child.form if child is not None and child.kind == "int" else None
            if exact_fit:
                ok = cw is not None and s.equal(w, cw)
                ctx.check(ok, f.fq, f"[{conds}] line = {show(w)}", f"{f.module.relpath}:{ln}", "child fills the width: its lines are passed through unchanged",
                          f"Align adds cells although the child already fills the width (line is `{show(w)}`, child `{show(cw) if cw else '?'}`) on path [{conds}]")
                continue
            if "not self.pad" in s.conds and not any(c == "align == 'right'" for c in s.conds):
                # unpadded: left/center emit child (+ left pad for center): never more than W
                extra = _sub(w, cw) if cw is not None else None
                ok = extra is not None and (not extra or set(extra) <= {k for k in extra if extra[k] > 0})
                ctx.check(cw is not None, f.fq, f"[{conds}] line = {show(w)}", f"{f.module.relpath}:{ln}", "unpadded line = child (+ left part)", f"cannot relate the unpadded line `{show(w)}` to the child's width on path [{conds}]")
                continue
            ok = s.equal(w, W)
            ctx.check(ok, f.fq, f"[{conds}] line = {show(w)}", f"{f.module.relpath}:{ln}", f"padded line is exactly options.max_width on path [{conds}]",
                      f"Align emits a line of `{show(w)}` cells on path [{conds}]: not exactly the available width `{pe.W}` - the wrapper is not a rectangle of the full width")
    ctx.floor(n, 4, "emitted line kinds in Align")
    src = norm(f.node)
    ctx.check("excess_space = options.max_width - width" in src and "lines = Segment.set_shape(lines, width, height)" in src, f.fq, "excess_space = options.max_width - width", f.where,
              "excess is measured against the shaped child width", "Align's excess space is not options.max_width minus the width its lines are shaped to")


def _sub(a, b):
    out = dict(a)
    for k, v in b.items():
        out[k] = out.get(k, 0) - v
        if out[k] == 0:
            del out[k]
    return out


def r8_9(ctx):
    ctx.rule("R8.9", "progress bars: on every path with colour available the emitted cells sum to exactly the bar's width (complete + half + remaining, path-sensitive symbolic emission); the bar's width is capped by options.max_width; the pulse animation repeats its pattern at least floor(width/len)+2 times before slicing [offset : offset+width] with offset < len, so the slice always has `width` cells")
    from ..pathemit import PathEmit
    f = ctx.repo.fn("progress_bar:ProgressBar.__rich_console__")
    pe = PathEmit(f)
    states = pe.run()
    n = 0
    for s in states:
        if any(c == "self.pulse" for c in s.conds):
            continue
        for ln, msg in s.problems:
            ctx.violation(f.fq, msg, f"{f.module.relpath}:{ln}", f"ProgressBar: {msg} on path [{' & '.join(s.conds)}]")
        if s.problems:
            continue
        conds = " & ".join(s.conds)
        wv = s.store.get("width")
        if wv is None or wv.kind != "int":
            raise AnalysisError("ProgressBar: width variable not found")
        colour = "not console.no_color" in s.conds and ("console.color_system is not None" in s.conds or "not remaining_bars" in s.conds)
        if colour:
            n += 1
            ok = s.equal(s.cur, wv.form)
            ctx.check(ok, f.fq, f"[{conds}] emitted = {show(s.cur)}", f.where, "with colour the bar fills exactly its width",
                      f"ProgressBar emits `{show(s.cur)}` cells on path [{conds}], not its width `{show(wv.form)}`: the bar is shorter or longer than the space it was given")
    ctx.floor(n, 3, "colour paths through ProgressBar.__rich_console__")
    wd = [x for x in walk_local(f.node) if isinstance(x, ast.Assign) and norm(x.targets[0]) == "width"]
    ok = len(wd) == 1 and isinstance(wd[0].value, ast.Call) and norm(wd[0].value.func) == "min" and any(norm(a) == "options.max_width" for a in wd[0].value.args)
    ctx.check(ok, f.fq, norm(wd[0]) if wd else "?", f.where, "bar width capped by options.max_width", "ProgressBar's width is not min(..., options.max_width): a bar can exceed the width it is given")
    # glyphs are single cells
    from .c07 import _cell_width_fn
    cw = _cell_width_fn(ctx)
    for x in walk_local(f.node):
        if isinstance(x, ast.Assign) and norm(x.targets[0]) in ("bar", "half_bar_right", "half_bar_left") and isinstance(x.value, ast.IfExp):
            for arm in (x.value.body, x.value.orelse):
                okg = isinstance(arm, ast.Constant) and isinstance(arm.value, str) and len(arm.value) == 1 and cw(arm.value) == 1
                ctx.check(okg, f.fq, norm(x), f"{f.module.relpath}:{x.lineno}", f"glyph {norm(arm)} is one cell", f"bar glyph {norm(arm)} is not exactly one cell wide")
    # pulse
    p = ctx.repo.fn("progress_bar:ProgressBar._render_pulse")
    rep = off = sl = None
    for x in walk_local(p.node):
        if isinstance(x, ast.Assign) and isinstance(x.value, ast.BinOp) and isinstance(x.value.op, ast.Mult) and norm(x.value.left) == "pulse_segments":
            rep = x
        if isinstance(x, ast.Assign) and isinstance(x.value, ast.BinOp) and isinstance(x.value.op, ast.Mod) and norm(x.value.right) == "segment_count":
            off = x
        if isinstance(x, ast.Assign) and isinstance(x.value, ast.Subscript) and isinstance(x.value.slice, ast.Slice):
            sl = x
    if rep is None or off is None or sl is None:
        raise AnchorVanished("ProgressBar._render_pulse: repeat / offset / slice statements not found")
    cnt = rep.value.right
    form = lin(cnt)
    base = [k for k in form if k]
    c = form.get("", 0)
    okb = len(base) == 1 and form[base[0]] == 1 and base[0] in ("int(width / segment_count)", "width // segment_count")
    ctx.check(okb and c >= 2, p.fq, norm(rep), f"{p.module.relpath}:{rep.lineno}", f"pattern repeated floor(width/len) + {c} times (>= +2)",
              f"the pulse pattern is repeated `{norm(cnt)}` times: with an offset of up to len-1 the slice [offset : offset+width] needs at least floor(width/len) + 2 repetitions, otherwise the pulse bar is shorter than its width for some animation phases")
    o = norm(off.targets[0])
    oks = norm(sl.value.slice.lower) == o and norm(sl.value.slice.upper) in (f"{o} + width", f"width + {o}") and norm(sl.value.value) == norm(rep.targets[0])
    ctx.check(oks, p.fq, norm(sl), f"{p.module.relpath}:{sl.lineno}", "exactly `width` cells are cut out starting at the phase offset", "the pulse slice is not [offset : offset + width] of the repeated pattern")
    ctx.check("segment_count = len(pulse_segments)" in norm(p.node), p.fq, "segment_count = len(pulse_segments)", p.where, "offset is taken modulo the pattern length", "segment_count is not the pattern length")


def _bar_facts(ctx, f):
    """Structural facts about Bar.__rich_console__ (names are discovered, not assumed)."""
    from ..linear import lin, show, eq as lin_eq
    assigns = {}   # name -> [value]
    augs = {}      # name -> [(value, enclosing-if-test or None)]

    def visit(stmts, guard):
        for st in stmts:
            if isinstance(st, ast.Assign) and len(st.targets) == 1:
                t = st.targets[0]
                if isinstance(t, ast.Name):
                    assigns.setdefault(t.id, []).append(st.value)
                elif isinstance(t, ast.Tuple) and all(isinstance(e, ast.Name) for e in t.elts):
                    for i, e in enumerate(t.elts):
                        assigns.setdefault(e.id, []).append(("unpack", st.value, i))
            elif isinstance(st, ast.AugAssign) and isinstance(st.target, ast.Name):
                augs.setdefault(st.target.id, []).append((st.op, st.value, guard))
            elif isinstance(st, ast.If):
                visit(st.body, st.test)
                visit(st.orelse, ast.UnaryOp(op=ast.Not(), operand=st.test))
    visit(f.node.body, None)
    return assigns, augs


def r8_10(ctx):
    from ..linear import lin, show, eq as lin_eq, _add
    from .c07 import _cell_width_fn
    ctx.rule("R8.10", "block bar (Bar): begin and end are converted to eighths of a cell by one monotone formula f(width * 8 * EDGE / size) (same rounding function for both edges), each is split into whole cells and eighths by // 8 and % 8, prefix and body are cells + one 1-cell glyph when eighths > 0 (i.e. ceil(e/8) cells), the early exit guarantees begin < end, __init__ clamps begin >= 0 and end <= size, the width is capped by options.max_width, and the emitted text prefix + body[len(prefix):] + pad has length len(prefix) + max(0, len(body) - len(prefix)) + (width - len(body)) = width because ceil(p/8) <= ceil(b/8) <= width")
    f = ctx.repo.fn("bar:Bar.__rich_console__")
    m = f.module
    assigns, augs = _bar_facts(ctx, f)
    cw = _cell_width_fn(ctx)

    def mentions(e, attr):
        return any(isinstance(x, ast.Attribute) and x.attr == attr and isinstance(x.value, ast.Name) and x.value.id == "self" for x in ast.walk(e))

    def single(name):
        v = assigns.get(name, [])
        return v[0] if len(v) == 1 and name not in augs else None

    edges = {}
    for name, vals in assigns.items():
        for v in vals:
            if isinstance(v, ast.AST):
                for attr in ("begin", "end"):
                    if mentions(v, attr):
                        edges.setdefault(attr, []).append((name, v))
    if len(edges.get("begin", [])) != 1 or len(edges.get("end", [])) != 1:
        raise AnchorVanished("Bar.__rich_console__: expected exactly one local computed from self.begin and one from self.end")
    (pn, pv), (bn, bv) = edges["begin"][0], edges["end"][0]

    def template(v, attr):
        class T(ast.NodeTransformer):
            def visit_Attribute(self, node):
                if node.attr == attr and isinstance(node.value, ast.Name) and node.value.id == "self":
                    return ast.Name(id="EDGE", ctx=ast.Load())
                return self.generic_visit(node)
        import copy
        return T().visit(copy.deepcopy(v))

    tp, tb = template(pv, "begin"), template(bv, "end")
    ctx.check(norm(tp) == norm(tb), f.fq, f"{norm(pv)} / {norm(bv)}", f.where, f"both edges use `{norm(tp)}`",
              f"the begin edge is computed as `{norm(pv)}` but the end edge as `{norm(bv)}`: with different rounding or scaling the begin can land past the end, the prefix is then longer than the body and the emitted line is one cell wider than the bar's width")

    def muldiv(e, num, den, inv=False):
        if isinstance(e, ast.BinOp) and isinstance(e.op, ast.Mult):
            muldiv(e.left, num, den, inv)
            muldiv(e.right, num, den, inv)
        elif isinstance(e, ast.BinOp) and isinstance(e.op, ast.Div):
            muldiv(e.left, num, den, inv)
            muldiv(e.right, num, den, not inv)
        else:
            (den if inv else num).append(norm(e))

    for who, t in (("begin", tp), ("end", tb)):
        ok = isinstance(t, ast.Call) and norm(t.func) in ("int", "round", "floor", "math.floor", "ceil", "math.ceil") and len(t.args) == 1 and not t.keywords
        num, den = [], []
        if ok:
            muldiv(t.args[0], num, den)
        ok = ok and sorted(num) == sorted(["width", "8", "EDGE"]) and den == ["self.size"]
        ctx.check(ok, f.fq, norm(t), f.where, f"{who} edge = rounding(width * 8 * {who} / size): monotone in {who}, at most 8 * width when {who} <= size",
                  f"Bar: the {who} edge `{norm(t)}` is not a rounding of width * 8 * {who} / size - the number of eighths is no longer bounded by 8 * width / monotone in the edge, so the bar can exceed its width")

    def split_of(edge):
        """names holding edge // 8 and edge % 8"""
        cells = eighths = None
        for name, vals in assigns.items():
            if len(vals) != 1 or name in augs:
                continue
            v = vals[0]
            if isinstance(v, tuple):
                _, call, idx = v
                if isinstance(call, ast.Call) and norm(call.func) == "divmod" and len(call.args) == 2 and norm(call.args[0]) == edge and norm(call.args[1]) == "8":
                    if idx == 0:
                        cells = name
                    else:
                        eighths = name
            elif isinstance(v, ast.BinOp) and norm(v.left) == edge and norm(v.right) == "8":
                if isinstance(v.op, ast.FloorDiv):
                    cells = name
                elif isinstance(v.op, ast.Mod):
                    eighths = name
        return cells, eighths

    def one_cell_glyph(e):
        """expression is a 1-cell string (literal or module constant) or TABLE[idx] with all entries 1 cell"""
        if isinstance(e, ast.Constant) and isinstance(e.value, str):
            return len(e.value) == 1 and cw(e.value) == 1
        if isinstance(e, ast.Name) and m.module_const(e.id) is not None:
            return one_cell_glyph(m.module_const(e.id))
        return False

    def table_ok(e, idx_name):
        if not (isinstance(e, ast.Subscript) and isinstance(e.value, ast.Name) and norm(e.slice) == idx_name):
            return False
        t = m.module_const(e.value.id)
        if t is None:
            return False
        return isinstance(t, (ast.List, ast.Tuple)) and len(t.elts) >= 8 and all(one_cell_glyph(x) for x in t.elts)

    strings = {}
    for who, edge in (("prefix", pn), ("body", bn)):
        cells, eighths = split_of(edge)
        ctx.check(cells is not None and eighths is not None, f.fq, f"{edge} // 8, {edge} % 8", f.where, f"{who} eighths split into whole cells `{cells}` and a remainder `{eighths}` by 8",
                  f"Bar: `{edge}` is not split into whole cells and eighths with // 8 and % 8 (or divmod(.., 8)): the eighths index can leave 0..7 or the cell count no longer matches")
        if cells is None or eighths is None:
            continue
        found = None
        for name, vals in assigns.items():
            if len(vals) == 1 and isinstance(vals[0], ast.BinOp) and isinstance(vals[0].op, ast.Mult):
                l, r = vals[0].left, vals[0].right
                if (norm(r) == cells and one_cell_glyph(l)) or (norm(l) == cells and one_cell_glyph(r)):
                    a = augs.get(name, [])
                    if len(a) == 1 and isinstance(a[0][0], ast.Add) and a[0][2] is not None and norm(a[0][2]) == eighths and table_ok(a[0][1], eighths):
                        found = name
                    elif not a:
                        found = None
        ctx.check(found is not None, f.fq, f"{who} string", f.where, f"`{found}` is {cells} one-cell glyphs plus one one-cell glyph iff {eighths} > 0, i.e. ceil({edge} / 8) cells",
                  f"Bar: the {who} string is not `glyph * {cells}` extended by exactly one one-cell glyph when `{eighths}` is non-zero: its cell length is no longer ceil({edge}/8)")
        if found:
            strings[who] = found

    # early exit: begin < end afterwards
    guard = None
    for st in f.node.body:
        if isinstance(st, ast.If) and isinstance(st.test, ast.Compare) and len(st.test.ops) == 1 and st.body and isinstance(st.body[-1], ast.Return):
            l, op, r = norm(st.test.left), st.test.ops[0], norm(st.test.comparators[0])
            if (l, r) == ("self.begin", "self.end") and isinstance(op, ast.GtE) or (l, r) == ("self.end", "self.begin") and isinstance(op, ast.LtE):
                guard = st
    ctx.check(guard is not None, f.fq, "if self.begin >= self.end: ... return", f.where, "empty bars return early, so begin < end when the edges are computed",
              "Bar: the early return for begin >= end is gone: with begin > end the prefix is longer than the body and the line exceeds the width")
    if guard is not None:
        ys = [x for x in ast.walk(guard) if isinstance(x, ast.Call) and norm(x.func) == "Segment" and x.args]
        ok = len(ys) == 1 and isinstance(ys[0].args[0], ast.BinOp) and isinstance(ys[0].args[0].op, ast.Mult) and {norm(ys[0].args[0].left), norm(ys[0].args[0].right)} == {"' '", "width"}
        ctx.check(ok, f.fq, short(ys[0]) if ys else "?", f.where, "the empty bar is exactly `width` spaces", "Bar: the empty bar is not ' ' * width")

    init = ctx.repo.fn("bar:Bar.__init__")
    ia = {norm(x.targets[0]): x.value for x in walk_local(init.node) if isinstance(x, ast.Assign) and len(x.targets) == 1}

    def clamp(v, fn, a, b):
        return isinstance(v, ast.Call) and norm(v.func) == fn and sorted(norm(z) for z in v.args) == sorted([a, b])
    ctx.check(clamp(ia.get("self.begin"), "max", "begin", "0"), init.fq, "self.begin = max(begin, 0)", init.where, "begin >= 0", "Bar.__init__ no longer clamps begin to >= 0: a negative begin gives a negative number of eighths")
    ctx.check(clamp(ia.get("self.end"), "min", "end", "size"), init.fq, "self.end = min(end, size)", init.where, "end <= size, so the end edge is at most 8 * width eighths", "Bar.__init__ no longer clamps end to <= size: the body can be longer than the width")

    w = single("width")
    ctx.check(w is not None and isinstance(w, ast.Call) and norm(w.func) == "min" and any(norm(z) == "options.max_width" for z in w.args), f.fq, norm(w) if w is not None else "?", f.where, "bar width capped by options.max_width", "Bar's width is not min(..., options.max_width)")

    # emitted text length
    if len(strings) == 2:
        P, B = strings["prefix"], strings["body"]

        def L(e):
            """symbolic length: list of (kind, Lin) terms; kind 'lin' or 'max0'"""
            if isinstance(e, ast.BinOp) and isinstance(e.op, ast.Add):
                a, b = L(e.left), L(e.right)
                return None if a is None or b is None else a + b
            if isinstance(e, ast.Name) and e.id in (P, B):
                return [("lin", {f"len({e.id})": 1})]
            if isinstance(e, ast.Name) and single(e.id) is not None:
                return L(single(e.id))
            if isinstance(e, ast.Subscript) and isinstance(e.slice, ast.Slice) and e.slice.upper is None and e.slice.step is None and e.slice.lower is not None and isinstance(e.value, ast.Name) and e.value.id in (P, B):
                return [("max0", _add({f"len({e.value.id})": 1}, lin(e.slice.lower), -1))]
            if isinstance(e, ast.BinOp) and isinstance(e.op, ast.Mult):
                for s_, n_ in ((e.left, e.right), (e.right, e.left)):
                    if isinstance(s_, ast.Constant) and isinstance(s_.value, str) and len(s_.value) == 1 and cw(s_.value) == 1:
                        return [("max0", lin(n_))]
            return None

        segs = [x for st in f.node.body if not isinstance(st, ast.If) for x in ast.walk(st) if isinstance(x, ast.Call) and norm(x.func) == "Segment" and x.args]
        if len(segs) != 1:
            raise AnchorVanished("Bar.__rich_console__: expected one Segment(...) emission after the early exit")
        terms = L(segs[0].args[0])
        want = sorted([("lin", show({f"len({P})": 1})), ("max0", show({f"len({B})": 1, f"len({P})": -1})), ("max0", show({"width": 1, f"len({B})": -1}))])
        got = sorted((k, show(v)) for k, v in terms) if terms is not None else None
        ctx.check(got == want, f.fq, short(segs[0].args[0]), f.where, f"emitted length = len({P}) + max(0, len({B}) - len({P})) + max(0, width - len({B})) = width",
                  f"Bar emits `{short(segs[0].args[0])}` whose length is {got}, not len(prefix) + max(0, len(body) - len(prefix)) + (width - len(body)): the line is not exactly `width` cells")


RULES = [r8_3, r8_4, r8_5, r8_6, r8_7, r8_8, r8_9, r8_10]
