"""C10 Live and progress displays leave a correct screen after any history (cleanup clause decided)."""
from __future__ import annotations

import ast
from typing import Dict, List, Optional, Set, Tuple

from .. import cfg as cfgmod
from ..astutil import alias_map, call_name, const_int, expand_alias, is_attr_of
from ..index import AnalysisError, AnchorVanished, norm, short, walk_local
from ..linear import eq as lin_eq, lin, show

LEVEL = "other"
UNDECIDED = [
    "the terminal-model replay over histories (printed lines in order, no remnants, nothing overwritten)",
    "frames taller than the screen; cursor never above the live region",
    "faults inside the release calls themselves (they are assumed not to raise)",
]
TRUSTED = ["CPython ast parser", "try/finally and `with` semantics", "ANSI: ESC[1A = cursor up one line, ESC[2K = erase line"]

UP = "\x1b[1A"
ERASE = "\x1b[2K"


def _release_of(call: ast.Call) -> Optional[Tuple[str, str]]:
    """(kind, release description) if `call` is an acquisition that start() must undo."""
    name = norm(call.func).split(".")[-1]
    if name == "show_cursor" and call.args and isinstance(call.args[0], ast.Constant) and call.args[0].value is False:
        return ("show_cursor", "show_cursor(True)")
    if name.startswith("push_"):
        return ("pop_" + name[5:], "pop_" + name[5:] + "()")
    if name.startswith("_enable_"):
        return ("_disable_" + name[8:], "_disable_" + name[8:] + "()")
    if name.startswith("enable_"):
        return ("disable_" + name[7:], "disable_" + name[7:] + "()")
    return None


def _is_release(call: ast.Call, kind: str) -> bool:
    name = norm(call.func).split(".")[-1]
    if kind == "show_cursor":
        return name == "show_cursor" and bool(call.args) and isinstance(call.args[0], ast.Constant) and call.args[0].value is True
    return name == kind


def _helper_must_release(cls, call: ast.Call, kind: str, depth: int = 0) -> bool:
    """`self.<m>()` where method m of the same class calls the release of `kind` on every normal path (releases themselves are
    assumed not to raise - the stated fault model), directly or through one more such helper."""
    if not (isinstance(call.func, ast.Attribute) and isinstance(call.func.value, ast.Name) and call.func.value.id == "self") or call.args or call.keywords or depth > 2:
        return False
    h = cls.method(call.func.attr)
    if h is None:
        return False
    g = cfgmod.build(h.node, lambda n: False)
    rel = set()
    for n in g.stmt_nodes():
        if n.stmt is None or n.kind != "stmt":
            continue
        for c in ast.walk(n.stmt):
            if isinstance(c, ast.Call) and (_is_release(c, kind) or _helper_must_release(cls, c, kind, depth + 1)):
                rel.add(n.id)
    if not rel:
        return False
    return g.must_pass(g.entry, rel, {g.exit}) is None


def _helper_effects(cls, call: ast.Call, pred, depth: int = 0) -> Optional[str]:
    """name of a terminal effect performed by the same-class helper `self.<m>()`, if any"""
    if not (isinstance(call.func, ast.Attribute) and isinstance(call.func.value, ast.Name) and call.func.value.id == "self") or depth > 2:
        return None
    h = cls.method(call.func.attr)
    if h is None:
        return None
    for c in walk_local(h.node):
        if isinstance(c, ast.Call):
            e = pred(c) or _helper_effects(cls, c, pred, depth + 1)
            if e:
                return e
    return None


def r10_1(ctx):
    ctx.rule("R10.1", "cleanup on every exit: each acquisition made by start() (cursor hidden, io redirected, render hook pushed) has its release in stop(), and in stop()'s CFG with exceptional edges from every may-raise statement every path from the `_started = False` store to any exit, normal or raising, passes through all releases; __exit__ calls stop() on every path and never swallows the exception; _disable_redirect_io restores exactly the streams _enable_redirect_io saved")
    pairs = 0
    for spec in ("live:Live", "progress:Progress"):
        cls = ctx.repo.cls(spec)
        start, stop = cls.method("start"), cls.method("stop")
        if start is None or stop is None:
            raise AnchorVanished(f"{spec}.start/stop not found")
        needed: Dict[str, str] = {}
        for n in walk_local(start.node):
            if isinstance(n, ast.Call):
                r = _release_of(n)
                if r:
                    needed[r[0]] = r[1]
        ctx.floor(len(needed), 3, f"acquisitions in {spec}.start")
        rel_calls: Dict[str, List[ast.AST]] = {k: [] for k in needed}
        for n in walk_local(stop.node):
            if isinstance(n, ast.Call):
                for k in needed:
                    if _is_release(n, k) or _helper_must_release(cls, n, k):
                        rel_calls[k].append(n)
        release_stmt_ids = set()
        for k, lst in rel_calls.items():
            for c in lst:
                st = c
                while not isinstance(st, ast.stmt):
                    st = stop.module.parent_of[st]
                release_stmt_ids.add(id(st))

        def may_raise(node, _ids=release_stmt_ids):
            if node.stmt is not None and id(node.stmt) in _ids and node.kind == "stmt":
                return False  # fault model: the release calls themselves do not raise
            return cfgmod.default_may_raise(node)

        g = cfgmod.build(stop.node, may_raise)
        flips = [n.id for n in g.stmt_nodes() if n.kind == "stmt" and isinstance(n.stmt, ast.Assign) and norm(n.stmt.targets[0]).endswith("._started") and norm(n.stmt.value) == "False"]
        if not flips:
            raise AnchorVanished(f"{spec}.stop: `_started = False` store not found")
        for k, desc in sorted(needed.items()):
            pairs += 1
            if not rel_calls[k]:
                ctx.violation(stop.fq, f"missing {desc}", stop.where, f"start() acquires what {desc} releases, but stop() never calls it")
                continue
            nodes: Set[int] = set()
            for c in rel_calls[k]:
                st = c
                while not isinstance(st, ast.stmt):
                    st = stop.module.parent_of[st]
                nodes |= set(g.nodes_of(st))
            for fl in flips:
                w = g.must_pass(fl, nodes, {g.exit, g.rexit})
                ctx.check(w is None, stop.fq, f"{desc} after `_started = False`", f"{stop.module.relpath}:{rel_calls[k][0].lineno}",
                          f"{desc} reached on every exit of stop(), including when the final refresh / line() raises",
                          f"a path from `_started = False` leaves stop() without calling {desc} (e.g. when a statement in between raises): the terminal is left with a hidden cursor / redirected stdout / a stale render hook",
                          g.describe_path(w) if w else None)
        # guard: a second stop() is a no-op, first statement flips state under the lock
    ctx.floor(pairs, 6, "acquire/release pairs")
    # __exit__ of Live, Progress, Status
    for spec in ("live:Live", "progress:Progress", "status:Status"):
        cls = ctx.repo.cls(spec)
        ex = cls.method("__exit__")
        if ex is None:
            raise AnchorVanished(f"{spec}.__exit__ not found")
        g = cfgmod.build(ex.node)
        stops = [n.id for n in g.stmt_nodes() if n.kind == "stmt" and any(isinstance(c, ast.Call) and norm(c.func) == "self.stop" for c in ast.walk(n.stmt))]
        w = g.must_pass(g.entry, set(stops), {g.exit}) if stops else [g.entry]
        ctx.check(w is None, ex.fq, "self.stop()", ex.where, "__exit__ calls stop() on every path", "__exit__ can return without calling stop(): the display is not torn down when the block exits",
                  g.describe_path(w) if w else None)
        # an exception raised by stop() itself (the final refresh rendering the renderable) must propagate too
        for t_ in walk_local(ex.node):
            if isinstance(t_, ast.Try) and any(isinstance(c, ast.Call) and norm(c.func) == "self.stop" for b in t_.body for c in ast.walk(b)):
                for h in t_.handlers:
                    reraises = any(isinstance(x, ast.Raise) for x in ast.walk(ast.Module(body=h.body, type_ignores=[])))
                    ctx.check(reraises, ex.fq, f"except {norm(h.type) if h.type is not None else ''}: ...", f"{ex.module.relpath}:{h.lineno}", "an error raised while stopping is re-raised",
                              "__exit__ catches the exception raised by stop() (the last refresh rendering the renderable) and does not re-raise it: a renderable that fails on the final frame fails silently")
        rets = [r for r in walk_local(ex.node) if isinstance(r, ast.Return) and r.value is not None]
        bad = [norm(r) for r in rets if not (isinstance(r.value, ast.Constant) and not r.value.value)]
        ctx.check(not bad, ex.fq, "return value", ex.where, "__exit__ returns a falsy value (the exception propagates)", f"__exit__ may return a truthy value ({bad}): an exception raised in the block would be swallowed")
    # Status.stop -> Live.stop
    st = ctx.repo.fn("status:Status.stop")
    ctx.check(any(isinstance(c, ast.Call) and norm(c.func) == "self._live.stop" for c in walk_local(st.node)), st.fq, "self._live.stop()", st.where,
              "Status.stop stops its Live", "Status.stop no longer stops the underlying Live display")
    # redirect pairs
    for spec in ("live:Live", "progress:Progress"):
        cls = ctx.repo.cls(spec)
        en, dis = cls.method("_enable_redirect_io"), cls.method("_disable_redirect_io")
        if en is None or dis is None:
            raise AnchorVanished(f"{spec}._enable/_disable_redirect_io not found")
        saved: Dict[str, str] = {}  # stream -> slot
        replaced = set()
        from ..astutil import inline as _inl101, single_defs as _sdf101
        sd_en, sd_dis = _sdf101(en.node), _sdf101(dis.node)
        for n in walk_local(en.node):
            if isinstance(n, ast.Assign) and len(n.targets) == 1:
                t, v = n.targets[0], _inl101(n.value, sd_en)
                if is_attr_of(t, "self") and isinstance(v, ast.Attribute) and is_attr_of(v, "sys"):
                    saved[v.attr] = t.attr
                if is_attr_of(t, "sys") and isinstance(v, ast.Call):
                    replaced.add(t.attr)
                    ok = t.attr in saved
                    ctx.check(ok, en.fq, norm(n), f"{en.module.relpath}:{n.lineno}", f"sys.{t.attr} saved before being replaced", f"sys.{t.attr} is replaced before the original is saved: it can never be restored")
        restored: Dict[str, str] = {}
        cleared = set()
        for n in walk_local(dis.node):
            if isinstance(n, ast.Assign) and len(n.targets) == 1:
                t, v = n.targets[0], _inl101(n.value, sd_dis)
                if is_attr_of(t, "sys") and is_attr_of(v, "self"):
                    restored[t.attr] = v.attr
                if is_attr_of(t, "self") and isinstance(v, ast.Constant) and v.value is None:
                    cleared.add(t.attr)
        for stream in sorted(replaced):
            ok = restored.get(stream) == saved.get(stream) and saved.get(stream) is not None
            ctx.check(ok, dis.fq, f"sys.{stream} = self.{restored.get(stream)}", dis.where, f"sys.{stream} restored from the slot that saved it (self.{saved.get(stream)})",
                      f"sys.{stream} is saved in self.{saved.get(stream)} but restored from self.{restored.get(stream)}: the stream stays redirected or is swapped after stop()")
        # ... and the restore runs exactly when something was saved: its only guard is the truth / not-None of its own slot
        gd = cfgmod.build(dis.node)
        for nd in gd.stmt_nodes():
            if nd.kind == "stmt" and isinstance(nd.stmt, ast.Assign) and len(nd.stmt.targets) == 1 and is_attr_of(nd.stmt.targets[0], "sys") and nd.stmt.targets[0].attr in replaced:
                slot = restored.get(nd.stmt.targets[0].attr)
                facts = [(norm(_inl101(t_, sd_dis)), v_) for t_, v_ in gd.branch_facts(nd.id)]
                good = {(f"self.{slot}", True), (f"self.{slot} is not None", True), (f"self.{slot} is None", False), (f"not self.{slot}", False)}
                bad_f = [(t_, v_) for t_, v_ in facts if (t_, v_) not in good]
                ctx.check(not bad_f, dis.fq, short(nd.stmt), f"{dis.module.relpath}:{nd.lineno}", f"`{short(nd.stmt)}` runs whenever self.{slot} holds a saved stream",
                          f"`{short(nd.stmt)}` is guarded by {[t_ if v_ else 'not (' + t_ + ')' for t_, v_ in bad_f]}: when a stream was saved the restore is skipped (or it runs with nothing saved) - sys.{nd.stmt.targets[0].attr} stays a FileProxy after stop()")
        ctx.floor(len(replaced), 2, f"redirected streams in {spec}")


def _count_terms(expr, subst=None) -> Optional[Tuple[dict, dict, str]]:
    """Return (ups linear form, erases linear form, leading text) of a string expression built from + and *."""
    ups: dict = {}
    ers: dict = {}
    lead = [None]

    def add(form, extra, k):
        for a, c in extra.items():
            form[a] = form.get(a, 0) + c * k
            if form[a] == 0:
                del form[a]

    def walk(e, mult: dict):
        if isinstance(e, ast.Constant) and isinstance(e.value, str):
            if lead[0] is None:
                lead[0] = e.value
            add(ups, mult, e.value.count(UP))
            add(ers, mult, e.value.count(ERASE))
            return True
        if isinstance(e, ast.BinOp) and isinstance(e.op, ast.Add):
            return walk(e.left, mult) and walk(e.right, mult)
        if isinstance(e, ast.BinOp) and isinstance(e.op, ast.Mult):
            s, k = (e.left, e.right) if isinstance(e.left, ast.Constant) and isinstance(e.left.value, str) else (e.right, e.left)
            if not (isinstance(s, ast.Constant) and isinstance(s.value, str)):
                return False
            if mult != {"": 1}:
                return False
            return walk(s, lin(k, subst))
        return False

    if not walk(expr, {"": 1}):
        return None
    return ups, ers, lead[0] or ""


def r10_2(ctx):
    ctx.rule("R10.2", "the stored frame shape describes the frame that is emitted: every definition of `lines` (incl. slicing/append) is followed by get_shape(lines) before the shape is stored, nothing redefines `lines` between the store and the yield loop (or the lines are set_shape()d to the stored shape); _shape has no writer outside the live renderers")
    stores = 0
    for f in ctx.repo.all_functions():
        for n in walk_local(f.node):
            if isinstance(n, ast.Attribute) and n.attr == "_shape" and isinstance(n.ctx, ast.Store):
                stores += 1
                ok = f.cls is not None and f.cls.name in ("LiveRender", "_LiveRender") and f.name in ("__init__", "__rich_console__")
                ctx.check(ok, f.fq, short(f.module.parent_of.get(n, n)), f"{f.module.relpath}:{n.lineno}", "_shape written by a live renderer", "_shape written outside the live renderers' constructor/render method")
    ctx.floor(stores, 3, "_shape stores")
    # _LiveRender
    f = ctx.repo.fn("live:_LiveRender.__rich_console__")
    g = cfgmod.build(f.node)
    rd = g.reaching_defs(weak=True)
    store_nodes = [n for n in g.stmt_nodes() if n.kind == "stmt" and isinstance(n.stmt, ast.Assign) and norm(n.stmt.targets[0]) == "self._shape"]
    if not store_nodes:
        ctx.violation(f.fq, "no _shape store", f.where, "_LiveRender.__rich_console__ never records the shape of the frame it emits: the next print cannot erase it")
        return
    loops = [n for n in g.stmt_nodes() if n.kind == "for" and ("loop_last" in norm(n.stmt.iter) or "loop_first" in norm(n.stmt.iter))]
    if not loops:
        raise AnchorVanished("_LiveRender.__rich_console__: frame emission loop over loop_last(lines) not found")
    for S in store_nodes:
        sv = S.stmt.value
        if not isinstance(sv, ast.Name):
            ctx.check("get_shape(lines)" in norm(sv), f.fq, norm(S.stmt), f"{f.module.relpath}:{S.lineno}", "shape computed inline from lines", f"_shape stored from `{norm(sv)}`, not from get_shape(lines)")
            continue
        shape_var = sv.id
        shape_defs = rd.get(S.id, {}).get(shape_var, set())
        gnodes = set()
        for d in shape_defs:
            ds = g.nodes[d].stmt
            v = getattr(ds, "value", None)
            okd = isinstance(v, ast.Call) and norm(v.func).endswith("get_shape") and v.args and isinstance(v.args[0], ast.Name)
            ctx.check(okd, f.fq, short(ds) if ds is not None else "?", f"{f.module.relpath}:{g.nodes[d].lineno}", f"`{shape_var}` defined by get_shape(<lines>)", f"`{shape_var}` reaching the _shape store is defined by `{short(ds) if ds is not None else g.nodes[d].kind}`, not by get_shape of the lines")
            if okd:
                gnodes.add(d)
        lines_var = None
        for d in gnodes:
            lines_var = g.nodes[d].stmt.value.args[0].id
        if lines_var is None:
            continue
        # every def of lines must be followed by a get_shape before S
        ldefs = set()
        for nd in g.stmt_nodes():
            s, w = g.defs_at(nd, weak=True)
            if lines_var in s or lines_var in w:
                ldefs.add(nd.id)
        for d in sorted(ldefs):
            if d not in g.reach([g.entry]) and d != g.entry:
                continue
            reach_S = S.id in g.reach([d])
            if not reach_S:
                continue
            w = g.must_pass(d, gnodes, {S.id})
            ctx.check(w is None, f.fq, short(g.nodes[d].stmt) if g.nodes[d].stmt is not None else g.nodes[d].kind, f"{f.module.relpath}:{g.nodes[d].lineno}",
                      f"definition of `{lines_var}` is followed by get_shape before the shape is stored",
                      f"`{lines_var}` is changed here but a path reaches `self._shape = {shape_var}` without recomputing the shape: the stored height differs from the frame written, so the next print erases too few/many lines",
                      g.describe_path(w) if w else None)
        for L in loops:
            it = L.stmt.iter
            arg = it.args[0] if isinstance(it, ast.Call) and it.args else None
            ok = isinstance(arg, ast.Name) and arg.id == lines_var and rd.get(L.id, {}).get(lines_var, set()) == rd.get(S.id, {}).get(lines_var, set())
            ctx.check(ok, f.fq, f"for ... in {norm(it)}", f"{f.module.relpath}:{L.lineno}", "the lines emitted are exactly the lines whose shape was stored",
                      f"the emission loop iterates `{norm(arg) if arg is not None else None}` whose definitions differ from the lines measured for _shape")
    # LiveRender: emitted lines are set_shape(lines, *self._shape)
    f2 = ctx.repo.fn("live_render:LiveRender.__rich_console__")
    g2 = cfgmod.build(f2.node)
    rd2 = g2.reaching_defs(weak=True)
    loops2 = [n for n in g2.stmt_nodes() if n.kind == "for" and ("loop_last" in norm(n.stmt.iter) or "loop_first" in norm(n.stmt.iter))]
    if not loops2:
        raise AnchorVanished("LiveRender.__rich_console__: emission loop not found")
    for L in loops2:
        arg = L.stmt.iter.args[0]
        defs = rd2.get(L.id, {}).get(arg.id, set()) if isinstance(arg, ast.Name) else set()
        ok = bool(defs)
        detail = ""
        shape_stores = [n for n in g2.stmt_nodes() if n.kind == "stmt" and isinstance(n.stmt, ast.Assign) and norm(n.stmt.targets[0]) == "self._shape"]
        for d in defs:
            ds = g2.nodes[d].stmt
            v = getattr(ds, "value", None)
            if not (isinstance(v, ast.Call) and norm(v.func).endswith("set_shape") and len(v.args) >= 3):
                ok = False
                detail = f"lines defined by `{short(ds) if ds is not None else '?'}`"
                continue
            wn, hn = v.args[1], v.args[2]
            # (a) width, height unpacked from self._shape after its stores, or
            # (b) self._shape = (w, h) stored from the very same names (same reaching definitions)
            form_a = True
            for nm in (wn, hn):
                if not isinstance(nm, ast.Name):
                    form_a = False
                    continue
                for dd in rd2.get(d, {}).get(nm.id, set()):
                    dv = getattr(g2.nodes[dd].stmt, "value", None)
                    if dv is None or norm(dv) != "self._shape":
                        form_a = False
                    else:
                        # the stored shape must not change between this read and the emission
                        later = [ss for ss in shape_stores if ss.id in g2.reach([dd]) and L.id in g2.reach([ss.id])]
                        if later:
                            form_a = False
                            detail = f"self._shape is overwritten (line {later[0].lineno}) after the frame's shape was read from it"
            form_b = False
            if not form_a and isinstance(wn, ast.Name) and isinstance(hn, ast.Name):
                for ss in shape_stores:
                    tv = ss.stmt.value
                    if isinstance(tv, ast.Tuple) and len(tv.elts) == 2 and norm(tv.elts[0]) == wn.id and norm(tv.elts[1]) == hn.id:
                        if rd2.get(ss.id, {}).get(wn.id) == rd2.get(d, {}).get(wn.id) and rd2.get(ss.id, {}).get(hn.id) == rd2.get(d, {}).get(hn.id):
                            # every path to the emission passes this store
                            if g2.dominated_by(L.id, {ss.id}):
                                form_b = True
                    elif isinstance(tv, ast.Tuple):
                        detail = f"_shape is stored as `{norm(tv)}` but the frame is shaped to ({norm(wn)}, {norm(hn)})"
            form_c = False
            if not (form_a or form_b) and isinstance(wn, ast.Name) and isinstance(hn, ast.Name):
                # `self._shape = X` and `w, h = X` from the same value X (same reaching definitions of X at both places)
                for dd in rd2.get(d, {}).get(wn.id, set()):
                    ust = g2.nodes[dd].stmt
                    if isinstance(ust, ast.Assign) and isinstance(ust.targets[0], ast.Tuple) and [norm(e) for e in ust.targets[0].elts] == [wn.id, hn.id] and isinstance(ust.value, ast.Name):
                        x = ust.value.id
                        for ss in shape_stores:
                            if isinstance(ss.stmt.value, ast.Name) and ss.stmt.value.id == x and rd2.get(ss.id, {}).get(x) == rd2.get(dd, {}).get(x) and g2.dominated_by(L.id, {ss.id}):
                                later = [s2 for s2 in shape_stores if s2 is not ss and s2.id in g2.reach([ss.id]) and L.id in g2.reach([s2.id])]
                                if not later:
                                    form_c = True
            if not (form_a or form_b or form_c):
                ok = False
                detail = detail or f"set_shape({norm(wn)}, {norm(hn)}) is not the stored _shape"
        # the stored height covers the frame rendered NOW: it is that frame's own height or max(that height, ..) - set_shape pads
        # a frame up to the stored height but never cuts one down, so a smaller stored height (min(..)) is fewer rows than are
        # written and the next erase leaves the top rows of this frame on screen
        new_shapes = {x.targets[0].id for x in walk_local(f2.node) if isinstance(x, ast.Assign) and len(x.targets) == 1 and isinstance(x.targets[0], ast.Name) and isinstance(x.value, ast.Call) and norm(x.value.func).endswith("get_shape")}
        new_h = {x.targets[0].elts[1].id for x in walk_local(f2.node) if isinstance(x, ast.Assign) and isinstance(x.targets[0], ast.Tuple) and len(x.targets[0].elts) == 2 and isinstance(x.value, ast.Name) and x.value.id in new_shapes and isinstance(x.targets[0].elts[1], ast.Name)}
        for ss in shape_stores:
            tv = ss.stmt.value
            if isinstance(tv, ast.Name) and tv.id in new_shapes:
                continue
            if isinstance(tv, ast.Tuple) and len(tv.elts) == 2:
                hx = tv.elts[1]
                if (isinstance(hx, ast.Name) and hx.id in new_h) or (isinstance(hx, ast.Call) and norm(hx.func) == "max" and any(isinstance(a_, ast.Name) and a_.id in new_h for a_ in hx.args)):
                    ctx.ok(f"{f2.module.relpath}:{ss.lineno}", "the stored height is at least the height of the frame rendered now", f2.fq)
                elif isinstance(hx, ast.Call) and norm(hx.func) == "min":
                    ctx.violation(f2.fq, short(ss.stmt), f"{f2.module.relpath}:{ss.lineno}", f"`{short(ss.stmt)}` stores `{norm(hx)}` as the frame height: when the new frame is taller than the previous one fewer rows are recorded than are written (set_shape pads, it never crops), the cursor is moved up too little before the next frame and the top rows of this one stay on screen")
        ctx.check(ok, f2.fq, f"for ... in {norm(L.stmt.iter)}", f"{f2.module.relpath}:{L.lineno}", "emitted lines are set_shape()d to the stored (width, height)",
                  f"LiveRender emits lines that are not shaped to the stored _shape ({detail}): erase height and frame height disagree")


def r10_3(ctx):
    ctx.rule("R10.3", "the eraser agrees with the writer: position_cursor emits h line-erases and h-1 cursor-ups for stored height h, restore_cursor h of each; both frame writers emit a newline between lines only (len(lines)-1 newlines), so ups == newlines written")
    lr = ctx.repo.cls("live_render:LiveRender")
    for mname, want_up, want_er in (("position_cursor", {"height": 1, "": -1}, {"height": 1}), ("restore_cursor", {"height": 1}, {"height": 1})):
        m = lr.method(mname)
        if m is None:
            raise AnchorVanished(f"LiveRender.{mname} not found")
        found = False
        for r in walk_local(m.node):
            if isinstance(r, ast.Return) and isinstance(r.value, ast.Call) and r.value.args:
                arg = r.value.args[0]
                if isinstance(arg, ast.Constant) and arg.value == "":
                    continue
                found = True
                from ..linear import local_subst
                from .common import close_expr
                arg = close_expr(m, arg)
                res = _count_terms(arg, local_subst(m.node))
                where = f"{m.module.relpath}:{r.lineno}"
                if res is None:
                    raise AnalysisError(f"{mname}: control string not a sum of constant pieces and repetitions: {norm(arg)}")
                ups, ers, lead = res
                # the height variable
                hv = [k for k in set(ups) | set(ers) if k]
                hname = hv[0] if hv else "height"
                wu = {(hname if k == "height" else k): v for k, v in want_up.items()}
                we = {(hname if k == "height" else k): v for k, v in want_er.items()}
                ok = lin_eq(ups, wu) and lin_eq(ers, we) and lead.startswith("\r")
                ctx.check(ok, m.fq, short(r), where, f"{mname}: ups={show(ups)}, erases={show(ers)}, starts at column 0",
                          f"{mname} emits {show(ups)} cursor-ups and {show(ers)} line-erases (expected {show(wu)} and {show(we)}, starting with CR): leaves remnants of the old frame or eats printed lines")
                # height is component 1 of self._shape
                okh = any(isinstance(n, ast.Assign) and isinstance(n.targets[0], ast.Tuple) and len(n.targets[0].elts) == 2 and norm(n.targets[0].elts[1]) == hname and norm(n.value) == "self._shape" for n in walk_local(m.node))
                ctx.check(okh, m.fq, f"_, {hname} = self._shape", where, "height is the second component of the stored shape", f"`{hname}` is not the height component of self._shape")
        if not found:
            ctx.violation(m.fq, "no control string", m.where, f"{mname} no longer returns a cursor-control string derived from the stored height")
    # writers: newline only between lines
    for spec in ("live:_LiveRender.__rich_console__", "live_render:LiveRender.__rich_console__"):
        f = ctx.repo.fn(spec)
        ok = False
        for lp in walk_local(f.node):
            if isinstance(lp, ast.For) and ("loop_last" in norm(lp.iter) or "loop_first" in norm(lp.iter)) and isinstance(lp.target, ast.Tuple):
                lastv = norm(lp.target.elts[0])
                nl_guarded = nl_unguarded = 0
                for b in lp.body:
                    if isinstance(b, ast.If) and norm(b.test) == f"not {lastv}":
                        if any(isinstance(y, ast.Yield) and y.value is not None and ".line(" in norm(y.value) for x in b.body for y in ast.walk(x)):
                            nl_guarded += 1
                    elif any(isinstance(y, ast.Yield) and y.value is not None and (".line(" in norm(y.value) or "'\\n'" in norm(y.value)) for y in ast.walk(b)):
                        nl_unguarded += 1
                ok = nl_guarded == 1 and nl_unguarded == 0
                ctx.check(ok, f.fq, f"for {norm(lp.target)} in {norm(lp.iter)}", f"{f.module.relpath}:{lp.lineno}", "newline emitted between lines only (no trailing newline)",
                          "the frame writer emits a newline after the last line (or none between lines): the cursor ends one line off and position_cursor's h-1 ups miss the top of the frame")
        if not ok and not any(isinstance(lp, ast.For) and ("loop_last" in norm(lp.iter) or "loop_first" in norm(lp.iter)) for lp in walk_local(f.node)):
            raise AnchorVanished(f"{spec}: loop over loop_last(lines) not found")


def _expand_live_render_helper(ctx, v, param):
    """`self._live_render.<m>(renderables)` with <m> a method of LiveRender that the pinned source does not have: the list it returns
    (path normal form of <m>, one path, list building folded), with its `self` replaced by the receiver and its parameter by the argument"""
    import copy
    from ..yieldpaths import Unsupported, paths_of, resolve
    if not (isinstance(v, ast.Call) and isinstance(v.func, ast.Attribute) and norm(v.func.value).endswith("_live_render") and len(v.args) == 1 and not v.keywords):
        return v
    try:
        lr = ctx.repo.cls("live_render:LiveRender")
    except Exception:
        return v
    h = lr.method(v.func.attr)
    if h is None or len(h.params) != 2:
        return v
    try:
        P = [resolve(p) for p in paths_of(h.node)]
    except Unsupported:
        return v
    if len(P) != 1:
        return v
    rets = [e for e in P[0] if e[0] == "return" and e[1] is not None]
    if len(rets) != 1:
        return v
    try:
        body = ast.parse(rets[0][1], mode="eval").body
    except SyntaxError:
        return v
    recv, arg, hp = v.func.value, v.args[0], h.params[1]

    class S(ast.NodeTransformer):
        def visit_Name(self, node):
            if node.id == "self":
                return copy.deepcopy(recv)
            if node.id == hp:
                return copy.deepcopy(arg)
            return node
    return S().visit(body)


def r10_4(ctx):
    ctx.rule("R10.4", "every print/log while live is wrapped: both hooks return [position_cursor(), *renderables, live_render] on a terminal; Console.print and Console.log pass their renderables through every render hook before rendering them")
    from ..yieldpaths import Unsupported, paths_of, resolve, select, show
    for spec in ("live:Live.process_renderables", "progress:Progress.process_renderables"):
        f = ctx.repo.fn(spec)
        param = f.params[1]
        try:
            P = [resolve(p) for p in paths_of(f.node)]
        except Unsupported as u:
            raise AnalysisError(f"{spec}: statement outside the path normal form ({u}); the wrapping clause cannot be decided")
        term = select(P, {"self.console.is_terminal": True})
        ok = bool(term)
        bad = None
        for p in term:
            rets = [e for e in p if e[0] == "return"]
            good = False
            if len(rets) == 1 and rets[0][1] is not None:
                try:
                    v = ast.parse(rets[0][1], mode="eval").body
                except SyntaxError:
                    v = None
                v = _expand_live_render_helper(ctx, v, param)
                if isinstance(v, ast.List) and len(v.elts) == 3:
                    first, mid, last = v.elts
                    good = (isinstance(first, ast.Call) and isinstance(first.func, ast.Attribute) and first.func.attr == "position_cursor" and not first.args
                            and isinstance(mid, ast.Starred) and norm(mid.value) == param
                            and norm(last) == norm(first.func.value) and norm(last).endswith("_live_render"))
            if not good:
                ok, bad = False, p
        ctx.check(ok, f.fq, show(bad)[:300] if bad else f"[position_cursor(), *{param}, live_render]", f.where, f"terminal: every path ({len(term)}) returns [erase previous frame, *user output, new frame]",
                  f"process_renderables does not return [position_cursor(), *{param}, live_render] on every terminal path - printed lines are overwritten or old frames remain" + (f" [path: {show(bad)[:200]}]" if bad else ""))
        # every path returns a list that contains the user's renderables, unmodified and in order
        okall = bool(P)
        for p in P:
            rets = [e for e in p if e[0] == "return"]
            if len(rets) != 1 or rets[0][1] is None:
                okall = False
                continue
            try:
                v = ast.parse(rets[0][1], mode="eval").body
            except SyntaxError:
                okall = False
                continue
            v = _expand_live_render_helper(ctx, v, param)
            if not (norm(v) == param or (isinstance(v, ast.List) and sum(1 for e in v.elts if isinstance(e, ast.Starred) and norm(e.value) == param) == 1)):
                okall = False
        ctx.check(okall, f.fq, "return " + param, f.where, "every path returns the user's renderables (wrapped or not)", "process_renderables does not return the (wrapped) renderables on every path")
    for spec in ("console:Console.print", "console:Console.log"):
        f = ctx.repo.fn(spec)
        g = cfgmod.build(f.node)
        rd = g.reaching_defs(weak=False)
        hook_assign = None
        for n in g.stmt_nodes():
            if n.kind == "stmt" and isinstance(n.stmt, ast.Assign) and isinstance(n.stmt.value, ast.Call) and norm(n.stmt.value.func).endswith(".process_renderables"):
                par = f.module.parent_of.get(n.stmt)
                if isinstance(par, ast.For) and norm(par.iter) == "self._render_hooks" and norm(n.stmt.value.func).split(".")[0] == norm(par.target):
                    hook_assign = n
        if hook_assign is None:
            ctx.violation(f.fq, "no hook loop", f.where, f"{f.name}() no longer passes its renderables through self._render_hooks: output printed while a live display is active is not repositioned")
            continue
        var = norm(hook_assign.stmt.targets[0])
        ok_arg = norm(hook_assign.stmt.value.args[0]) == var if hook_assign.stmt.value.args else False
        # render loops: `for renderable in <var>` after the hook loop must see the hook assignment as a reaching def
        hook_loop = f.module.parent_of.get(hook_assign.stmt)
        inside = {id(x) for x in ast.walk(hook_loop)}
        # "after the hook loop" by control flow, not by position (inlined helper bodies share the line of their call)
        after_hooks = g.reach(g.nodes_of(hook_loop)) - {nid_ for st_ in ast.walk(hook_loop) if isinstance(st_, ast.stmt) for nid_ in g.nodes_of(st_)}

        def _uses(n):
            e = n.expr if getattr(n, "expr", None) is not None else (n.stmt.iter if n.kind == "for" else n.stmt)
            if e is None or id(n.stmt) in inside or n.stmt is None:
                return False
            roots = [n.stmt.iter] if n.kind == "for" else ([n.expr] if n.kind == "test" and n.expr is not None else [n.stmt])
            if n.kind not in ("for", "test", "stmt"):
                return False
            return any(isinstance(x, ast.Name) and x.id == var and isinstance(x.ctx, ast.Load) for r in roots for x in ast.walk(r)) and n.id in after_hooks
        loops = [n for n in g.stmt_nodes() if n.stmt is not None and _uses(n)]
        ok_loops = bool(loops) and all(hook_assign.id in rd.get(l.id, {}).get(var, set()) for l in loops)
        ctx.check(ok_arg and ok_loops, f.fq, short(hook_assign.stmt), f"{f.module.relpath}:{hook_assign.lineno}", f"{f.name}: hooks applied to `{var}` before the render loop(s) ({len(loops)})",
                  f"{f.name}(): the render loop does not consume the hook-processed `{var}` (hooks applied after rendering, or to a different list)")


def r10_5(ctx):
    ctx.rule("R10.5", "stop() is idempotent: every statement of Live.stop / Progress.stop that writes to the terminal or undoes start() (any self.console.* call, self.refresh(), _disable_redirect_io(), the transient restore_cursor) is reachable only when `_started` was true on entry - a second stop() (explicit stop() followed by __exit__) emits nothing, so no printed line is erased by a repeated restore_cursor")
    n_sites = 0
    for spec in ("live:Live.stop", "progress:Progress.stop"):
        f = ctx.repo.fn(spec)
        g = cfgmod.build(f.node)
        flips = [n for n in g.stmt_nodes() if n.kind == "stmt" and isinstance(n.stmt, ast.Assign) and norm(n.stmt.targets[0]) == "self._started" and norm(n.stmt.value) == "False"]
        if not flips:
            raise AnchorVanished(f"{spec}: `_started = False` store not found")

        cls = f.cls

        def direct(c):
            fn = norm(c.func)
            if fn.startswith("self.console.") and fn not in ("self.console.is_terminal",) or fn in ("self.refresh", "self._disable_redirect_io") or fn.endswith(".restore_cursor") or fn.endswith(".position_cursor"):
                return fn
            return None

        def effect(st):
            for c in ast.walk(st):
                if isinstance(c, ast.Call):
                    e = direct(c) or _helper_effects(cls, c, direct)
                    if e:
                        return e
            return None
        seen_stmts = set()
        for n in g.stmt_nodes():
            if n.kind != "stmt" or n.stmt is None or id(n.stmt) in seen_stmts or n.id not in g.reachable:
                continue
            eff = effect(n.stmt)
            if eff is None:
                continue
            facts = g.branch_facts(n.id)
            ok = any((norm(t) in ("not self._started",) and v is False) or (norm(t) == "self._started" and v is True) for t, v in facts)
            if ok:
                seen_stmts.add(id(n.stmt))
            n_sites += 1
            ctx.check(ok, f.fq, short(n.stmt), f"{f.module.relpath}:{n.stmt.lineno}", f"`{eff}(...)` runs only when the display was started",
                      f"`{short(n.stmt)}` in {f.qualname} is reachable when `_started` is already False: a second stop() (e.g. stop() inside the with-block, then __exit__) emits it again - for a transient display restore_cursor erases that many printed lines")
    ctx.floor(n_sites, 4, "terminal-effect statements in Live.stop / Progress.stop")


def r10_6(ctx):
    ctx.rule("R10.6", "print()/log() render before they write: every call of self.render in Console.print / Console.log is forced eagerly (argument of list.extend / list() / a list comprehension) into a local list, and only that list (or a lazy view over it such as split_and_crop_lines) reaches self._buffer - so a renderable that raises leaves nothing of the half-rendered print (erase codes, earlier renderables) in the buffer, and the live frame's stored shape stays in step with the screen")
    n_sites = 0
    for spec in ("console:Console.print", "console:Console.log"):
        f = ctx.repo.fn(spec)
        m = f.module
        aliases = alias_map(f.node)
        # local list variables: assigned a list display / list() / list comprehension only
        list_vars = set()
        other = set()
        for x in walk_local(f.node):
            tgt = val = None
            if isinstance(x, ast.Assign) and len(x.targets) == 1 and isinstance(x.targets[0], ast.Name):
                tgt, val = x.targets[0].id, x.value
            elif isinstance(x, ast.AnnAssign) and isinstance(x.target, ast.Name) and x.value is not None:
                tgt, val = x.target.id, x.value
            if tgt is None:
                continue
            if isinstance(val, (ast.List, ast.ListComp)) or (isinstance(val, ast.Call) and norm(val.func) in ("list", "sorted")):
                list_vars.add(tgt)
            else:
                other.add(tgt)
        list_vars -= other

        def eager_consumer(c):
            if isinstance(c, ast.ListComp):
                return True
            if isinstance(c, ast.Call):
                fn = norm(expand_alias(c.func, aliases))
                if fn in ("list", "sorted", "tuple"):
                    return True
                if "." in fn:
                    recv, meth = fn.rsplit(".", 1)
                    if meth in ("extend", "append") and recv in list_vars:
                        return True
            return False

        renders = [c for c in walk_local(f.node) if isinstance(c, ast.Call) and norm(expand_alias(c.func, aliases)) == "self.render"]
        if not renders:
            raise AnchorVanished(f"{spec}: no self.render(...) call found")
        for c in renders:
            cur = m.parent_of.get(c)
            forced = False
            while cur is not None and not isinstance(cur, ast.stmt):
                if eager_consumer(cur):
                    forced = True
                    break
                cur = m.parent_of.get(cur)
            n_sites += 1
            ctx.check(forced, f.fq, short(c), f"{m.relpath}:{c.lineno}", "render output forced into a local list before anything is written",
                      f"{f.name}(): `{short(c)}` is not consumed eagerly into a local list (it sits in a generator / chain / lazily applied wrapper): rendering now happens while the output buffer is being filled, so a renderable that raises leaves the eraser and earlier output in the buffer and the live frame's stored shape goes stale")
        # what reaches self._buffer
        for c in walk_local(f.node):
            if isinstance(c, ast.Call) and norm(expand_alias(c.func, aliases)) in ("self._buffer.extend", "self._buffer.append") and c.args:
                a = c.args[0]
                src_names = {x.id for x in ast.walk(a) if isinstance(x, ast.Name)}
                # loop variable of `for line in split_and_crop_lines(<list>, ...)`
                ok = False
                if isinstance(a, ast.Name) and a.id in list_vars:
                    ok = True
                elif isinstance(a, ast.Name):
                    for lp in walk_local(f.node):
                        if isinstance(lp, ast.For) and isinstance(lp.target, ast.Name) and lp.target.id == a.id and isinstance(lp.iter, ast.Call) and lp.iter.args and isinstance(lp.iter.args[0], ast.Name) and lp.iter.args[0].id in list_vars:
                            ok = True
                n_sites += 1
                ctx.check(ok, f.fq, short(c), f"{m.relpath}:{c.lineno}", "the buffer receives the already rendered list (or lines cut from it)",
                          f"{f.name}(): `{short(c)}` feeds self._buffer from `{norm(a)}`, which is not the fully rendered local list: output can reach the buffer before rendering has finished")
    ctx.floor(n_sites, 4, "render / buffer-write sites in Console.print and Console.log")


def r10_7(ctx):
    from .c19 import r19_6
    from .common import borrow
    borrow(ctx, r19_6, "R19.6", "R10.7", " [exactly the printed lines, in order, above the live frame: while a live display runs, print() goes through FileProxy, whose pending-line buffer must be neither lost nor replayed]")


def r10_8(ctx):
    ctx.rule("R10.8", "everything printed while a live display runs goes through the render hooks: in Console.print and Console.log every path from entry to a normal return passes through the loop `for hook in self._render_hooks: renderables = hook.process_renderables(renderables)` or delegates to print()/log() - no path writes to the buffer directly (self.line(), self.out(), self._buffer.append) and returns, because such output lands below the live frame without the frame being erased and redrawn (a remnant of the old frame stays on screen)")
    cls = ctx.repo.cls("console:Console")
    for name in ("print", "log"):
        f = cls.method(name)
        if f is None:
            raise AnchorVanished(f"Console.{name} not found")
        m = f.module
        g = cfgmod.build(f.node)
        through = set()
        for nd in g.nodes:
            if nd.id not in g.reachable:
                continue
            if nd.kind == "for" and isinstance(nd.stmt, ast.For) and norm(nd.stmt.iter) == "self._render_hooks" and any(isinstance(c, ast.Call) and isinstance(c.func, ast.Attribute) and c.func.attr == "process_renderables" for c in ast.walk(nd.stmt)):
                through.add(nd.id)
            if nd.kind == "stmt" and not isinstance(nd.stmt, (ast.With, ast.For, ast.If, ast.While, ast.Try)):
                for x in ast.walk(nd.stmt):
                    if isinstance(x, ast.Call) and isinstance(x.func, ast.Attribute) and norm(x.func.value) == "self" and x.func.attr in ("print", "log") and x.func.attr != name:
                        through.add(nd.id)
        hooks_loop = [x for x in walk_local(f.node) if isinstance(x, ast.For) and norm(x.iter) == "self._render_hooks"]
        if not through and not hooks_loop:
            ctx.violation(f.fq, "render hooks", f.where, f"Console.{name} never applies the render hooks: output printed during a live display is not placed above the frame")
            continue
        # nodes that put text into the buffer without the hooks
        al = alias_map(f.node)

        def direct(e):
            for x in ast.walk(e):
                if isinstance(x, ast.Call) and norm(expand_alias(x.func, al)) in ("self.line", "self.out", "self._buffer.append", "self._buffer.extend"):
                    return x
            return None
        n = 0
        for nd in g.stmt_nodes():
            if nd.kind != "stmt" or isinstance(nd.stmt, (ast.With, ast.For, ast.If, ast.While, ast.Try)):
                continue
            dx = direct(nd.stmt)
            if dx is None:
                continue
            n += 1
            # is this write preceded by the hook loop on every path?  (the regular path extends the buffer after the loop)
            r = g.reach([g.entry], avoid=through)
            ok = nd.id not in r
            ctx.check(ok, f.fq, short(nd.stmt), f"{m.relpath}:{nd.lineno}", "buffer written only after the render hooks were applied",
                      f"Console.{name}: `{short(nd.stmt)}` writes to the output buffer on a path that skips the render hooks: printed during a live display it is not preceded by the erase of the frame nor followed by its redraw - the old frame stays on screen above the new output", g.describe_path(g.path(g.entry, {nd.id}, avoid=through) or []))
        ctx.floor(n, 1, f"buffer writes in Console.{name}")


def r10_9(ctx):
    ctx.rule("R10.9", "start() does not leak on a raising renderable: when start() itself renders (a call of self.refresh() or of another method of the class that reaches refresh / console.print) after it has hidden the cursor, redirected io or pushed the render hook, every exceptional exit from that call passes the matching releases (or self.stop()) before leaving start() - __enter__ propagates the exception and __exit__ is then never run, so nothing else would restore the terminal")
    n = 0
    for spec in ("live:Live", "progress:Progress"):
        cls = ctx.repo.cls(spec)
        start = cls.method("start")
        if start is None:
            raise AnchorVanished(f"{spec}.start not found")
        m = start.module
        # methods of the class that render the user's renderable
        renders = {"refresh"}
        changed = True
        while changed:
            changed = False
            for q in [fi for lst in cls.methods.values() for fi in lst]:
                if q.node.name in renders or q.node.name in ("start", "stop", "__enter__", "__exit__"):
                    continue
                for c in walk_local(q.node):
                    if isinstance(c, ast.Call) and isinstance(c.func, ast.Attribute) and ((norm(c.func.value) == "self" and c.func.attr in renders) or norm(c.func) in ("self.console.print", "self.console.log")):
                        renders.add(q.node.name)
                        changed = True
                        break

        def is_render_stmt(st):
            return any(isinstance(c, ast.Call) and isinstance(c.func, ast.Attribute) and norm(c.func.value) == "self" and c.func.attr in renders for c in ast.walk(st))

        def may_raise(node):
            return node.kind == "stmt" and node.stmt is not None and not isinstance(node.stmt, (ast.With, ast.Try, ast.If, ast.For, ast.While)) and is_render_stmt(node.stmt)

        g = cfgmod.build(start.node, may_raise)
        acq = {}
        for nd in g.stmt_nodes():
            if nd.kind == "stmt" and isinstance(nd.stmt, ast.Expr) and isinstance(nd.stmt.value, ast.Call):
                r = _release_of(nd.stmt.value)
                if r:
                    acq[nd.id] = r
        ctx.floor(len(acq), 3, f"acquisitions in {spec}.start")
        render_nodes = [nd for nd in g.stmt_nodes() if may_raise(nd)]
        if not render_nodes:
            ctx.ok(start.where, f"{spec}.start does not render after acquiring", start.fq)
            n += 1
            continue
        for aid, (kind, desc) in sorted(acq.items()):
            rel = set()
            for nd in g.stmt_nodes():
                if nd.kind == "stmt" and nd.stmt is not None and not isinstance(nd.stmt, (ast.With, ast.Try, ast.If, ast.For, ast.While)):
                    for c in ast.walk(nd.stmt):
                        if isinstance(c, ast.Call) and (_is_release(c, kind) or _helper_must_release(cls, c, kind) or norm(c.func) == "self.stop"):
                            rel.add(nd.id)
            n += 1
            # edges that cannot be taken: a test of a boolean flag all of whose reaching definitions are the same constant
            # (try: render(); flag = True  finally: if not flag: <undo>  - on the raising path the flag is still False)
            rd9 = g.reaching_defs(weak=False)
            dead = set()
            for tn in g.nodes:
                if tn.kind != "test" or tn.expr is None or tn.id not in g.reachable:
                    continue
                e9, neg = tn.expr, False
                if isinstance(e9, ast.UnaryOp) and isinstance(e9.op, ast.Not):
                    e9, neg = e9.operand, True
                if not isinstance(e9, ast.Name):
                    continue
                ds = rd9.get(tn.id, {}).get(e9.id, set())
                vals = set()
                for d9 in ds:
                    st9 = g.nodes[d9].stmt
                    v9 = getattr(st9, "value", None)
                    vals.add(v9.value if isinstance(v9, ast.Constant) and isinstance(v9.value, bool) else "?")
                if len(vals) == 1 and "?" not in vals:
                    truth = (not next(iter(vals))) if neg else next(iter(vals))
                    taken = [b9 for b9 in g.succ[tn.id] if g.label.get((tn.id, b9)) is truth]
                    if taken:
                        for b9 in g.succ[tn.id]:
                            if b9 not in taken:
                                dead.add((tn.id, b9))  # the other branch (however its edge is labelled: False / 'exc' / None)
            seen9, stack9, prev9 = {aid}, [aid], {}
            w = None
            while stack9:
                a9 = stack9.pop()
                for b9 in g.succ[a9]:
                    if (a9, b9) in dead or b9 in rel or b9 in seen9:
                        continue
                    seen9.add(b9)
                    prev9[b9] = a9
                    stack9.append(b9)
            if g.rexit in seen9:
                w = [g.rexit]
                while w[-1] in prev9:
                    w.append(prev9[w[-1]])
                w.reverse()
            ctx.check(w is None, start.fq, f"{desc} on the raising exit of start()", f"{m.relpath}:{g.nodes[aid].lineno}", f"{desc} (or stop()) is passed before an exception from the first refresh leaves start()",
                      f"start() renders (`{short(render_nodes[0].stmt)}`) after `{short(g.nodes[aid].stmt)}`; if the renderable raises there, start() is left without {desc}: `with {spec.split(':')[1]}(...)` propagates the exception out of __enter__, __exit__ never runs, and the terminal keeps a hidden cursor / redirected stdout / the render hook",
                      g.describe_path(w) if w else None)
    ctx.floor(n, 2, "start() methods analysed")


def r10_10(ctx):
    ctx.rule("R10.10", "text pending in the redirected streams is emitted while the frame can still be redrawn under it: in Live.stop / Progress.stop every path to the final `console.line()` (which moves the cursor below the live region) first passes the release of the redirected streams (_disable_redirect_io, whose dropped FileProxy flushes its partial line through the still-installed hook) or an explicit flush of sys.stdout / sys.stderr; flushed afterwards, the partial line's erase sequence starts one row too low and leaves the top row of the old frame on screen")
    n = 0
    for spec in ("live:Live", "progress:Progress"):
        cls = ctx.repo.cls(spec)
        stop = cls.method("stop")
        start = cls.method("start")
        if stop is None or start is None:
            raise AnchorVanished(f"{spec}.stop not found")
        redirects = any(isinstance(c, ast.Call) and norm(c.func).endswith("_enable_redirect_io") for c in walk_local(start.node))
        if not redirects:
            continue
        m = stop.module
        g = cfgmod.build(stop.node)
        flushers, lines = set(), []
        for nd in g.stmt_nodes():
            if nd.kind != "stmt" or nd.stmt is None or isinstance(nd.stmt, (ast.With, ast.Try, ast.If, ast.For, ast.While)):
                continue
            for c in ast.walk(nd.stmt):
                if not isinstance(c, ast.Call):
                    continue
                fn_ = norm(c.func)
                if _is_release(c, "_disable_redirect_io") or _helper_must_release(cls, c, "_disable_redirect_io") or fn_ in ("sys.stdout.flush", "sys.stderr.flush"):
                    flushers.add(nd.id)
                if fn_ == "self.console.line":
                    lines.append(nd)
        if not lines:
            ctx.ok(stop.where, f"{spec}.stop emits no final new line", stop.fq)
            n += 1
            continue
        for ln in lines:
            n += 1
            w = g.path(g.entry, {ln.id}, avoid=flushers)
            ctx.check(w is None, stop.fq, short(ln.stmt), f"{m.relpath}:{ln.lineno}", "the redirected streams are released (pending text flushed) before the final new line",
                      f"`{short(ln.stmt)}` can be reached in stop() before the redirected streams are released: text written with print(..., end='') inside the block is flushed only afterwards (when the FileProxy is dropped), its erase sequence then starts below the frame and the frame's first row stays on screen above the flushed text",
                      g.describe_path(w) if w else None)
    ctx.floor(n, 2, "stop() methods with a final new line")


def r10_14(ctx):
    from ..yieldpaths import canon_test
    ctx.rule("R10.14", "the cursor leaves the live region whatever is on display: the final `console.line()` of Live.stop / Progress.stop, which moves the cursor below the last frame before restore_cursor (transient) or later prints, is conditional only on the kind of console (is_terminal, is_jupyter, is_dumb_terminal) and on the display having been started - never on the renderable. An empty frame ('' or Text('')) still occupies one row and its recorded shape has height 1; without the new line a transient display erases the last printed line above the frame")
    n = 0
    for spec in ("live:Live", "progress:Progress"):
        cls = ctx.repo.cls(spec)
        stop = cls.method("stop")
        if stop is None:
            raise AnchorVanished(f"{spec}.stop not found")
        g = cfgmod.build(stop.node)
        for nd in g.stmt_nodes():
            if nd.kind != "stmt" or nd.stmt is None or isinstance(nd.stmt, (ast.With, ast.Try, ast.If, ast.For, ast.While)):
                continue
            if not any(isinstance(c, ast.Call) and norm(c.func) == "self.console.line" for c in ast.walk(nd.stmt)):
                continue
            n += 1
            where = f"{stop.module.relpath}:{nd.lineno}"
            atoms = []
            for t, v in g.branch_facts(nd.id):
                atoms += [(a, tv) for a, tv in canon_test(t, v)]
            bad = [a for a, _tv in atoms if "renderable" in a or "_live_render" in a or "get_renderable" in a or "tasks" in a]
            unknown = [a for a, _tv in atoms if a not in bad and not any(k in a for k in ("is_terminal", "is_jupyter", "is_dumb_terminal", "_started", "transient", "disable", "auto_refresh", "_refresh_thread"))]
            if bad:
                ctx.violation(stop.fq, short(nd.stmt), where, f"the final new line is emitted only when `{bad[0]}`: an empty frame still takes one row (shape height 1), so with transient=True restore_cursor() starts one row too high and erases the last line printed above the live region")
            elif unknown:
                raise AnalysisError(f"{stop.fq}: the final console.line() depends on `{unknown[0]}`; cannot tell whether that can be false while a frame is on screen")
            else:
                ctx.ok(where, "the final new line depends only on the kind of console / the display being started", stop.fq)
    ctx.floor(n, 2, "final new lines in stop()")


def r10_11(ctx):
    ctx.rule("R10.11", "update(..., refresh=True) redraws: in Live.update and Progress.update every path to a normal exit on which the `refresh` argument is true passes the call self.refresh() - no early return in front of it (a 'nothing changed' shortcut skips the redraw of an object that was mutated in place and leaves a stale frame on screen)")
    n = 0
    for spec in ("live:Live", "progress:Progress"):
        f = ctx.repo.cls(spec).method("update")
        if f is None:
            raise AnchorVanished(f"{spec}.update not found")
        if "refresh" not in f.params and "refresh" not in [a.arg for a in f.node.args.kwonlyargs]:
            raise AnalysisError(f"{spec}.update has no `refresh` parameter")
        m = f.module
        g = cfgmod.build(f.node)
        calls = {nd.id for nd in g.stmt_nodes() if nd.kind == "stmt" and nd.stmt is not None and not isinstance(nd.stmt, (ast.With, ast.Try, ast.If, ast.For, ast.While)) and any(isinstance(c, ast.Call) and norm(c.func) == "self.refresh" for c in ast.walk(nd.stmt))}
        tests = {nd.id for nd in g.nodes if nd.kind == "test" and nd.expr is not None and norm(nd.expr) == "refresh"}
        if not calls:
            ctx.violation(f.fq, "self.refresh()", f.where, f"{spec.split(':')[1]}.update never calls self.refresh(): refresh=True has no effect")
            continue
        # search: entry -> exit, avoiding the refresh calls, never leaving a `refresh` test through its False edge
        seen, stack, prev = {g.entry}, [g.entry], {}
        while stack:
            a = stack.pop()
            for b in g.succ[a]:
                if b in calls or b in seen:
                    continue
                if a in tests and g.label.get((a, b)) is False:
                    continue
                seen.add(b)
                prev[b] = a
                stack.append(b)
        n += 1
        if g.exit in seen:
            path_ = [g.exit]
            while path_[-1] in prev:
                path_.append(prev[path_[-1]])
            path_.reverse()
            rets = [g.nodes[i] for i in path_ if g.nodes[i].kind == "stmt" and isinstance(g.nodes[i].stmt, ast.Return)]
            ctx.violation(f.fq, short(rets[0].stmt) if rets else "fall through", f"{m.relpath}:{rets[0].lineno if rets else f.node.lineno}", f"{spec.split(':')[1]}.update can finish without self.refresh() although refresh=True was passed: after update(table, refresh=True) with a table that was extended in place the old frame stays on screen", g.describe_path(path_))
        else:
            ctx.ok(f.where, f"{spec.split(':')[1]}.update: refresh=True always reaches self.refresh()", f.fq)
    ctx.floor(n, 2, "update() methods analysed")


def r10_12(ctx):
    ctx.rule("R10.12", "the buffer context is always left: Console.__enter__ opens a buffer level and Console.__exit__ closes it (self._exit_buffer()) on EVERY path, whatever the exception arguments - print, log and every refresh run inside `with console:`; if a renderable raises and the level is not closed, _buffer_index never returns to 0 and nothing the console prints afterwards (including the cursor restore of stop()) reaches the terminal")
    cons = ctx.repo.cls("console:Console")
    en, ex = cons.method("__enter__"), cons.method("__exit__")
    if en is None or ex is None:
        raise AnchorVanished("Console.__enter__/__exit__ not found")
    opens = any(isinstance(c, ast.Call) and norm(c.func) == "self._enter_buffer" for c in walk_local(en.node))
    ctx.check(opens, en.fq, "self._enter_buffer()", en.where, "__enter__ opens a buffer level", "Console.__enter__ no longer opens a buffer level")
    g = cfgmod.build(ex.node)
    closes = {nd.id for nd in g.stmt_nodes() if nd.kind == "stmt" and nd.stmt is not None and not isinstance(nd.stmt, (ast.With, ast.Try, ast.If, ast.For, ast.While)) and any(isinstance(c, ast.Call) and norm(c.func) == "self._exit_buffer" for c in ast.walk(nd.stmt))}
    if not closes:
        ctx.violation(ex.fq, "self._exit_buffer()", ex.where, "Console.__exit__ never closes the buffer level")
        return
    w = g.must_pass(g.entry, closes, {g.exit})
    ctx.check(w is None, ex.fq, "self._exit_buffer()", ex.where, "__exit__ closes the buffer level on every path",
              "Console.__exit__ can return without self._exit_buffer() (it depends on the exception arguments): after a renderable raised inside `with console:` the buffer level stays open, everything printed later stays buffered - the terminal keeps the hidden cursor and shows no further output", g.describe_path(w) if w else None)


def r10_13(ctx):
    ctx.rule("R10.13", "an update to an empty value is an update: Status.update replaces status / spinner / spinner_style / speed whenever the argument was passed (`is not None`), not only when it is truthy - update(status='') must clear the text the next frame shows")
    f = ctx.repo.cls("status:Status").method("update")
    if f is None:
        raise AnchorVanished("Status.update not found")
    m = f.module
    opt = [p_ for p_ in f.params[1:] if p_ in ("status", "spinner", "spinner_style", "speed")]
    n = 0
    for x in walk_local(f.node):
        if isinstance(x, ast.If):
            t = x.test
            names = {nd.id for nd in ast.walk(t) if isinstance(nd, ast.Name)} & set(opt)
            if not names:
                continue
            n += 1
            bare = isinstance(t, ast.Name) or (isinstance(t, ast.UnaryOp) and isinstance(t.op, ast.Not) and isinstance(t.operand, ast.Name))
            ctx.check(not bare, f.fq, f"if {short(t)}", f"{m.relpath}:{x.lineno}", f"`{sorted(names)[0]}` applied whenever it was passed",
                      f"`if {short(t)}:` tests the truth of the new value: update({sorted(names)[0]}='') (or Text('')) is ignored, the display is still refreshed and every later frame shows the old value")
    ctx.floor(n, 2, "optional arguments handled by Status.update")


def r10_15(ctx):
    from .c19 import r19_11
    from .common import borrow
    borrow(ctx, r19_11, "R19.11", "R10.15", " [every byte of the display reaches ONE stream: the proxy installed for a stream wraps that stream's own file, or a console on stderr draws its frames on stdout while its cursor codes went to stderr]")


def r10_16(ctx):
    from .c01 import r1_12
    from .common import borrow
    borrow(ctx, r1_12, "R1.12", "R10.16", " [a frame line wider than the terminal wraps: the recorded frame height undercounts the rows on screen and the next erase leaves remnants]")


def r10_17(ctx):
    ctx.rule("R10.17", "the hook stack is a stack: Console.push_render_hook appends the hook to Console._render_hooks and Console.pop_render_hook removes exactly the last entry (pop() / pop(-1) / del [-1]) on every path - stop() relies on it to end the rewriting of prints; a pop that removes nothing leaves the finished display's hook installed (every later print redraws the dead frame), one that removes the first entry unhooks an outer display")
    c = ctx.repo.cls("console:Console")
    push, pop = c.method("push_render_hook"), c.method("pop_render_hook")
    if push is None or pop is None:
        raise AnchorVanished("Console.push_render_hook / pop_render_hook not found")
    hp = push.params[1] if len(push.params) > 1 else None
    apps = [x for x in walk_local(push.node) if isinstance(x, ast.Call) and norm(x.func) == "self._render_hooks.append" and len(x.args) == 1 and norm(x.args[0]) == hp]
    ctx.check(len(apps) == 1, push.fq, "self._render_hooks.append(hook)", push.where, "push appends the hook", "push_render_hook does not append exactly the given hook to self._render_hooks")
    g = cfgmod.build(pop.node)
    removes = set()
    for nd in g.stmt_nodes():
        if nd.kind != "stmt" or nd.stmt is None:
            continue
        for x in ast.walk(nd.stmt):
            if isinstance(x, ast.Call) and norm(x.func) == "self._render_hooks.pop" and (not x.args or (len(x.args) == 1 and const_int(x.args[0]) == -1)):
                removes.add(nd.id)
            if isinstance(x, ast.Call) and norm(x.func) == "self._render_hooks.pop" and x.args and const_int(x.args[0]) not in (-1, None):
                ctx.violation(pop.fq, short(nd.stmt), f"{pop.module.relpath}:{nd.lineno}", f"`{short(nd.stmt)}` removes an entry other than the last one: nested displays are unhooked in the wrong order")
        if isinstance(nd.stmt, ast.Delete) and any(norm(t_) == "self._render_hooks[-1]" for t_ in nd.stmt.targets):
            removes.add(nd.id)
    ok = bool(removes) and g.exit not in g.reach([g.entry], avoid=removes)
    ctx.check(ok, pop.fq, "self._render_hooks.pop()", pop.where, "pop removes the last hook on every path",
              "pop_render_hook can return without having removed the last entry of self._render_hooks: after stop() the display's hook stays installed and every later print is rewritten around a frame that is no longer live")


def r10_18(ctx):
    ctx.rule("R10.18", "the last frame stays unless the display is transient: in Live.stop and Progress.stop every statement that erases the final frame (a console.control(..) whose argument comes from the live renderable's restore_cursor()) runs exactly under the fact `self.transient` - with the polarity reversed an ordinary display vanishes at stop() and a transient one stays on screen - and such a statement exists (a transient display must leave nothing)")
    n = 0
    for spec in ("live:Live", "progress:Progress"):
        f = ctx.repo.cls(spec).method("stop")
        if f is None:
            raise AnchorVanished(f"{spec}.stop not found")
        m = f.module
        g = cfgmod.build(f.node)
        sites = [nd for nd in g.stmt_nodes() if nd.kind == "stmt" and nd.stmt is not None and any(isinstance(c, ast.Call) and norm(c.func).endswith("restore_cursor") for c in ast.walk(nd.stmt))]
        if not sites:
            ctx.violation(f.fq, "restore_cursor()", f.where, f"{f.qualname} never erases the final frame: a transient display leaves its last frame on screen")
            continue
        for nd in sites:
            n += 1
            facts = {(norm(t), v) for t, v in g.branch_facts(nd.id)}
            ok = ("self.transient", True) in facts or ("not self.transient", False) in facts
            wrong = ("self.transient", False) in facts or ("not self.transient", True) in facts
            ctx.check(ok and not wrong, f.fq, short(nd.stmt), f"{m.relpath}:{nd.lineno}", "the final frame is erased only for a transient display",
                      f"`{short(nd.stmt)}` erases the final frame " + ("when the display is NOT transient" if wrong else "without the `self.transient` test") + ": after stop() an ordinary display has vanished (and a transient one is still there) - the screen does not end with the most recently refreshed frame")
    ctx.floor(n, 2, "erase-after-stop sites")


RULES = [r10_1, r10_2, r10_3, r10_4, r10_5, r10_6, r10_7, r10_8, r10_9, r10_10, r10_11, r10_12, r10_13, r10_14, r10_15, r10_16, r10_17, r10_18]


def _xcheck(ctx):
    from .common import mypy_crosscheck
    mypy_crosscheck(ctx)


THOROUGH = [_xcheck]
