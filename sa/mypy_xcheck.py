"""Thorough-tier cross-check of the resolver against mypy (used as a library, types only - no rich code runs).

For every method-call site `X.m(...)` in the lock-relevant modules it compares the receiver class mypy
infers with the callee our call graph resolved:
  * disagreement  -> reported (the check that relies on the edge must not be believed)
  * mypy knows the receiver is a rich class defining m, we have no edge, and that method (by our
    own summary) acquires a lock -> reported as a lock-relevant unresolved call
Prints one JSON object.  python -m sa.mypy_xcheck [module ...]
"""
from __future__ import annotations

import json
import os
import sys

MODULES = ["console", "live", "live_render", "progress", "status", "file_proxy", "theme", "segment", "style", "text"]


def main(argv):
    mods = argv or MODULES
    out = {"available": False, "sites": 0, "agree": 0, "disagree": [], "unresolved_lock_relevant": [], "mypy_only": 0, "ours_only": 0}
    try:
        from mypy import build
        from mypy.options import Options
        from mypy.find_sources import create_source_list
        import mypy.nodes as N
    except Exception as e:  # pragma: no cover
        out["error"] = f"mypy not importable: {e!r}"
        print(json.dumps(out))
        return 0
    from .index import REPO_ROOT, Repo
    from .callgraph import CallGraph, Locks
    import ast

    repo = Repo()
    cg = CallGraph(repo)
    locks = Locks(cg)
    acq = locks.acquires()
    cwd = os.getcwd()
    os.chdir(REPO_ROOT)
    try:
        opts = Options()
        opts.preserve_asts = True
        opts.export_types = True
        opts.incremental = False
        opts.cache_dir = os.devnull
        opts.ignore_missing_imports = True
        opts.follow_imports = "silent"
        srcs = create_source_list(["rich"], opts)
        res = build.build(srcs, opts)
    finally:
        os.chdir(cwd)
    out["available"] = True

    def walk(n, seen):
        if n is None or id(n) in seen:
            return
        seen.add(id(n))
        yield n
        for name in dir(type(n)):
            if name.startswith("_") or name in ("info", "node", "type", "analyzed", "def_node"):
                continue
            try:
                v = getattr(n, name)
            except Exception:
                continue
            if isinstance(v, N.Node):
                yield from walk(v, seen)
            elif isinstance(v, (list, tuple)):
                for x in v:
                    if isinstance(x, N.Node):
                        yield from walk(x, seen)
                    elif isinstance(x, (list, tuple)):
                        for y in x:
                            if isinstance(y, N.Node):
                                yield from walk(y, seen)

    for ms in mods:
        g = res.graph.get("rich." + ms)
        m = repo.modules.get("rich." + ms)
        if g is None or g.tree is None or m is None:
            continue
        # lines inside `if __name__ == "__main__":` are demo code, outside every rule's scope
        main_lines = set()
        for st in m.tree.body:
            if m._is_main_guard(st):
                main_lines |= set(range(st.lineno, (st.end_lineno or st.lineno) + 1))
        # mypy side: (line, method) -> set of receiver class fullnames
        mp = {}
        for n in walk(g.tree, set()):
            if isinstance(n, N.CallExpr) and isinstance(n.callee, N.MemberExpr):
                if n.line in main_lines:
                    continue
                t = res.types.get(n.callee.expr)
                if t is None:
                    continue
                s = str(t)
                if s.startswith("rich.") and "[" not in s and "|" not in s and " " not in s:
                    mp.setdefault((n.line, n.callee.name), set()).add(s.split(".")[-1].rstrip("?"))
        # our side
        ours = {}
        for f in m.functions.values():
            if m.in_main_guard(f.node):
                continue
            for e in cg.out.get(f.fq, []):
                if e.kind in ("call", "dispatch") and isinstance(e.node, ast.Call) and isinstance(e.node.func, ast.Attribute) and e.callee.cls is not None and e.kind == "call":
                    ours.setdefault((e.node.lineno, e.node.func.attr), set()).add(e.callee.cls.name)
        for key, classes in mp.items():
            out["sites"] += 1
            mine = ours.get(key)
            if mine is None:
                out["mypy_only"] += 1
                # is it lock relevant?
                for cn in classes:
                    for c in repo.all_classes():
                        if c.name == cn:
                            meth = cg.types.find_method(c, key[1])
                            if meth is not None and acq.get(meth.fq):
                                out["unresolved_lock_relevant"].append(f"rich/{ms}.py:{key[0]} .{key[1]}() on {cn} acquires {sorted(a + '.' + b for a, b in acq[meth.fq])}")
                continue
            # method may be defined on a base class: compare through the MRO
            ok = False
            for cn in classes:
                for c in repo.all_classes():
                    if c.name == cn:
                        meth = cg.types.find_method(c, key[1])
                        if meth is not None and meth.cls is not None and meth.cls.name in mine:
                            ok = True
                if cn in mine:
                    ok = True
                # our callee class may be a subclass of the declared receiver type (constructor-inferred)
                for mc in mine:
                    for c in repo.all_classes():
                        if c.name == mc and any(k.name == cn for k in cg.types.mro(c)):
                            ok = True
            if ok:
                out["agree"] += 1
            else:
                out["disagree"].append(f"rich/{ms}.py:{key[0]} .{key[1]}(): mypy receiver {sorted(classes)}, resolver callee class {sorted(mine)}")
        out["ours_only"] += sum(1 for k in ours if k not in mp)
    print(json.dumps(out))
    sys.stdout.flush()
    os._exit(0)


if __name__ == "__main__":
    main(sys.argv[1:])
