#!/venv/bin/python
"""Write sa/baseline_symbols.json: the functions of every module of /repo/rich at the current HEAD (maintenance tool; run when the
rules are brought up to date with the tree)."""
import ast, glob, json, os, sys
sys.path.insert(0, "/verif")
from sa.inliner import symbol_inventory
out = {}
for p in sorted(glob.glob("/repo/rich/*.py")):
    out[os.path.relpath(p, "/repo")] = symbol_inventory(ast.parse(open(p).read()))
json.dump(out, open("/verif/sa/baseline_symbols.json", "w"), indent=0, sort_keys=True)
print(sum(len(v) for v in out.values()), "functions in", len(out), "modules")
