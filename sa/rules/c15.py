"""C15 Recording, capture and export agree with what was written."""
from __future__ import annotations

import ast
from typing import List, Optional, Set

from .. import cfg as cfgmod
from ..astutil import alias_map, call_name, expand_alias, is_attr_of
from ..index import AnalysisError, AnchorVanished, norm, short, walk_local
from .common import get_cg
from .c11 import _file_write_sites_ext

LEVEL = "other"
UNDECIDED = [
    "equality of the four outputs (file, text export, HTML export, styled export) over whole histories",
    "style equality of runs merged by Segment.simplify; decoding of the styled export",
    "output shown through the pager (PagerContext) is not one of the property's operations",
]
TRUSTED = ["CPython ast parser", "str.replace chain semantics; html entity decoding maps &amp;/&lt;/&gt; back"]

# callers of the recording renderer whose output deliberately does not go to Console.file
CALLER_EXCEPTIONS = {
    "console:PagerContext.__exit__": "output is shown in an external pager, not written to Console.file; the pager is outside this property's operations",
}


def _record_sites(ctx):
    cg, _ = get_cg(ctx)
    T = cg.types
    out = []
    for f in ctx.repo.all_functions():
        for n in walk_local(f.node):
            if isinstance(n, ast.Call) and isinstance(n.func, ast.Attribute) and n.func.attr in ("extend", "append", "insert") and isinstance(n.func.value, ast.Attribute) and n.func.value.attr == "_record_buffer":
                out.append((f, n))
            if isinstance(n, ast.AugAssign) and isinstance(n.target, ast.Attribute) and n.target.attr == "_record_buffer":
                out.append((f, n))
            if isinstance(n, ast.Assign) and any(isinstance(t, ast.Attribute) and t.attr == "_record_buffer" for t in n.targets) and f.name != "__init__":
                out.append((f, n))
    return out


def _written_vars(f, _depth: int = 0) -> Set[str]:
    """Names passed to a file write in f (directly, as the iterable of a `for piece in name.splitlines()` writer, or through
    a same-class helper that writes its parameter)."""
    out = set()
    aliases = alias_map(f.node)
    if f.cls is not None and _depth < 2:
        for n in walk_local(f.node):
            if isinstance(n, ast.Call) and isinstance(n.func, ast.Attribute) and isinstance(n.func.value, ast.Name) and n.func.value.id == "self":
                h = f.cls.method(n.func.attr)
                if h is not None and h is not f:
                    hv = _written_vars(h, _depth + 1)
                    for i, a in enumerate(n.args):
                        if isinstance(a, ast.Name) and i + 1 < len(h.params) and h.params[i + 1] in hv:
                            out.add(a.id)
    for n in walk_local(f.node):
        if isinstance(n, ast.Call):
            fn = expand_alias(n.func, aliases) if isinstance(n.func, ast.Name) else n.func
            if isinstance(fn, ast.Attribute) and fn.attr == "write" and "file" in norm(fn.value) and n.args and isinstance(n.args[0], ast.Name):
                out.add(n.args[0].id)
    for n in walk_local(f.node):
        if isinstance(n, ast.For) and isinstance(n.target, ast.Name) and n.target.id in out and isinstance(n.iter, ast.Call) and isinstance(n.iter.func, ast.Attribute) and isinstance(n.iter.func.value, ast.Name):
            out.add(n.iter.func.value.id)
    from .common import chunk_source
    for nm in list(out):
        cs = chunk_source(f.node, nm)
        if cs is not None:
            out.add(cs[0])
    return out


def r15_1(ctx):
    ctx.rule("R15.1", "the record is what is written: segments are added to _record_buffer at exactly one point, unfiltered, and only on a path where the string rendered from those same segments is written to Console.file (same lock region, same guard); no caller turns recorded segments into a returned string")
    cg, locks = get_cg(ctx)
    sites = _record_sites(ctx)
    ctx.check(len(sites) == 1, "console:Console", f"{len(sites)} recording sites", "rich/console.py", "exactly one recording point",
              f"the record is extended at {len(sites)} places ({[f.fq + ':' + str(n.lineno) for f, n in sites]}): segments can be recorded twice or not at all")
    for f, n in sites:
        mod = f.module
        where = f"{mod.relpath}:{n.lineno}"
        arg = n.args[0] if isinstance(n, ast.Call) and n.args else getattr(n, "value", None)
        if arg is None:
            raise AnalysisError("recording site has no argument")
        if isinstance(arg, ast.Name) and arg.id in f.params:
            # layout A: recording inside the renderer; every caller must write the result
            g = cfgmod.build(f.node)
            rd = g.reaching_defs(weak=False)
            st = n
            while not isinstance(st, ast.stmt):
                st = mod.parent_of[st]
            for nid in g.nodes_of(st):
                ok = rd.get(nid, {}).get(arg.id, set()) == {g.entry}
                ctx.check(ok, f.fq, short(n), where, "records the segments exactly as passed in (before any filtering)",
                          f"`{arg.id}` is rebound (e.g. colour stripped / filtered) before being recorded: the record differs from what was printed")
            for e in cg.inc.get(f.fq, []):
                caller = e.caller
                cwhere = f"{caller.module.relpath}:{e.node.lineno}"
                if caller.fq in CALLER_EXCEPTIONS:
                    ctx.note(f"caller {caller.fq} listed, not reported: {CALLER_EXCEPTIONS[caller.fq]}")
                    continue
                cst = e.node
                while not isinstance(cst, ast.stmt):
                    cst = caller.module.parent_of[cst]
                target = cst.targets[0].id if isinstance(cst, ast.Assign) and isinstance(cst.targets[0], ast.Name) else None
                ok = target is not None and target in _written_vars(caller)
                ctx.check(ok, caller.fq, short(cst), cwhere, f"{caller.qualname}: the rendered (and recorded) string is written to the file",
                          f"{caller.qualname} renders through {f.qualname}, which records the segments, but does not write the result to Console.file (it is returned/kept): text that never reached the file appears in export_text()/export_html()")
        else:
            # layout B: recording next to the write
            writes = [c for ff, c, w in _file_write_sites_ext(ctx) if ff is f and w.endswith(".write")]
            renders = [c for c in walk_local(f.node) if isinstance(c, ast.Call) and norm(c.func).endswith("._render_buffer")]
            from ..astutil import inline as _inl151, single_defs as _sdf151
            sd151 = _sdf151(f.node)
            # two copies of the thread's own buffer taken in the same critical section with nothing mutating it in between hold the same segments
            arg_full = norm(_inl151(arg, sd151))
            same = [c for c in renders if c.args and norm(_inl151(c.args[0], sd151)) == arg_full]
            if same and arg_full != norm(arg):
                g151 = cfgmod.build(f.node)
                muts = set()
                for nd in g151.stmt_nodes():
                    if nd.kind == "stmt" and nd.stmt is not None and (isinstance(nd.stmt, ast.Delete) or any(isinstance(c_, ast.Call) and isinstance(c_.func, ast.Attribute) and c_.func.attr in ("append", "extend", "clear", "pop", "insert", "remove") and "_buffer" in norm(c_.func.value) and "_record_buffer" not in norm(c_.func.value) for c_ in ast.walk(nd.stmt))):
                        if isinstance(nd.stmt, ast.Delete) and not any("self._buffer" in norm(t_) for t_ in nd.stmt.targets):
                            continue
                        muts.add(nd.id)
                defst = [x for x in walk_local(f.node) if isinstance(x, ast.Assign) and isinstance(arg, ast.Name) and norm(x.targets[0]) == arg.id]
                rst = same[0]
                while not isinstance(rst, ast.stmt):
                    rst = mod.parent_of[rst]
                if defst and muts:
                    between = g151.reach(g151.nodes_of(defst[0]), avoid=set(g151.nodes_of(rst)))
                    if between & muts and set(g151.nodes_of(rst)) & g151.reach(list(between & muts)):
                        same = []
            ctx.check(bool(same) and bool(writes), f.fq, short(n), where, f"records `{norm(arg)}`, the very snapshot that is rendered and written",
                      f"records `{norm(arg)}` but the string written to the file is rendered from {[norm(c.args[0]) for c in renders if c.args]}: record and file differ")
            if same and writes:
                rst = same[0]
                while not isinstance(rst, ast.stmt):
                    rst = mod.parent_of[rst]
                target = rst.targets[0].id if isinstance(rst, ast.Assign) and isinstance(rst.targets[0], ast.Name) else None
                ctx.check(target is not None and target in _written_vars(f), f.fq, short(rst), f"{mod.relpath}:{rst.lineno}", "the string rendered from the recorded snapshot is what gets written", "the rendered string is not the value written to the file")
                # same lock set and same guard
                h1, h2 = locks.held_lex(f, n), locks.held_lex(f, writes[0])
                ctx.check(("Console", "_lock") in h1 and h1 - {("Console", "_record_buffer_lock")} == h2 - {("Console", "_record_buffer_lock")}, f.fq, "lock region", where,
                          "recording and writing happen in one Console._lock region (record order = file order)", "recording and the file write are not in the same Console._lock region: the record order can differ from the file order")
                g = cfgmod.build(f.node)
                nst = n
                while not isinstance(nst, ast.stmt):
                    nst = mod.parent_of[nst]
                wst = writes[0]
                while not isinstance(wst, ast.stmt):
                    wst = mod.parent_of[wst]
                for nid in g.nodes_of(nst):
                    facts = [(norm(t), v) for t, v in g.branch_facts(nid) if "_buffer_index" in norm(t)]
                    wfacts = set()
                    for wid in g.nodes_of(wst):
                        wfacts |= {(norm(t), v) for t, v in g.branch_facts(wid) if "_buffer_index" in norm(t)}
                    ctx.check(set(facts) == wfacts and facts, f.fq, f"guard {facts}", where, "recording is gated by the same _buffer_index == 0 test as the write (captured output is not recorded)",
                              f"recording is gated by {facts} but the write by {sorted(wfacts)}: output inside a capture block is recorded although it never reaches the file (or vice versa)")
                # nothing mutates the buffer between record and render
                seq = _stmts_between(mod, nst, rst)
                bad = [s for s in seq if "_buffer" in norm(s) and (isinstance(s, ast.Delete) or ".append(" in norm(s) or ".extend(" in norm(s))]
                ctx.check(not bad, f.fq, "record..render", where, "the buffer is not changed between recording and rendering", f"the buffer is modified between recording and rendering: {[short(b) for b in bad]}")
    # nobody else renders-and-drops through a recording function is covered above.


def _stmts_between(mod, a, b):
    par = mod.parent_of.get(a)
    for attr in ("body", "orelse", "finalbody"):
        blk = getattr(par, attr, None)
        if isinstance(blk, list) and a in blk and b in blk:
            i, j = blk.index(a), blk.index(b)
            return blk[i + 1:j] if i < j else blk[j + 1:i]
    return []


def r15_2(ctx):
    ctx.rule("R15.2", "clear flag: in export_text and export_html the only mutation of the record is `del self._record_buffer[:]` on the true branch of `if clear`; nothing else in the package empties or rewrites the record")
    n = 0
    for spec in ("console:Console.export_text", "console:Console.export_html"):
        f = ctx.repo.fn(spec)
        g = cfgmod.build(f.node)
        muts = []
        for nd in g.stmt_nodes():
            if nd.kind != "stmt":
                continue
            s = nd.stmt
            if isinstance(s, ast.Delete) and any("_record_buffer" in norm(t) for t in s.targets):
                muts.append(nd)
            elif isinstance(s, (ast.Assign, ast.AugAssign)) and any("_record_buffer" in norm(t) for t in (s.targets if isinstance(s, ast.Assign) else [s.target])):
                muts.append(nd)
            elif isinstance(s, ast.Expr) and isinstance(s.value, ast.Call) and isinstance(s.value.func, ast.Attribute) and "_record_buffer" in norm(s.value.func.value) and s.value.func.attr in cfgmod.MUTATOR_METHODS:
                muts.append(nd)
        ctx.check(len(muts) >= 1, f.fq, "del self._record_buffer[:]", f.where, "export can clear the record", f"{f.qualname} never clears the record: export(clear=True) leaves it unchanged")
        for nd in muts:
            n += 1
            facts = g.branch_facts(nd.id)
            ok = isinstance(nd.stmt, ast.Delete) and any(v is True and norm(t) == "clear" for t, v in facts)
            ctx.check(ok, f.fq, short(nd.stmt), f"{f.module.relpath}:{nd.lineno}", "record emptied only under `if clear`",
                      f"`{short(nd.stmt)}` changes the record without being guarded by `if clear`: exporting with clear=False alters the record (or clear=True does not empty it)")
        # the `if clear` test is reached on every normal path (no early return skips it)
        tests = {nd.id for nd in g.stmt_nodes() if nd.kind == "test" and norm(nd.expr) == "clear"}
        w = g.must_pass(g.entry, tests, {g.exit}) if tests else [g.entry]
        ctx.check(w is None, f.fq, "if clear", f.where, "every normal path through the export reaches the `if clear` test",
                  f"a path through {f.qualname} returns without reaching `if clear` (e.g. an early return in one branch): exporting with clear=True leaves the record in place on that path, so the next export repeats old output",
                  g.describe_path(w) if w else None)
        if "clear" not in f.params:
            ctx.violation(f.fq, "no clear parameter", f.where, "export has no `clear` parameter")
    ctx.floor(n, 2, "record mutations in exports")
    # other mutators of the record anywhere
    others = []
    for f in ctx.repo.all_functions():
        if f.fq in ("console:Console.export_text", "console:Console.export_html", "console:Console.__init__"):
            continue
        for x in walk_local(f.node):
            if isinstance(x, ast.Delete) and any("_record_buffer" in norm(t) for t in x.targets):
                others.append(f"{f.fq}:{x.lineno}")
            if isinstance(x, ast.Call) and isinstance(x.func, ast.Attribute) and "_record_buffer" in norm(x.func.value) and x.func.attr in ("clear", "pop", "remove", "reverse", "sort"):
                others.append(f"{f.fq}:{x.lineno}")
    ctx.check(not others, "console:Console", "other record mutators", "rich/console.py", "nothing else removes or reorders recorded segments", f"the record is also emptied/reordered at {others}")


def r15_3(ctx):
    ctx.rule("R15.3", "capture gating: begin_capture opens a buffer context (index += 1) so the file write (guarded by _buffer_index == 0, R11.2) cannot happen; end_capture renders the thread's buffer, clears it and only then leaves the context; Capture.__exit__ stores end_capture()'s result on every path")
    bc = ctx.repo.fn("console:Console.begin_capture")
    ctx.check(any(isinstance(c, ast.Call) and norm(c.func) == "self._enter_buffer" for c in walk_local(bc.node)), bc.fq, "self._enter_buffer()", bc.where, "begin_capture enters a buffer context", "begin_capture does not enter a buffer context: prints inside the block go straight to the file")
    eb = ctx.repo.fn("console:Console._enter_buffer")
    ok = any(isinstance(n, ast.AugAssign) and isinstance(n.op, ast.Add) and norm(n.target) == "self._buffer_index" for n in walk_local(eb.node))
    ctx.check(ok, eb.fq, "self._buffer_index += 1", eb.where, "_enter_buffer increments the nesting counter", "_enter_buffer does not increment _buffer_index")
    xb = ctx.repo.fn("console:Console._exit_buffer")
    body = [norm(s) for s in xb.node.body if not (isinstance(s, ast.Expr) and isinstance(s.value, ast.Constant))]
    ok = body[:2] == ["self._buffer_index -= 1", "self._check_buffer()"]
    ctx.check(ok, xb.fq, " ; ".join(body), xb.where, "_exit_buffer decrements, then flushes if outermost", "_exit_buffer does not decrement the counter before checking the buffer")
    ec = ctx.repo.fn("console:Console.end_capture")
    g = cfgmod.build(ec.node)
    from ..astutil import inline as _inl, single_defs as _sdf
    _sd = _sdf(ec.node)
    render = [n.id for n in g.stmt_nodes() if n.kind == "stmt" and any(isinstance(c, ast.Call) and norm(c.func) == "self._render_buffer" and c.args and "self._buffer" in norm(_inl(c.args[0], _sd)) for c in ast.walk(n.stmt))]
    clear = [n.id for n in g.stmt_nodes() if n.kind == "stmt" and isinstance(n.stmt, ast.Delete) and any("self._buffer" in norm(_inl(t, _sd)) for t in n.stmt.targets)]
    # list.clear() on the buffer (or a local name for it) empties it just the same
    clear += [n.id for n in g.stmt_nodes() if n.kind == "stmt" and isinstance(n.stmt, ast.Expr) and isinstance(n.stmt.value, ast.Call) and isinstance(n.stmt.value.func, ast.Attribute)
              and n.stmt.value.func.attr == "clear" and not n.stmt.value.args and norm(_inl(n.stmt.value.func.value, _sd)) == "self._buffer"]
    exitb = [n.id for n in g.stmt_nodes() if n.kind == "stmt" and any(isinstance(c, ast.Call) and norm(c.func) == "self._exit_buffer" for c in ast.walk(n.stmt))]
    # _exit_buffer written out in place: the counter is decremented (that is what leaves the context), then _check_buffer() runs
    exitb += [n.id for n in g.stmt_nodes() if n.kind == "stmt" and isinstance(n.stmt, ast.AugAssign) and isinstance(n.stmt.op, ast.Sub) and norm(n.stmt.target) == "self._buffer_index"]
    ok = bool(render) and bool(clear) and bool(exitb)
    if ok:
        ok = all(g.dominated_by(c, set(render)) for c in clear) and all(g.dominated_by(x, set(clear)) for x in exitb)
    ctx.check(ok, ec.fq, "render -> del buffer -> _exit_buffer", ec.where, "captured segments are rendered and discarded before the context is left",
              "end_capture does not render and clear the thread's buffer BEFORE leaving the buffer context: the captured output is flushed to the file (or lost)")
    rets = [r for r in walk_local(ec.node) if isinstance(r, ast.Return)]
    rv = None
    for n in walk_local(ec.node):
        if isinstance(n, ast.Assign) and isinstance(n.value, ast.Call) and norm(n.value.func) == "self._render_buffer":
            rv = norm(n.targets[0])
    same = {rv}
    for _i in range(3):
        for n in walk_local(ec.node):
            if isinstance(n, ast.Assign) and isinstance(n.value, ast.Name) and n.value.id in same:
                same.add(norm(n.targets[0]))
    ctx.check(bool(rets) and all(r.value is not None and norm(r.value) in same for r in rets), ec.fq, "return render_result", ec.where, "returns exactly the rendered capture", "end_capture does not return the string rendered from the captured buffer")
    ce = ctx.repo.fn("console:Capture.__exit__")
    g2 = cfgmod.build(ce.node)
    st = {n.id for n in g2.stmt_nodes() if n.kind == "stmt" and isinstance(n.stmt, ast.Assign) and norm(n.stmt.targets[0]) == "self._result" and "end_capture()" in norm(n.stmt.value)}
    w = g2.must_pass(g2.entry, st, {g2.exit}) if st else [g2.entry]
    ctx.check(w is None, ce.fq, "self._result = self._console.end_capture()", ce.where, "Capture.__exit__ ends the capture and keeps its result on every path",
              "Capture.__exit__ can return without end_capture() (e.g. when the block raised): the captured output is flushed to the file and get() has no result", g2.describe_path(w) if w else None)
    cn = ctx.repo.fn("console:Capture.__enter__")
    ctx.check(any(isinstance(c, ast.Call) and norm(c.func).endswith(".begin_capture") for c in walk_local(cn.node)), cn.fq, "begin_capture()", cn.where, "Capture.__enter__ begins the capture", "Capture.__enter__ does not begin the capture")


def r15_4(ctx):
    ctx.rule("R15.4", "HTML escaping: every segment text appended to the HTML fragments first passes through escape(), whose replace chain handles '&' before '<' and '>'")
    f0 = ctx.repo.fn("console:Console.export_html")
    # a long export method split in two: the part that walks the record may live in a same-class helper
    family = [f0]
    for c_ in walk_local(f0.node):
        if isinstance(c_, ast.Call) and isinstance(c_.func, ast.Attribute) and isinstance(c_.func.value, ast.Name) and c_.func.value.id == "self" and f0.cls is not None:
            h_ = f0.cls.method(c_.func.attr)
            if h_ is not None and h_ not in family and any("_record_buffer" in norm(x) for x in walk_local(h_.node) if isinstance(x, ast.Attribute)):
                family.append(h_)
    f = next((m_ for m_ in family if any(isinstance(n_, ast.For) and "_record_buffer" in norm(n_.iter) for n_ in walk_local(m_.node))), f0)
    esc = f.module.functions.get(f"{f.qualname}.<locals>.escape")
    esc_names = {"escape"}
    if esc is None:
        # a module-level helper, possibly bound to a local alias (`escape = _escape_html`)
        al = alias_map(f.node)
        for c in walk_local(f.node):
            if isinstance(c, ast.Call) and isinstance(c.func, ast.Name):
                tgt = expand_alias(c.func, al)
                cand = f.module.functions.get(norm(tgt)) if isinstance(tgt, ast.Name) else None
                if cand is not None and any(isinstance(x, ast.Call) and isinstance(x.func, ast.Attribute) and x.func.attr == "replace" for x in walk_local(cand.node)):
                    esc = cand
                    esc_names = {c.func.id, cand.name}
    stdlib_esc = {loc for loc, (mod_, nm_) in f.module.imports.items() if (mod_, nm_) == ("html", "escape")}
    stdlib_used = {c.func.id for c in walk_local(f.node) if isinstance(c, ast.Call) and isinstance(c.func, ast.Name) and c.func.id in stdlib_esc} | \
                  ({"html.escape"} if any(isinstance(c, ast.Call) and norm(c.func) == "html.escape" for c in walk_local(f.node)) else set())
    if esc is None and stdlib_used:
        # the standard library's html.escape: replaces & first, then < and > (and quotes unless quote=False) - its documented contract
        esc_names = stdlib_used
        ctx.ok(f.where, "segment text is escaped with html.escape (& first, then < and >)", f.fq)
    elif esc is None:
        raise AnchorVanished("export_html: the HTML escape helper (a function built from str.replace) was not found")
    rets = [r for r in walk_local(esc.node) if isinstance(r, ast.Return)] if esc is not None else []
    chain = []
    cur = rets[0].value if rets else None
    while isinstance(cur, ast.Call) and isinstance(cur.func, ast.Attribute) and cur.func.attr == "replace":
        chain.append((cur.args[0].value, cur.args[1].value) if all(isinstance(a, ast.Constant) for a in cur.args[:2]) else (None, None))
        cur = cur.func.value
    chain.reverse()
    want = {"&": "&amp;", "<": "&lt;", ">": "&gt;"}
    if esc is not None:
        ok = dict(chain) == want and chain and chain[0][0] == "&" and isinstance(cur, ast.Name) and cur.id == esc.params[0]
        ctx.check(ok, esc.fq, norm(rets[0]) if rets else "?", esc.where, "escape replaces & first, then < and >",
                  f"escape() chain {chain} is not '&'->'&amp;' first, then '<' and '>': ampersands produced by later replacements are double-escaped, or a character is left raw")
    # every loop that appends to fragments escapes the text first
    aliases = alias_map(f.node)
    from ..astutil import inline as _inl, single_defs as _sdf
    _sd = {k: v for k, v in _sdf(f.node).items() if "_record_buffer" in norm(v)}
    loops = [n for n in walk_local(f.node) if isinstance(n, ast.For) and "_record_buffer" in norm(_inl(n.iter, _sd))]
    ctx.floor(len(loops), 1, "export_html loops over the record")
    for lp in loops:
        tvar = norm(lp.target.elts[0]) if isinstance(lp.target, ast.Tuple) else None
        first = lp.body[0] if lp.body else None
        ok = isinstance(first, ast.Assign) and norm(first.targets[0]) == tvar and any(norm(first.value) == f"{en_}({tvar})" or (esc is None and isinstance(first.value, ast.Call) and norm(first.value.func) == en_ and first.value.args and norm(first.value.args[0]) == tvar) for en_ in esc_names)
        apps = [c for b in lp.body for c in ast.walk(b) if isinstance(c, ast.Call) and norm(expand_alias(c.func, aliases)) == "fragments.append"]
        ok2 = bool(apps) and all(norm(c.args[0]) == tvar for c in apps)
        ctx.check(ok and ok2, f.fq, f"for {norm(lp.target)} in ...: {short(first) if first is not None else ''}", f"{f.module.relpath}:{lp.lineno}", "segment text is escaped before anything else and only that variable is emitted",
                  "a loop over the record appends segment text to the HTML without escaping it first")
        # control filter applied
        ctx.check("filter_control(" in norm(_inl(lp.iter, _sd)), f.fq, short(lp.iter), f"{f.module.relpath}:{lp.lineno}", "control segments are filtered out of the HTML", "export_html iterates the record without Segment.filter_control: control codes end up in the HTML text")


def r15_5(ctx):
    from ..yieldpaths import canon_test, consistent
    from .common import segment_streams
    ctx.rule("R15.5", "text export filter (decided on the segment-stream normal form: loops, comprehensions, tuple targets or attribute access are the same thing): export_text(styles=False) emits the text of exactly the non-control segments of the record, in order; styles=True emits the same segments, each with its own style rendered around its own text (control segments are skipped in both: they are not characters of the visible text)")
    f = ctx.repo.fn("console:Console.export_text")
    g = cfgmod.build(f.node)
    streams = segment_streams(f, lambda it: norm(it) == "self._record_buffer")
    if not streams and f.cls is not None:
        # the walk over the record moved into a generator method of the class that export_text drains with the same argument names
        for c_ in walk_local(f.node):
            if isinstance(c_, ast.Call) and isinstance(c_.func, ast.Attribute) and isinstance(c_.func.value, ast.Name) and c_.func.value.id == "self":
                h_ = f.cls.method(c_.func.attr)
                if h_ is not None and h_.is_generator and all(isinstance(a_, ast.Name) and i_ + 1 < len(h_.params) and a_.id == h_.params[i_ + 1] for i_, a_ in enumerate(c_.args)) and not c_.keywords:
                    hs = segment_streams(h_, lambda it: norm(it) == "self._record_buffer")
                    if hs:
                        # the helper's paths, anchored at the call in export_text (that is where the branch facts of export_text apply)
                        streams = [(src_, paths_, c_) for src_, paths_, _a in hs]
    if not streams:
        raise AnchorVanished("export_text: no loop / comprehension over self._record_buffer found")
    allp = []
    for src, paths, anchor in streams:
        st = anchor
        while not isinstance(st, ast.stmt):
            st = f.module.parent_of[st]
        outer = {}
        for nid in g.nodes_of(st):
            for t, v in g.branch_facts(nid):
                for a, tv in canon_test(t, v):
                    outer[a] = tv
        for d, e in paths:
            dd = dict(outer)
            dd.update(d)
            allp.append((tuple(("cond", k, v) for k, v in dd.items()), e))

    def sel(scen):
        return [(p, e) for p, e in allp if consistent(p, scen)]
    # styles=False
    ok = True
    why = ""
    for p, e in sel({"styles": False, "CTRL": False}):
        if e != "TEXT":
            ok, why = False, f"a non-control segment gives `{e}`"
    if not sel({"styles": False, "CTRL": False}):
        ok, why = False, "no path handles non-control segments"
    for p, e in sel({"styles": False, "CTRL": True}):
        if e is not None:
            ok, why = False, f"a control segment gives `{e}`"
    ctx.check(ok, f.fq, "plain export", f.where, "plain export = text of non-control segments in record order",
              "export_text(styles=False) is not the concatenation of segment.text over exactly the non-control segments of the record" + (f" ({why})" if why else ""))
    ok = True
    why = ""
    for scen, want in (({"styles": True, "STYLE": True, "CTRL": False}, "STYLE.render(TEXT)"), ({"styles": True, "STYLE": False, "CTRL": False}, "TEXT"), ({"styles": True, "CTRL": True}, None)):
        got = sel(scen)
        if want is None:
            # control segments (bell, clear, cursor visibility) are not part of the visible text: the styled export must skip
            # them too, or it does not decode to the characters of the plain export
            for p, e in got:
                if e is not None:
                    ok, why = False, f"a control segment is exported as `{e}`: after bell() the styled export contains \\x07, which decodes to a character the visible text does not have"
            continue
        if not got:
            ok, why = False, f"no path for {scen}"
        for p, e in got:
            if e != want:
                ok, why = False, f"under {scen} the piece is `{e}`, expected `{want}`"
    ctx.check(ok, f.fq, "styled export", f.where, "styled export renders each segment's text with its own style", "export_text(styles=True) does not render each segment's text with that segment's style" + (f" ({why})" if why else ""))


def r15_6(ctx):
    ctx.rule("R15.6", "control-ness survives merging: Segment.simplify merges two segments into one ordinary segment only when BOTH are known not to be control segments; filter_control tests the is_control field")
    f = ctx.repo.fn("segment:Segment.simplify")
    g = cfgmod.build(f.node)
    merges = []
    for nd in g.stmt_nodes():
        if nd.kind == "stmt" and isinstance(nd.stmt, ast.Assign) and isinstance(nd.stmt.value, ast.Call) and norm(nd.stmt.value.func) in ("_Segment", "Segment", "cls"):
            a0 = nd.stmt.value.args[0] if nd.stmt.value.args else None
            if isinstance(a0, ast.BinOp) and isinstance(a0.op, ast.Add):
                merges.append(nd)
    # form B: the texts of a run are collected in a list that is joined into one Segment when the run ends - every statement that
    # adds `<segment>.text` to that list is a merge site for that segment
    joined_lists = set()
    for c in walk_local(f.node):
        if isinstance(c, ast.Call) and norm(c.func) in ("_Segment", "Segment", "cls") and c.args and isinstance(c.args[0], ast.Call) and isinstance(c.args[0].func, ast.Attribute) and c.args[0].func.attr == "join" \
                and isinstance(c.args[0].func.value, ast.Constant) and c.args[0].func.value.value == "" and c.args[0].args and isinstance(c.args[0].args[0], ast.Name):
            joined_lists.add(c.args[0].args[0].id)
    list_merges = []
    if not merges and joined_lists:
        for nd in g.stmt_nodes():
            if nd.kind == "stmt" and isinstance(nd.stmt, ast.Expr) and isinstance(nd.stmt.value, ast.Call) and isinstance(nd.stmt.value.func, ast.Attribute) and nd.stmt.value.func.attr == "append" \
                    and isinstance(nd.stmt.value.func.value, ast.Name) and nd.stmt.value.func.value.id in joined_lists and nd.stmt.value.args and isinstance(nd.stmt.value.args[0], ast.Attribute) and nd.stmt.value.args[0].attr == "text":
                list_merges.append(nd)
    ctx.floor(len(merges) + len(list_merges), 1, "merge sites in Segment.simplify")
    for nd in list_merges:
        from ..astutil import inline as _inlB, single_defs as _sdfB
        from ..yieldpaths import canon_test as _ctB
        op = norm(nd.stmt.value.args[0].value)
        cfB = {}
        for t, v in g.branch_facts(nd.id):
            for a, tv in _ctB(_inlB(t, _sdfB(f.node)), v):
                cfB[a] = tv
        conjB = [a for a, tv in cfB.items() if tv is True] + [f"not {a}" for a, tv in cfB.items() if tv is False]
        ctx.check(f"not {op}.is_control" in conjB, f.fq, short(nd.stmt), f"{f.module.relpath}:{nd.lineno}", f"the text of `{op}` joins a run only when it is not a control segment",
                  f"`{short(nd.stmt)}` adds the text of `{op}` to the run that becomes one ordinary segment although `{op}` may be a control segment: its control codes become visible text (e.g. the bell character shows up in export_html)")
        ctx.check(any(".style ==" in c_ or ("== " in c_ and ".style" in c_) for c_ in conjB), f.fq, f"style equality guard of {short(nd.stmt)}", f"{f.module.relpath}:{nd.lineno}", "a run only grows while the styles are equal", "segments with different styles are merged")
    for nd in merges:
        a0 = nd.stmt.value.args[0]
        ops = [norm(a0.left).rsplit(".", 1)[0], norm(a0.right).rsplit(".", 1)[0]]
        keeps_flag = len(nd.stmt.value.args) >= 3 or any(k.arg == "is_control" for k in nd.stmt.value.keywords)
        from ..astutil import inline as _inl, single_defs as _sdf
        from ..yieldpaths import canon_test
        _sd = _sdf(f.node)
        facts = g.branch_facts(nd.id)
        cf = {}
        for t, v in facts:
            for a, tv in canon_test(_inl(t, _sd), v):
                cf[a] = tv
        conj = [a for a, tv in cf.items() if tv is True] + [f"not {a}" for a, tv in cf.items() if tv is False]
        missing = [o for o in ops if f"not {o}.is_control" not in conj]
        ctx.check(keeps_flag or not missing, f.fq, short(nd.stmt), f"{f.module.relpath}:{nd.lineno}", f"merge of {ops} guarded by `not is_control` for both",
                  f"segments are merged into an ordinary segment although `{'` / `'.join(missing)}` may be a control segment: its control codes become visible text (e.g. the bell character shows up in export_html)")
        # styles equal
        ctx.check(any("style ==" in c or "== " in c and ".style" in c for c in conj), f.fq, "style equality guard", f"{f.module.relpath}:{nd.lineno}", "merge only when styles are equal", "segments with different styles are merged")
    fc = ctx.repo.fn("segment:Segment.filter_control")
    from ..yieldpaths import Unsupported, canon_test as _ct, paths_of, resolve
    seg_p, flag_p = fc.params[1], fc.params[2]

    def keeps(txt):
        """True / False: the returned iterable keeps exactly the segments whose is_control is that value; None: unknown"""
        try:
            v = ast.parse(txt, mode="eval").body
        except SyntaxError:
            return None
        if isinstance(v, ast.Call) and norm(v.func) in ("filter", "filterfalse", "itertools.filterfalse") and len(v.args) == 2 and norm(v.args[1]) == seg_p and norm(v.args[0]) in ("attrgetter('is_control')", "operator.attrgetter('is_control')"):
            return norm(v.func) == "filter"
        if isinstance(v, ast.Call) and norm(v.func) in ("list", "iter", "tuple") and len(v.args) == 1:
            v = v.args[0]
        if isinstance(v, (ast.GeneratorExp, ast.ListComp)) and len(v.generators) == 1 and norm(v.generators[0].iter) == seg_p and isinstance(v.generators[0].target, ast.Name) and norm(v.elt) == norm(v.generators[0].target) and len(v.generators[0].ifs) == 1:
            facts = _ct(v.generators[0].ifs[0], True)
            if len(facts) == 1 and facts[0][0] == f"{v.generators[0].target.id}.is_control":
                return facts[0][1]
        return None
    try:
        FP = [resolve(p_) for p_ in paths_of(fc.node)]
    except Unsupported as u:
        raise AnalysisError(f"Segment.filter_control: statement outside the path normal form ({u})")
    okf = bool(FP)
    for p_ in FP:
        facts = {e[1]: e[2] for e in p_ if e[0] == "cond"}
        rets = [e for e in p_ if e[0] == "return" and e[1] is not None]
        if len(rets) != 1 or facts.get(flag_p) is None or keeps(rets[0][1]) is not facts[flag_p]:
            okf = False
    ctx.check(okf, fc.fq, "filter_control", fc.where, "filter_control keeps/drops by the is_control field", "filter_control no longer filters on the is_control field")


def r15_7(ctx):
    from .c03 import r3_5
    from .common import borrow
    borrow(ctx, r3_5, "R3.5", "R15.7", " [the styled export renders the recorded segments as truecolor: cached SGR strings must be keyed by the colour system]")


def r15_8(ctx):
    from .c03 import r3_3
    from .common import borrow
    borrow(ctx, r3_3, "R3.3", "R15.8", " [captured output equals what would have been written: colour removal happens in the renderer both paths share]")


def r15_9(ctx):
    from .c06 import r6_5
    from .common import borrow
    borrow(ctx, r6_5, "R6.5", "R15.9", " [the styled export decodes to the printed styles: every set attribute reaches the SGR codes (guard masks of _make_ansi_codes cover every attribute bit)]")


def r15_10(ctx):
    ctx.rule("R15.10", "save_text / save_html are export_text / export_html plus a file: every option the save method shares with its export method is forwarded to it under the same name (or in its position). An option that is accepted and then dropped silently takes the export's default - save_html(path, clear=False) would empty the record although it was told not to, and the next export shows only later output")
    n = 0
    for kind in ("text", "html"):
        sv = ctx.repo.fn(f"console:Console.save_{kind}")
        ex = ctx.repo.fn(f"console:Console.export_{kind}")

        def all_params(f):
            a = f.node.args
            return [x.arg for x in a.posonlyargs + a.args + a.kwonlyargs if x.arg != "self"]
        shared = [p_ for p_ in all_params(sv) if p_ in all_params(ex)]
        calls = [c for c in walk_local(sv.node) if isinstance(c, ast.Call) and norm(c.func) == f"self.export_{kind}"]
        if len(calls) != 1:
            raise AnalysisError(f"Console.save_{kind}: expected exactly one call of self.export_{kind}")
        c = calls[0]
        where = f"{sv.module.relpath}:{c.lineno}"
        if any(k.arg is None for k in c.keywords) or any(isinstance(a, ast.Starred) for a in c.args):
            raise AnalysisError(f"Console.save_{kind}: options are forwarded through */** - not read by this rule")
        pos = [x.arg for x in ex.node.args.posonlyargs + ex.node.args.args if x.arg != "self"]
        passed = {}
        for i, a in enumerate(c.args):
            if i < len(pos):
                passed[pos[i]] = a
        for k in c.keywords:
            passed[k.arg] = k.value
        from ..astutil import inline as _inl, single_defs as _sdf
        sd = _sdf(sv.node)
        for p_ in shared:
            n += 1
            v = passed.get(p_)
            if v is None:
                ctx.violation(sv.fq, short(c), where, f"save_{kind} accepts `{p_}` but does not pass it to export_{kind}: the export runs with its own default whatever the caller asked for (save_{kind}(path, {p_}=...) is ignored{' - with clear=False the record is emptied all the same' if p_ == 'clear' else ''})")
            elif norm(_inl(v, {k_: v_ for k_, v_ in sd.items() if k_ != p_})) != p_:
                if isinstance(v, ast.Constant):
                    ctx.violation(sv.fq, short(c), where, f"save_{kind} passes the constant `{norm(v)}` for `{p_}` instead of its own argument")
                else:
                    raise AnalysisError(f"Console.save_{kind}: `{p_}={norm(v)}` is not the parameter itself; not decided")
            else:
                ctx.ok(where, f"`{p_}` forwarded to export_{kind}", sv.fq)
    ctx.floor(n, 5, "options shared by save_* and export_*")


def r15_11(ctx):
    from .common import segment_streams
    from ..yieldpaths import canon_test
    ctx.rule("R15.11", "a control segment stays a control segment: every Segment method that rebuilds the segments of a stream (apply_style, strip_links, strip_styles, remove_color, adjust_line_length, split_lines ..) constructs the new segment with the source's is_control flag, or constructs it only on paths where the source is known not to be a control segment. A rebuilt control code without the flag becomes ordinary text: it is exported (export_text / export_html contain the raw bell, clear and cursor codes) and written to non-terminals")
    m = ctx.repo.mod("segment")
    n = 0
    seen = set()
    for f in m.functions.values():
        if id(f) in seen or f.cls is None or f.cls.name != "Segment":
            continue
        seen.add(id(f))
        if not any(isinstance(c, ast.Call) and norm(c.func) in ("cls", "Segment", "_Segment") for c in walk_local(f.node)):
            continue
        decided = False
        try:
            streams = segment_streams(f, lambda it, f=f: isinstance(it, ast.Name) and it.id in f.params)
            decided = True
        except AnalysisError:
            streams = []
        if decided:
            for src, paths, anchor in streams:
                for d, e in paths:
                    if not e:
                        continue
                    try:
                        c = ast.parse(e, mode="eval").body
                    except SyntaxError:
                        continue
                    if not (isinstance(c, ast.Call) and norm(c.func) in ("cls", "Segment", "_Segment")):
                        continue
                    n += 1
                    where = f"{m.relpath}:{anchor.lineno}"
                    has_flag = len(c.args) >= 3 or any(k.arg == "is_control" for k in c.keywords)
                    if has_flag:
                        flag = c.args[2] if len(c.args) >= 3 else next(k.value for k in c.keywords if k.arg == "is_control")
                        okf = norm(flag) == "CTRL" or (isinstance(flag, ast.Constant) and flag.value is True) or (isinstance(flag, ast.Constant) and flag.value is False and d.get("CTRL") is False)
                        ctx.check(okf or not isinstance(flag, ast.Constant), f.fq, e[:90], where, "the rebuilt segment carries the source's control flag", f"`{e}` sets is_control to a constant that is not the source segment's flag")
                    else:
                        ctx.check(d.get("CTRL") is False, f.fq, e[:90], where, "rebuilt without the flag only where the source is known not to be a control segment",
                                  f"`{e}` is built without the is_control flag on a path where the source segment may be a control segment ({ {k: v for k, v in d.items()} }): the control code becomes ordinary text - after print(Control(..), style=..) or log(Control(..)) the bell / cursor codes show up in export_text, export_html and in files")
            continue
        # methods outside the stream normal form (while loops): every flag-less construction sits under a test that excludes control segments
        for c in walk_local(f.node):
            if not (isinstance(c, ast.Call) and norm(c.func) in ("cls", "Segment", "_Segment") and c.args):
                continue
            if len(c.args) >= 3 or any(k.arg == "is_control" for k in c.keywords):
                continue
            if isinstance(c.args[0], ast.Constant) or (isinstance(c.args[0], ast.BinOp) and isinstance(c.args[0].op, ast.Mult)):
                continue  # new text (a new line, padding), not a rebuilt segment
            n += 1
            st_ = c
            while not isinstance(st_, ast.stmt):
                st_ = m.parent_of[st_]
            gf = cfgmod.build(f.node)
            excl = False
            for nid in gf.nodes_of(st_):
                for t_, v_ in gf.branch_facts(nid):
                    for a, tv in canon_test(t_, v_):
                        if a.endswith(".is_control") and tv is False:
                            excl = True
            ctx.check(excl, f.fq, short(c), f"{m.relpath}:{c.lineno}", "rebuilt only for non-control segments", f"`{short(c)}` rebuilds a segment without the is_control flag and no enclosing test excludes control segments")
    ctx.floor(n, 8, "segment reconstructions in Segment")


def r15_12(ctx):
    ctx.rule("R15.12", "a capture returns exactly what was printed, also when that is nothing: Capture.get refuses only while the result is still the `None` it was initialised with (an identity test); a truthiness test of the result also refuses the empty string - the legitimate result of a capture in which nothing visible was printed (print('', end=''), control codes on a non-terminal)")
    c = ctx.repo.cls("console:Capture")
    f = c.method("get")
    init = c.method("__init__")
    if f is None or init is None:
        raise AnchorVanished("console:Capture.get / __init__ not found")
    m = f.module
    slot = None
    for x in walk_local(init.node):
        if isinstance(x, (ast.Assign, ast.AnnAssign)) and x.value is not None and isinstance(x.value, ast.Constant) and x.value.value is None:
            t = x.targets[0] if isinstance(x, ast.Assign) else x.target
            if isinstance(t, ast.Attribute) and norm(t.value) == init.params[0]:
                slot = t.attr
    if slot is None:
        raise AnalysisError("Capture.__init__: no slot initialised with None; the availability test is written differently")
    g = cfgmod.build(f.node)
    sv = f"{f.params[0]}.{slot}"
    n = 0
    for nd in g.stmt_nodes():
        if nd.kind != "stmt" or not isinstance(nd.stmt, ast.Raise):
            continue
        n += 1
        facts = [(norm(t), v) for t, v in g.branch_facts(nd.id)]
        ident = any((t == f"{sv} is None" and v is True) or (t == f"{sv} is not None" and v is False) for t, v in facts)
        truthy = any((t == f"not {sv}" and v is True) or (t == sv and v is False) or (t in (f"{sv} == ''", f"len({sv}) == 0") and v is True) for t, v in facts)
        if truthy and not ident:
            ctx.violation(f.fq, short(nd.stmt), f"{m.relpath}:{nd.lineno}", f"Capture.get raises when `{sv}` is falsy: an empty capture (nothing visible printed) is reported as 'not available' instead of returning ''")
        elif ident:
            ctx.ok(f"{m.relpath}:{nd.lineno}", "get() refuses only while the result is None", f.fq)
        else:
            raise AnalysisError(f"Capture.get: the raise at line {nd.lineno} is not guarded by a test of `{sv}` this rule reads")
    ctx.floor(n, 1, "raise sites in Capture.get")


def r15_13(ctx):
    from .c03 import r3_1
    from .common import borrow as _borrow
    _borrow(ctx, r3_1, "R3.1", "R15.13", " [the file text and the recorded text are the same characters: Style.render puts escape sequences AROUND the text and returns every character of it - a render that drops or moves characters (trailing new lines taken out of the SGR wrapper and collapsed) makes the file differ from export_text()]")


RULES = [r15_1, r15_2, r15_3, r15_4, r15_5, r15_6, r15_7, r15_8, r15_9, r15_10, r15_11, r15_12, r15_13]
